"""Hand-computed cases for the reference models / oracles of the runtime checks (run by setup.sh)."""
import sys, os
sys.path.insert(0, os.path.dirname(os.path.dirname(os.path.abspath(__file__))))
from rt import oracles as O
from rt import wfgen

# --- expansion by construction
wf = {"stages": 2, "components": [
    {"name": "A", "stage": 0, "refs": [], "replicate": 2},
    {"name": "B", "stage": 0, "refs": ["A"]},
    {"name": "G", "stage": 1, "refs": ["B", "A"], "aggregate": True},
    {"name": "X", "stage": 1, "refs": ["G"], "repeat": 2.0}]}
n = wfgen.expand(wf)
assert sorted(n) == ["stage0.A0", "stage0.A1", "stage0.B0", "stage0.B1", "stage1.G", "stage1.X"], sorted(n)
assert n["stage0.B1"]["preds"] == ["stage0.A1"]
assert n["stage1.G"]["preds"] == ["stage0.B0", "stage0.B1", "stage0.A0", "stage0.A1"]

# --- restart policy automaton
fr = O.final_reason
assert fr([{"reason": "Success"}]) == ("Success", 1)
assert fr([{"reason": "ResourceExhausted"}] * 3 + [{"reason": "Success"}]) == ("Success", 4)
assert fr([{"reason": "ResourceExhausted"}] * 4) == ("ResourceExhausted", 4)          # 3 restarts by default
assert fr([{"launch_error": "OSError"}] * 6) == ("SubmissionFailed", 6)               # 1 + 5 re-submissions
assert fr([{"launch_error": "OSError"}] * 5 + [{"reason": "KnownIssue"}]) == ("KnownIssue", 6)
assert fr([{"reason": "KnownIssue"}, {"reason": "Success"}]) == ("KnownIssue", 1)

# --- C02 rule-given states
script = {"components": {"stage0.A0": [{"reason": "KnownIssue"}]}}
for nd in n.values():
    nd.setdefault("shutdownOn", [])
n["stage0.A0"]["shutdownOn"] = ["KnownIssue"]
e = O.c02_expected(n, script)
assert e["rule"]["stage0.A0"] == "component_shutdown" and e["rule"]["stage0.B0"] == "component_shutdown"
assert e["rule"]["stage0.B1"] == "finished"
assert e["rule"]["stage1.G"] == "finished"          # not all replicated inputs are shut down
assert not e["unrecoverable"]
n["stage0.A0"]["shutdownOn"] = []
e = O.c02_expected(n, script)
assert e["unrecoverable"] == ["stage0.A0"] and e["rule"]["stage0.B0"] == "component_shutdown"

# --- C01 launch-order invariant
ev = [
    {"seq": 1, "kind": "cs.run", "comp": "stage0.A0", "thread": "t", "preds": {}, "graph_preds": []},
    {"seq": 2, "kind": "cs.run", "comp": "stage0.B0", "thread": "t", "preds": {"stage0.A0": "running"}, "graph_preds": ["stage0.A0"]},
]
v, c = O.c01_check(n, ev)
assert [x["clause"] for x in v] == ["launched-before-producer-final"], v
ev[1]["preds"] = {"stage0.A0": "finished"}
assert O.c01_check(n, ev)[0] == []
ev[1]["preds"] = {"stage0.A0": "component_shutdown"}
assert [x["clause"] for x in O.c01_check(n, ev)[0]] == ["non-aggregating-launched-with-shutdown-producer"]
# the same-stage observer exception: G submitted, then X may run while G is still running
ev2 = [{"seq": 1, "kind": "cs.run", "comp": "stage1.G", "thread": "t", "preds": {p: "finished" for p in n["stage1.G"]["preds"]}, "graph_preds": []},
       {"seq": 2, "kind": "cs.run", "comp": "stage1.X", "thread": "t", "preds": {"stage1.G": "running"}, "graph_preds": []}]
assert O.c01_check(n, ev2)[0] == []
assert [x["clause"] for x in O.c01_check(n, ev2[1:])[0]] == ["launched-before-producer-final"]   # subject never submitted

# --- C12 automaton
pol = O.c12_policy({})
assert pol == {"max_restarts": 3, "restart_on": ["ResourceExhausted"], "max_resub": 5}
assert O.c12_policy({"restartHookFile": "x.py"})["max_restarts"] is None
assert O.c12_policy({"restartHookFile": ""})["max_restarts"] == 3
assert O.c12_policy({"maxRestarts": -1})["max_restarts"] is None
def L(i, err=None): return {"seq": 10 * i, "kind": "launch", "comp": "stage0.M", "exec": i, "launch_error": err}
def X(i, r): return {"seq": 10 * i + 5, "kind": "exit", "comp": "stage0.M", "exec": i, "reason": r}
hist = [L(0), X(0, "KnownIssue"), L(1)]
assert [x["clause"] for x in O.c12_check("stage0.M", pol, hist)[0]] == ["restart-after-non-restartable-exit"]
hist = [L(0), X(0, "Killed"), L(1)]
assert [x["clause"] for x in O.c12_check("stage0.M", pol, hist)[0]] == ["restart-after-killed-or-cancelled"]
hist = [x for i in range(5) for x in (L(i), X(i, "ResourceExhausted"))]
assert [x["clause"] for x in O.c12_check("stage0.M", pol, hist)[0]] == ["restarts-exceed-maximum"]
hist = [L(i, "OSError") for i in range(7)]
assert [x["clause"] for x in O.c12_check("stage0.M", pol, hist)[0]] == ["more-than-5-consecutive-resubmissions"]
hist = [L(i, "OSError") for i in range(6)]
assert O.c12_check("stage0.M", pol, hist)[0] == []
print("selftest ok")
