"""Hand-computed cases for the reference models / oracles of the runtime checks (run by setup.sh)."""
import sys, os
sys.path.insert(0, os.path.dirname(os.path.dirname(os.path.abspath(__file__))))
from rt import oracles as O
from rt import wfgen

# --- expansion by construction
wf = {"stages": 2, "components": [
    {"name": "A", "stage": 0, "refs": [], "replicate": 2},
    {"name": "B", "stage": 0, "refs": ["A"]},
    {"name": "G", "stage": 1, "refs": ["B", "A"], "aggregate": True},
    {"name": "X", "stage": 1, "refs": ["G"], "repeat": 2.0}]}
n = wfgen.expand(wf)
assert sorted(n) == ["stage0.A0", "stage0.A1", "stage0.B0", "stage0.B1", "stage1.G", "stage1.X"], sorted(n)
assert n["stage0.B1"]["preds"] == ["stage0.A1"]
assert n["stage1.G"]["preds"] == ["stage0.B0", "stage0.B1", "stage0.A0", "stage0.A1"]

# --- restart policy automaton
fr = O.final_reason
assert fr([{"reason": "Success"}]) == ("Success", 1)
assert fr([{"reason": "ResourceExhausted"}] * 3 + [{"reason": "Success"}]) == ("Success", 4)
assert fr([{"reason": "ResourceExhausted"}] * 4) == ("ResourceExhausted", 4)          # 3 restarts by default
assert fr([{"launch_error": "OSError"}] * 6) == ("SubmissionFailed", 6)               # 1 + 5 re-submissions
assert fr([{"launch_error": "OSError"}] * 5 + [{"reason": "KnownIssue"}]) == ("KnownIssue", 6)
assert fr([{"reason": "KnownIssue"}, {"reason": "Success"}]) == ("KnownIssue", 1)

# --- C02 rule-given states
script = {"components": {"stage0.A0": [{"reason": "KnownIssue"}]}}
for nd in n.values():
    nd.setdefault("shutdownOn", [])
n["stage0.A0"]["shutdownOn"] = ["KnownIssue"]
e = O.c02_expected(n, script)
assert e["rule"]["stage0.A0"] == "component_shutdown" and e["rule"]["stage0.B0"] == "component_shutdown"
assert e["rule"]["stage0.B1"] == "finished"
assert e["rule"]["stage1.G"] == "finished"          # not all replicated inputs are shut down
assert not e["unrecoverable"]
n["stage0.A0"]["shutdownOn"] = []
e = O.c02_expected(n, script)
assert e["unrecoverable"] == ["stage0.A0"] and e["rule"]["stage0.B0"] == "component_shutdown"

# --- C01 launch-order invariant
ev = [
    {"seq": 1, "kind": "cs.run", "comp": "stage0.A0", "thread": "t", "preds": {}, "graph_preds": []},
    {"seq": 2, "kind": "cs.run", "comp": "stage0.B0", "thread": "t", "preds": {"stage0.A0": "running"}, "graph_preds": ["stage0.A0"]},
]
v, c = O.c01_check(n, ev)
assert [x["clause"] for x in v] == ["launched-before-producer-final"], v
ev[1]["preds"] = {"stage0.A0": "finished"}
assert O.c01_check(n, ev)[0] == []
ev[1]["preds"] = {"stage0.A0": "component_shutdown"}
assert [x["clause"] for x in O.c01_check(n, ev)[0]] == ["non-aggregating-launched-with-shutdown-producer"]
# the same-stage observer exception: G submitted, then X may run while G is still running
ev2 = [{"seq": 1, "kind": "cs.run", "comp": "stage1.G", "thread": "t", "preds": {p: "finished" for p in n["stage1.G"]["preds"]}, "graph_preds": []},
       {"seq": 2, "kind": "cs.run", "comp": "stage1.X", "thread": "t", "preds": {"stage1.G": "running"}, "graph_preds": []}]
assert O.c01_check(n, ev2)[0] == []
assert [x["clause"] for x in O.c01_check(n, ev2[1:])[0]] == ["launched-before-producer-final"]   # subject never submitted

# --- C12 automaton
pol = O.c12_policy({})
assert pol == {"max_restarts": 3, "restart_on": ["ResourceExhausted"], "max_resub": 5}
assert O.c12_policy({"restartHookFile": "x.py"})["max_restarts"] is None
assert O.c12_policy({"restartHookFile": ""})["max_restarts"] == 3
assert O.c12_policy({"maxRestarts": -1})["max_restarts"] is None
def L(i, err=None): return {"seq": 10 * i, "kind": "launch", "comp": "stage0.M", "exec": i, "launch_error": err}
def X(i, r): return {"seq": 10 * i + 5, "kind": "exit", "comp": "stage0.M", "exec": i, "reason": r}
hist = [L(0), X(0, "KnownIssue"), L(1)]
assert [x["clause"] for x in O.c12_check("stage0.M", pol, hist)[0]] == ["restart-after-non-restartable-exit"]
hist = [L(0), X(0, "Killed"), L(1)]
assert [x["clause"] for x in O.c12_check("stage0.M", pol, hist)[0]] == ["restart-after-killed-or-cancelled"]
hist = [x for i in range(5) for x in (L(i), X(i, "ResourceExhausted"))]
assert [x["clause"] for x in O.c12_check("stage0.M", pol, hist)[0]] == ["restarts-exceed-maximum"]
hist = [L(i, "OSError") for i in range(7)]
assert [x["clause"] for x in O.c12_check("stage0.M", pol, hist)[0]] == ["more-than-5-consecutive-resubmissions"]
hist = [L(i, "OSError") for i in range(6)]
assert O.c12_check("stage0.M", pol, hist)[0] == []

# --- exactly one final state (assignment monitor)
def S(seq, comp, old, new): return {"seq": seq, "kind": "cs.state", "comp": comp, "old": old, "new": new}
r = {"events": [S(1, "a", None, "checking"), S(2, "a", "checking", "finished"), S(3, "b", None, "component_shutdown")],
     "final_states": {"a": "finished", "b": "component_shutdown"}}
assert O.single_final_state(r)[0] == []
r["events"].append(S(4, "b", "component_shutdown", "failed"))
assert [x["clause"] for x in O.single_final_state(r)[0]] == ["final-state-reassigned"]
# a reading taken BEFORE the assignment does not bind it, one taken after does
r = {"events": [{"seq": 1, "kind": "harness.states", "comp": None, "key": "final_states", "states": {"a": "running"}},
                S(2, "a", None, "component_shutdown"),
                {"seq": 3, "kind": "harness.states", "comp": None, "key": "late_states", "states": {"a": "failed"}}],
     "final_states": {"a": "running"}, "late_states": {"a": "failed"}}
assert [x["clause"] for x in O.single_final_state(r)[0]] == ["state-read-after-the-run-differs-from-assigned-final-state"]

# --- C13 clause (d): stop before retries are used up needs a successful execution begun after the last output
from rt import repeating as RP
def ev(seq, kind, **kw): return dict({"seq": seq, "kind": kind, "comp": "stage0.ObsX"}, **kw)
base = [ev(1, "kernel.enter", n=1, last=False), ev(2, "launch", exec=0, prod_files=[1], launch_error=None),
        ev(3, "exit", exec=0, reason="Success"), ev(4, "kernel.exit", n=1, last=False),
        {"seq": 5, "kind": "output", "comp": "stage0.ProdAX"}, ev(6, "notify_all_producers_finished"),
        ev(7, "kernel.enter", n=2, last=False), ev(8, "launch", exec=1, prod_files=[1], launch_error="OSError"),
        ev(9, "kernel.exit", n=2, last=False), ev(10, "kernel.enter", n=3, last=True), ev(11, "kernel.exit", n=3, last=True),
        ev(12, "observed.end", verdict="dead")]
res = {"obs": "stage0.ObsX", "events": base, "retries": 1, "consume": True}
cl = [x["clause"] for x in RP.judge({"kill_delay": None}, res)[0]]
assert cl == ["d:stopped-before-retries-used-up-without-successful-final-execution"], cl
res["retries"] = 0            # the single failed attempt used the only try
assert RP.judge({"kill_delay": None}, res)[0] == []
print("selftest ok")
