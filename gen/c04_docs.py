"""Seeded generator of layered FlowIR documents (used by C04 and, as initial states, by C08).

Every layer (default/platform x global/stage blueprint and variables, user variable file,
component, component override) defines or omits each leaf of a palette of typed options and each
variable; values are tagged by the layer they come from so the winning layer is readable from a
resolved configuration.  Variable references only point "forward" in VAR_ORDER: no cycles.
"""
from __future__ import annotations

import copy

import vlib
from ref import c04_layering as ref

# (path, kind, falsy value that a layer may legitimately set)
PALETTE = [
    (("command", "executable"), "str", None),
    (("command", "arguments"), "str", ""),
    (("command", "environment"), "str", None),
    (("command", "resolvePath"), "bool", False),
    (("workflowAttributes", "aggregate"), "bool", False),
    (("workflowAttributes", "isMigratable"), "bool", False),
    (("workflowAttributes", "maxRestarts"), "int", 0),
    (("workflowAttributes", "repeatRetries"), "int", 0),
    (("workflowAttributes", "shutdownOn"), "list", []),
    (("workflowAttributes", "memoization", "disable", "strong"), "raw", False),
    (("workflowAttributes", "optimizer", "exploitChance"), "float", 0.0),
    (("resourceRequest", "numberProcesses"), "int", None),
    (("resourceRequest", "numberThreads"), "int", None),
    (("resourceRequest", "memory"), "int", 0),
    (("resourceRequest", "gpus"), "int", 0),
    (("resourceManager", "config", "backend"), "str", None),
    (("resourceManager", "config", "walltime"), "number", 0),
    (("resourceManager", "lsf", "queue"), "str", None),
    (("resourceManager", "lsf", "statusRequestInterval"), "number", 0),
    (("resourceManager", "kubernetes", "image"), "str", ""),
    (("resourceManager", "kubernetes", "gracePeriod"), "int", 0),
    (("resourceManager", "kubernetes", "cpuUnitsPerCore"), "number", None),
    (("resourceManager", "docker", "imagePullPolicy"), "raw", None),
]
LAYER_CODE = {"dg": 1, "ds": 2, "pg": 3, "ps": 4, "comp": 5, "ovr": 6, "user": 7}
PLATFORM_POOLS = [["default", "p1", "p2"], ["default", "p1", "p1x"], ["default", "p", "p.q"],
                  ["default", "lsf", "LSF"]]
COMP_NAMES = ["c", "c1", "c.x", "comp-A", "x", "xy"]
STR_VARS = ["va", "vb", "vc", "vd", "v-e", "V_f"]
INT_VARS = ["n1", "n2"]
FLAG_VAR = "flag"
VAR_ORDER = STR_VARS + INT_VARS + [FLAG_VAR]


def _int_value(layer, q, s, k):
    return 1000 * LAYER_CODE[layer] + 100 * q + 10 * s + k


class DocGen:
    def __init__(self, r, foreign_unsafe, with_undefined, with_user):
        self.r = r
        self.foreign_unsafe = foreign_unsafe
        self.with_undefined = with_undefined
        self.platforms = list(r.choice(PLATFORM_POOLS))
        self.nstages = r.choice([1, 2, 2])
        self.p_def = r.choice([0.15, 0.3, 0.5, 0.8])
        # variables every platform and stage can see (defined in default.global)
        self.universal = set(INT_VARS + [FLAG_VAR] + [v for v in STR_VARS if r.random() < 0.5])
        self.with_user = with_user

    def ref_target(self, after, universal_only):
        """A variable name that may be referenced from the value of variable `after` (or any when
        None) without ever creating a cycle: only names later in VAR_ORDER."""
        start = VAR_ORDER.index(after) + 1 if after is not None else 0
        cands = [v for v in VAR_ORDER[start:] if v != FLAG_VAR]
        if universal_only or not self.with_undefined:
            cands = [v for v in cands if v in self.universal]
        elif self.r.random() < 0.25:
            return "undef%d" % self.r.randrange(2)
        return self.r.choice(cands) if cands else None

    def var_value(self, name, layer, q, s, universal_only=False):
        r = self.r
        tag = "%s.%s%d.%s" % (layer, self.platforms[q], s, name)
        if name in INT_VARS:
            iv = _int_value(layer, q, s, 1 + INT_VARS.index(name))
            if name == "n1" and r.random() < 0.2:
                return "%(n2)s"
            return r.choice([iv, iv, str(iv), 0])
        if name == FLAG_VAR:
            return r.choice([True, False, "true", "false", "yes", "no"])
        if r.random() < 0.08:
            return ""
        if r.random() < 0.4:
            t = self.ref_target(name, universal_only)
            if t is not None:
                if r.random() < 0.3:
                    t2 = self.ref_target(name, universal_only)
                    if t2 is not None:
                        return "%s=%%(%s)s+%%(%s)s" % (tag, t, t2)
                return "%s=%%(%s)s" % (tag, t)
        return tag

    def opt_value(self, path, kind, falsy, layer, q, s, universal_only=False):
        r = self.r
        tag = "%s.%s%d.%s" % (layer, self.platforms[q], s, path[-1])
        k = [p for p, _, _ in PALETTE].index(path) % 10
        if falsy is not None and r.random() < 0.15:
            return copy.deepcopy(falsy)
        if kind == "str":
            if r.random() < 0.4:
                t = self.ref_target(None, universal_only)
                if t is not None:
                    return "%s %%(%s)s" % (tag, t)
            return tag
        if kind in ("int", "number"):
            iv = _int_value(layer, q, s, k)
            x = r.random()
            if x < 0.2:
                return "%%(%s)s" % r.choice(INT_VARS)
            return iv if x < 0.7 else str(iv)
        if kind == "float":
            fv = (LAYER_CODE[layer] * 8 + q * 2 + s) / 64.0
            return fv if r.random() < 0.7 else repr(fv)
        if kind == "bool":
            if path == ("command", "resolvePath") and r.random() < 0.25:
                return "%(flag)s"
            return r.random() < 0.5
        if kind == "list":
            return ["%s-%d" % (tag, i) for i in range(r.randrange(0, 3))]
        if path[-1] == "imagePullPolicy":
            return ["Always", "Never", "IfNotPresent"][(LAYER_CODE[layer] + q) % 3]
        return r.random() < 0.5  # raw boolean

    def options(self, layer, q, s, universal_only=False):
        out = {}
        for path, kind, falsy in PALETTE:
            if self.r.random() < self.p_def:
                ref.set_path(out, path, self.opt_value(path, kind, falsy, layer, q, s, universal_only))
        return out

    def variables(self, layer, q, s, force=(), universal_only=False):
        out = {}
        for name in VAR_ORDER:
            if name in force or self.r.random() < self.p_def:
                out[name] = self.var_value(name, layer, q, s, universal_only)
        return out

    def build(self):
        r = self.r
        doc = {"platforms": list(self.platforms), "variables": {}, "blueprint": {}, "components": []}
        for q, plat in enumerate(self.platforms):
            lg, ls = ("dg", "ds") if plat == "default" else ("pg", "ps")
            doc["variables"][plat] = {
                "global": self.variables(lg, q, 0, force=self.universal if plat == "default" else ()),
                "stages": {s: self.variables(ls, q, s) for s in range(self.nstages) if r.random() < 0.8}}
            doc["blueprint"][plat] = {
                "global": self.options(lg, q, 0),
                "stages": {s: self.options(ls, q, s) for s in range(self.nstages) if r.random() < 0.8}}
        names = r.sample(COMP_NAMES, r.choice([2, 3]))
        for i, name in enumerate(names):
            s = i % self.nstages
            comp = {"stage": s, "name": name}
            comp.update(self.options("comp", 0, s))
            comp.setdefault("command", {}).setdefault("executable", "exe-" + name)
            comp["variables"] = self.variables("comp", 0, s)
            ovr = {}
            for q, plat in enumerate(self.platforms):
                if plat == "default" and r.random() < 0.7:
                    continue
                if r.random() < 0.75:
                    safe = not self.foreign_unsafe
                    o = self.options("ovr", q, s, universal_only=safe)
                    if r.random() < 0.7:
                        o["variables"] = self.variables("ovr", q, s, universal_only=safe)
                    ovr[plat] = o
            if ovr:
                comp["override"] = ovr
            doc["components"].append(comp)
        user = None
        if self.with_user:
            g = {}
            st = {}
            for name in VAR_ORDER:
                x = r.random()
                if x < 0.3:
                    g[name] = self.var_value(name, "user", 0, 0)
                elif x < 0.5:
                    s = r.randrange(self.nstages)
                    st.setdefault(s, {})[name] = self.var_value(name, "user", 0, s)
            user = {"global": g, "stages": st}
        return doc, user


def gen_doc(index, salt="C04"):
    r = vlib.rng(salt, "doc", index)
    slice_ = index % 4
    foreign_unsafe = slice_ == 3            # 1 document in 4 may trigger the known mechanism
    with_undefined = r.random() < 0.3
    with_user = r.random() < 0.35
    return DocGen(r, foreign_unsafe, with_undefined, with_user).build(), foreign_unsafe
