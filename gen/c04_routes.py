"""C04 route slice: documents for the instance / replicate / package-on-disk routes.

A layered document of gen/c04_docs.py (own salt; only documents whose override sections reference
universal variables) plus *chains inside one component*: a variable A whose winning definition is
the component's own (its `variables` or its override for a platform) references a variable B that
the component defines as well (definition or override) AND that a stage-scoped lower layer of the
same stage defines with a different value (default stage section, a platform's stage section, the
user variable file - global or stage section).  The component's B must be the one A is built from.
References only point forward in VAR_ORDER, so the variable graph stays acyclic.
"""
from __future__ import annotations

import vlib
from gen.c04_docs import STR_VARS, gen_doc
from gen.c04_updates import add_dict_options


def add_component_chains(r, doc, user):
    """In place.  Returns the number of chains put in."""
    n = 0
    platforms = list(doc["platforms"])
    for comp in doc["components"]:
        if r.random() >= 0.75:
            continue
        s, cname = comp["stage"], comp["name"]
        i = r.randrange(len(STR_VARS) - 1)
        j = r.randrange(i + 1, len(STR_VARS))
        a, b = STR_VARS[i], STR_VARS[j]
        tag = "chain.%s" % cname
        # B at component scope: the definition, or the override of some platforms (then also the definition
        # half of the time, so that platforms without the override still have a component-level B)
        b_in_override = r.random() < 0.3
        if b_in_override:
            for p in platforms:
                if r.random() < 0.6:
                    comp.setdefault("override", {}).setdefault(p, {}).setdefault("variables", {})[b] = \
                        "%s.ovr-%s.%s" % (tag, p, b)
        if not b_in_override or r.random() < 0.5:
            comp.setdefault("variables", {})[b] = "%s.comp.%s" % (tag, b)
        # A at component scope, referencing B
        text = "%s.%%s.%s=%%%%(%s)s" % (tag, a, b)
        if r.random() < 0.4:
            for p in platforms:
                if r.random() < 0.6:
                    comp.setdefault("override", {}).setdefault(p, {}).setdefault("variables", {})[a] = \
                        text % ("ovr-" + p)
            if r.random() < 0.5:
                comp.setdefault("variables", {})[a] = text % "comp"
        else:
            comp.setdefault("variables", {})[a] = text % "comp"
        # B at a stage-scoped lower layer, different value
        lower = []
        if r.random() < 0.6:
            lower.append("ds")
        if r.random() < 0.5:
            lower.append("ps")
        if user is not None and r.random() < 0.7:
            lower.append("user")
        if not lower:
            lower.append("ds")
        if "ds" in lower:
            doc["variables"]["default"].setdefault("stages", {}).setdefault(s, {})[b] = "%s.ds%d.%s" % (tag, s, b)
        if "ps" in lower:
            for p in platforms:
                if p != "default" and r.random() < 0.7:
                    doc["variables"][p].setdefault("stages", {}).setdefault(s, {})[b] = "%s.ps-%s%d.%s" % (tag, p, s, b)
        if "user" in lower:
            in_global = b in (user.get("global") or {})
            in_stage = any(b in sv for sv in (user.get("stages") or {}).values())
            if in_global or (not in_stage and r.random() < 0.5):
                user.setdefault("global", {})[b] = "%s.user-global.%s" % (tag, b)
            else:
                user.setdefault("stages", {}).setdefault(s, {})[b] = "%s.user-stage%d.%s" % (tag, s, b)
        n += 1
    return n


def gen_route_doc(index, salt="C04-routes"):
    r = vlib.rng(salt, "chains", index)
    doc_index = 4 * (index // 3) + index % 3        # skip the documents with foreign-override references
    (doc, user), _ = gen_doc(doc_index, salt=salt)
    chains = add_component_chains(r, doc, user)
    if r.random() < 0.3:
        add_dict_options(r, doc)
    return doc, user, chains
