"""C04 update histories: read - change one variable layer through the configuration interface - read.

A history is a layered document of gen/c04_docs.py loaded into ONE live FlowIRConcrete (active
platform A) followed by steps

    read   resolve (component, platform) pairs          -> each one is judged against the layering
    set    change one variable of one layer             -> the tracked document changes by construction
    user   the user variable file is applied to the live (possibly already queried) object
    ro     an operation that only READS the description: instance() / replicate() with the flag
           combinations the package loader uses (and the defaults), raw(), get_component_configuration()
           with other flag combinations, get_component_variables() -> results are discarded; the
           tracked document does not change, so the queries that follow must answer as before

The "set" kinds are the public setters of the four variable scopes and of the component scope:

    dg    set_global_variable(name, value)                          variables.default.global
    ds    set_stage_variable(stage, name, value)                    variables.default.stages[stage]
    pg    set_platform_global_variable(name, value, Q | None)       variables.Q.global
    ps    set_platform_stage_variable(stage, name, value, Q | None) variables.Q.stages[stage]
    comp  set_component_variable((stage, cname), name, value)       component.variables

(Q = None means "the active platform".)  The expected configuration after every step is the
reference layering of the tracked document: nothing here knows how the code under test caches.
Values follow the conventions of gen/c04_docs.py (references only point forward in VAR_ORDER, so
the variable graph stays acyclic; n1/n2 stay integers / decimal strings; flag stays a truth word).

Documents additionally get a DICT-valued option (resourceManager.kubernetes.podSpec, which the
built-in defaults leave unset) in stage blueprints of default and non-default platforms, in global
blueprints, components and overrides: the layers contribute different keys plus one shared key,
values may reference universal variables that components / overrides / the user file redefine.
"""
from __future__ import annotations

import copy

import vlib
from gen.c04_docs import FLAG_VAR, INT_VARS, STR_VARS, VAR_ORDER, gen_doc

KINDS = ["dg", "ds", "pg", "ps", "comp"]
UNDEF_NAMES = ["undef0", "undef1"]


def _value(r, doc, name, tag, allow_undefined):
    if name in INT_VARS:
        iv = 7000 + r.randrange(1000)
        if name == "n1" and r.random() < 0.15:
            return "%(n2)s"
        return r.choice([iv, iv, str(iv), 0])
    if name == FLAG_VAR:
        return r.choice([True, False, "true", "false", "yes", "no"])
    if name in UNDEF_NAMES:
        return tag                               # defining a so-far undefined name: plain text
    x = r.random()
    if x < 0.06:
        return ""
    if x < 0.40:
        # a forward reference to a variable every platform and stage can see (default.global)
        later = VAR_ORDER[VAR_ORDER.index(name) + 1:]
        universal = (doc["variables"].get("default") or {}).get("global") or {}
        cands = [v for v in later if v != FLAG_VAR and v in universal]
        if allow_undefined and r.random() < 0.2:
            return "%s=%%(%s)s" % (tag, r.choice(UNDEF_NAMES))
        if cands:
            return "%s=%%(%s)s" % (tag, r.choice(cands))
    return tag


PODSPEC = ("resourceManager", "kubernetes", "podSpec")

# flag combinations: what conf.py passes (store_unreplicated_flowir_to_disk / dosini dump, replicate(),
# get_flowir(raw=False)) and the defaults
INSTANCE_FLAGS = [
    {"ignore_errors": True, "inject_missing_fields": False, "fill_in_all": False, "is_primitive": True},
    {"ignore_errors": True, "fill_in_all": False},
    {"fill_in_all": True, "is_primitive": True},
    {"fill_in_all": True, "is_primitive": False},
    {},
    {"ignore_errors": True, "fill_in_all": True},
]
QUERY_FLAGS = [
    {"raw": True, "include_default": False},
    {"raw": True, "include_default": True},
    {"raw": False, "include_default": False, "ignore_convert_errors": True},
    {"raw": False, "include_default": True, "is_primitive": True},
    {"raw": True, "include_default": False, "inject_missing_fields": False, "is_primitive": True},
    {"raw": False, "include_default": True, "inject_missing_fields": False, "ignore_convert_errors": True},
    {"raw": False, "include_default": True, "ignore_convert_errors": True},
]


def _podspec(r, doc, tag, with_ref):
    """A dict-valued option: an own key, a key every layer shares, sometimes a nested dict."""
    universal = [v for v in ((doc["variables"].get("default") or {}).get("global") or {})
                 if v in STR_VARS or v in INT_VARS]

    def text(t):
        if with_ref and universal and r.random() < 0.6:
            return "%s %%(%s)s" % (t, r.choice(universal))
        return t
    out = {"own-" + tag.split(".")[0] + tag.split(".")[1]: text(tag + ".own"), "shared": text(tag + ".shared")}
    if r.random() < 0.4:
        out["nested"] = {"n-" + tag.split(".")[0]: text(tag + ".nested"), "shared": tag + ".nested-shared"}
    return out


def add_dict_options(r, doc):
    """Put podSpec dictionaries into the layers of `doc` (in place).  Stage blueprints get them most
    often: a dict-valued key that the lower layers (built-in defaults: None) do not have."""
    from ref import c04_layering as ref
    nstages = max(c["stage"] for c in doc["components"]) + 1
    for q, plat in enumerate(doc["platforms"]):
        bp = doc["blueprint"].setdefault(plat, {"global": {}, "stages": {}})
        lg, ls = ("dg", "ds") if plat == "default" else ("pg", "ps")
        if r.random() < 0.25:
            ref.set_path(bp["global"], PODSPEC, _podspec(r, doc, "%s.%s" % (lg, plat), True))
        for s in range(nstages):
            if r.random() < 0.65:
                ref.set_path(bp["stages"].setdefault(s, {}), PODSPEC, _podspec(r, doc, "%s.%s%d" % (ls, plat, s), True))
    for c in doc["components"]:
        if r.random() < 0.6:
            ref.set_path(c, PODSPEC, _podspec(r, doc, "comp.%s" % c["name"], r.random() < 0.5))
        for plat, o in (c.get("override") or {}).items():
            if r.random() < 0.4:
                ref.set_path(o, PODSPEC, _podspec(r, doc, "ovr.%s-%s" % (plat, c["name"]), r.random() < 0.5))


def _ro_step(r, platforms, active, comps):
    x = r.random()
    q = r.choice(platforms)
    plat = {"platform": q, "explicit": not (q == active and r.random() < 0.4)}
    if x < 0.40:
        return dict({"op": "ro", "call": "instance", "flags": dict(r.choice(INSTANCE_FLAGS))}, **plat)
    if x < 0.65:
        return dict({"op": "ro", "call": "replicate", "flags": {"ignore_errors": r.random() < 0.8}}, **plat)
    if x < 0.72:
        return {"op": "ro", "call": "raw"}
    s, n = r.choice(comps)
    if x < 0.92:
        return dict({"op": "ro", "call": "query", "comp": [s, n], "flags": dict(r.choice(QUERY_FLAGS))}, **plat)
    return dict({"op": "ro", "call": "variables", "comp": [s, n]}, **plat)


def gen_history(index, salt="C04-updates"):
    """Deterministic history number `index`.  JSON-able."""
    r = vlib.rng(salt, "history", index)
    # documents in which override sections only reference universal variables (index % 4 != 3)
    doc_index = 4 * (index // 3) + index % 3
    (doc, user), _ = gen_doc(doc_index, salt=salt)
    if r.random() < 0.7:
        add_dict_options(r, doc)
    platforms = list(doc["platforms"])
    others = [p for p in platforms if p != "default"]
    active = r.choice(others + others + ["default"])
    comps = [(c["stage"], c["name"]) for c in doc["components"]]
    nstages = max(s for s, _ in comps) + 1
    pairs = [[s, n, p] for (s, n) in comps for p in platforms]
    with_undefined = any("undef" in str(v) for v in _all_values(doc))

    user_mode = None
    user_names = set()
    if user is not None:
        user_mode = r.choice(["before", "after_warm", "after_warm"])
        user_names = set(user.get("global") or {})
        for sv in (user.get("stages") or {}).values():
            user_names |= set(sv)

    tracked = copy.deepcopy(doc)
    steps = []
    if user_mode == "before":
        steps.append({"op": "user"})

    def read_step(full):
        if full:
            chosen = list(pairs)
        else:
            chosen = [p for p in pairs if r.random() < 0.5] or [r.choice(pairs)]
        r.shuffle(chosen)
        out = []
        for s, n, p in chosen:
            out.append({"comp": [s, n], "platform": p, "explicit": not (p == active and r.random() < 0.3)})
        return {"op": "read", "pairs": out}

    def ro_block():
        return [_ro_step(r, platforms, active, comps) for _ in range(r.choice([1, 1, 2, 3]))]

    if r.random() < 0.5:            # what loading a package does: instance()/replicate() before any query
        steps.extend(ro_block())
    steps.append(read_step(r.random() < 0.8))
    if user_mode == "after_warm":
        if r.random() < 0.5:
            steps.append(_set_step(r, tracked, platforms, active, comps, nstages, user_names, with_undefined, len(steps)))
        steps.append({"op": "user"})
        steps.append(read_step(True))
    for _ in range(r.choice([4, 5, 6, 7])):
        x = r.random()
        if x < 0.7:
            steps.append(_set_step(r, tracked, platforms, active, comps, nstages, user_names, with_undefined, len(steps)))
            if r.random() < 0.15:       # two updates in a row
                steps.append(_set_step(r, tracked, platforms, active, comps, nstages, user_names, with_undefined, len(steps)))
        if x >= 0.45:                   # 0.45-0.7: update then read-only operations; >= 0.7: read-only operations alone
            steps.extend(ro_block())
        steps.append(read_step(r.random() < 0.75))
    # checkpoints at which every component is ALSO resolved through instance() / replicate() of the live
    # object (own random stream: the histories themselves stay what they were)
    rr = vlib.rng(salt, "history-routes", index)
    for st in steps:
        if st["op"] == "read" and rr.random() < 0.3:
            st["routes"] = rr.choice([["instance"], ["replicate"], ["instance", "replicate"]])
    return {"index": index, "doc": doc, "user": user, "active": active, "steps": steps}


def _all_values(doc):
    for plat in doc["variables"].values():
        for v in (plat.get("global") or {}).values():
            yield v
        for sv in (plat.get("stages") or {}).values():
            for v in sv.values():
                yield v
    for c in doc["components"]:
        for v in (c.get("variables") or {}).values():
            yield v


def _set_step(r, tracked, platforms, active, comps, nstages, user_names, allow_undefined, k):
    kind = r.choice(["dg", "ds", "ds", "pg", "ps", "ps", "comp"])
    stage = r.randrange(nstages)
    names = [n for n in VAR_ORDER if n not in user_names or kind == "comp"]
    if allow_undefined and r.random() < 0.1:
        names = [n for n in UNDEF_NAMES if n not in user_names] or names
    if not names:
        names, kind = list(VAR_ORDER), "comp"
    name = r.choice(names)
    step = {"op": "set", "kind": kind, "name": name}
    if kind in ("pg", "ps"):
        q = r.choice(platforms + ["default"])
        step["platform"] = q
        step["explicit"] = not (q == active and r.random() < 0.4)
    else:
        q = "default"
    if kind in ("ds", "ps"):
        step["stage"] = stage
    if kind == "ds":
        # set_stage_variable() needs the default platform's section of that stage to exist
        has = stage in ((tracked["variables"].get("default") or {}).get("stages") or {})
        step["setter"] = "set_stage_variable" if has and r.random() < 0.5 else "set_platform_stage_variable"
    if kind == "comp":
        s, n = r.choice(comps)
        step["comp"] = [s, n]
        stage = s
    tag = "upd%d.%s.%s%d.%s" % (k, kind, q, stage, name)
    step["value"] = _value(r, tracked, name, tag, allow_undefined)
    apply_to_document(tracked, step)
    return step


def apply_to_document(doc, step):
    """What a "set" step means for the description (by construction of the step)."""
    kind, name, value = step["kind"], step["name"], step["value"]
    if kind == "comp":
        for c in doc["components"]:
            if [c["stage"], c["name"]] == list(step["comp"]):
                c.setdefault("variables", {})[name] = value
        return
    plat = step.get("platform", "default") if kind in ("pg", "ps") else "default"
    sect = doc.setdefault("variables", {}).setdefault(plat, {})
    sect.setdefault("global", {})
    sect.setdefault("stages", {})
    if kind in ("dg", "pg"):
        sect["global"][name] = value
    else:
        sect["stages"].setdefault(step["stage"], {})[name] = value
