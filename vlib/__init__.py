"""Shared machinery for the runtime-monitoring checks.

* paths / interpreter bootstrap (the CURRENT working tree of the repository is what runs)
* `Check`: three-valued verdicts, evidence writer, witness (replay) files, known-findings classifier
* `fanout`: subprocess fan-out (one `subprocess` per batch, never multiprocessing.Pool)
* scratch directories under $VERIF_TMP (default /var/tmp/verif-<pid>), removed at exit
"""
from __future__ import annotations

import atexit
import hashlib
import json
import os
import random
import shutil
import subprocess
import sys
import tempfile
import time
import traceback
from typing import Any, Callable, Dict, Iterable, List, Optional, Sequence

VERIF_ROOT = os.path.dirname(os.path.dirname(os.path.abspath(__file__)))
REPO = os.environ.get("VERIF_REPO", "/repo")
REPO_PY = os.path.join(REPO, "python")
PYTHON = os.environ.get("VERIF_PYTHON", "/venv/bin/python")
GUARD = "ST4SD_RUNTIME_CORE_VERIF"
NPROC = int(os.environ.get("VERIF_NPROC", str(os.cpu_count() or 4)))

EXIT_HELD, EXIT_VIOLATION, EXIT_INCONCLUSIVE = 0, 1, 2


def bootstrap():
    """Put the repository's working tree and our helper packages first on sys.path."""
    deps = os.path.join(VERIF_ROOT, ".deps")
    if not os.path.isdir(os.path.join(deps, "icontract")):
        subprocess.run(["/bin/sh", os.path.join(VERIF_ROOT, "setup.sh")], stdout=subprocess.DEVNULL,
                       stderr=subprocess.DEVNULL, check=False)
    for p in (deps, VERIF_ROOT, REPO_PY):
        if p in sys.path:
            sys.path.remove(p)
        sys.path.insert(0, p)
    os.environ[GUARD] = "1"
    os.environ["LOGNAME"] = shadow_user()
    # quiet the runtime's loggers unless asked otherwise
    import logging
    if not os.environ.get("VERIF_DEBUG"):
        logging.disable(logging.CRITICAL)


def child_env(extra: Optional[Dict[str, str]] = None) -> Dict[str, str]:
    env = dict(os.environ)
    env["PYTHONPATH"] = os.pathsep.join([os.path.join(VERIF_ROOT, ".deps"), VERIF_ROOT, REPO_PY])
    env.setdefault("PYTHONHASHSEED", "0")
    env[GUARD] = "1"
    env["PYTHONDONTWRITEBYTECODE"] = "1"
    env["VERIF_TMP"] = scratch_root()
    env["VERIF_TMP_OWNER_PID"] = os.environ["VERIF_TMP_OWNER_PID"]
    env["LOGNAME"] = shadow_user()
    if extra:
        env.update(extra)
    return env


# --------------------------------------------------------------------------- scratch space

_SCRATCH: Optional[str] = None
_SCRATCH_OWNER = False


def scratch_root() -> str:
    global _SCRATCH, _SCRATCH_OWNER
    if _SCRATCH is None:
        inherited = os.environ.get("VERIF_TMP")
        if inherited and os.environ.get("VERIF_TMP_OWNER_PID") not in (None, str(os.getpid())):
            _SCRATCH = inherited
            os.makedirs(_SCRATCH, exist_ok=True)
        else:
            base = inherited or "/var/tmp"
            os.makedirs(base, exist_ok=True)
            _SCRATCH = tempfile.mkdtemp(prefix="verif-%d-" % os.getpid(), dir=base)
            _SCRATCH_OWNER = True
            os.environ["VERIF_TMP"] = _SCRATCH
            os.environ["VERIF_TMP_OWNER_PID"] = str(os.getpid())
            atexit.register(_cleanup_scratch)
    return _SCRATCH


def shadow_user() -> str:
    """The repository puts a 'shadow' directory per experiment instance under the hard-coded
    /tmp/chpc-<getpass.getuser()>-shadow and never removes it.  Every check run gets its own user name (LOGNAME is
    what getpass.getuser() reads first), so that the owner of the run can remove exactly what the run created."""
    return "verif-" + os.path.basename(scratch_root())


def _cleanup_scratch():
    if _SCRATCH_OWNER and _SCRATCH and os.environ.get("VERIF_TMP_OWNER_PID") == str(os.getpid()):
        if not os.environ.get("VERIF_KEEP_TMP"):
            shutil.rmtree(_SCRATCH, ignore_errors=True)
            shutil.rmtree(os.path.join("/tmp", "chpc-%s-shadow" % shadow_user()), ignore_errors=True)


def mkscratch(prefix: str = "d") -> str:
    return tempfile.mkdtemp(prefix=prefix + "-", dir=scratch_root())


# --------------------------------------------------------------------------- tiers / seeds

def tier() -> str:
    t = os.environ.get("VERIF_TIER", "quick")
    return t if t in ("quick", "thorough") else "quick"


def seed() -> int:
    try:
        return int(os.environ.get("VERIF_SEED", "0"))
    except ValueError:
        return 0


def rng(*salt: Any) -> random.Random:
    h = hashlib.sha256(repr((seed(),) + tuple(salt)).encode()).hexdigest()
    return random.Random(int(h[:16], 16))


def stable_hash(obj: Any) -> str:
    return hashlib.sha256(json.dumps(obj, sort_keys=True, default=repr).encode()).hexdigest()[:16]


# --------------------------------------------------------------------------- known findings

def load_known_findings(prop: str) -> Dict[str, Dict[str, Any]]:
    """Entries of known_findings.json for one property: {key: entry}. Only status == 'known'
    entries suppress; 'fixed' entries are history and suppress nothing."""
    import glob
    paths = [os.path.join(VERIF_ROOT, "known_findings.json")] + sorted(
        glob.glob(os.path.join(VERIF_ROOT, "known_findings.d", "*.json")))
    out = {}
    for path in paths:
        try:
            with open(path) as f:
                doc = json.load(f)
        except FileNotFoundError:
            continue
        for e in doc.get("findings", []):
            if e.get("property") == prop and e.get("status") == "known":
                out[e["key"]] = e
    return out


# --------------------------------------------------------------------------- the check object

class Check:
    """Collects what the monitors observed and turns it into verdict + evidence.

    A violation may carry `finding_key`: a *mechanism* key computed by the check's own
    structural classifier from the witness.  Only keys listed (status 'known') in
    known_findings.json are downgraded to KNOWN-FINDING lines; everything else is a VIOLATION.
    """

    def __init__(self, prop: str, level: str, rule: str, assumptions: Optional[List[str]] = None):
        self.prop = prop
        self.level = level
        self.rule = rule
        self.assumptions = list(assumptions or [])
        self.tier = tier()
        self.seed = seed()
        self.t0 = time.time()
        self.evaluations = 0
        self.counters: Dict[str, int] = {}
        self._distinct: set = set()
        self.samples: List[Any] = []
        self.max_samples = 6
        self.violations: List[Dict[str, Any]] = []
        self.known_seen: Dict[str, Dict[str, Any]] = {}
        self.inconclusive: List[str] = []
        self.extra: Dict[str, Any] = {}
        self.known = load_known_findings(prop)
        self.floors: Dict[str, int] = {}
        self.exhaustive: Optional[bool] = None

    # -- counting
    def count(self, name: str, n: int = 1):
        self.counters[name] = self.counters.get(name, 0) + n

    def evaluated(self, n: int = 1):
        self.evaluations += n

    def distinct(self, key: Any):
        self._distinct.add(key if isinstance(key, (str, int, tuple)) else stable_hash(key))

    def sample(self, obj: Any, force: bool = False):
        if force or len(self.samples) < self.max_samples:
            self.samples.append(obj)

    def floor(self, counter: str, minimum: int):
        """The deciding monitor `counter` must have been reached at least `minimum` times."""
        self.floors[counter] = minimum

    def elapsed(self) -> float:
        return time.time() - self.t0

    # -- verdicts
    def violation(self, what: str, witness: Any, finding_key: Optional[str] = None):
        if finding_key is not None and finding_key in self.known:
            e = self.known_seen.setdefault(finding_key, {"count": 0, "what": what, "example": witness})
            e["count"] += 1
            return False
        self.violations.append({"what": what, "finding_key": finding_key, "witness": witness})
        return True

    def note_inconclusive(self, why: str):
        self.inconclusive.append(why)

    def merge_worker(self, rec: Dict[str, Any]):
        """Merge the JSON summary a worker process produced (see Worker)."""
        self.evaluations += rec.get("evaluations", 0)
        for k, v in rec.get("counters", {}).items():
            self.count(k, v)
        for d in rec.get("distinct", []):
            self._distinct.add(d)
        for s in rec.get("samples", []):
            self.sample(s)
        for v in rec.get("violations", []):
            self.violation(v["what"], v["witness"], v.get("finding_key"))
        for w in rec.get("inconclusive", []):
            self.note_inconclusive(w)

    # -- finish
    def finish(self) -> int:
        wall = time.time() - self.t0
        for name, minimum in self.floors.items():
            if self.counters.get(name, 0) < minimum and name != "evaluations":
                self.note_inconclusive("monitor '%s' reached %d times < floor %d" % (
                    name, self.counters.get(name, 0), minimum))
        if "evaluations" in self.floors and self.evaluations < self.floors["evaluations"]:
            self.note_inconclusive("only %d evaluations < floor %d" % (self.evaluations, self.floors["evaluations"]))

        replay_paths = []
        if self.violations:
            rdir = os.path.join(VERIF_ROOT, "replay", self.prop)
            os.makedirs(rdir, exist_ok=True)
            for i, v in enumerate(self.violations[:20]):
                p = os.path.join(rdir, "%s-seed%d-%d.json" % (self.tier, self.seed, i))
                with open(p, "w") as f:
                    json.dump({"property": self.prop, "tier": self.tier, "seed": self.seed, **v}, f, indent=1,
                              default=repr)
                replay_paths.append(p)

        coverage: Dict[str, Any] = {
            "evaluations": int(self.evaluations),
            "distinct_nontrivial": len(self._distinct),
            "rule": self.rule,
            "samples": _jsonable(self.samples[: self.max_samples]),
            "counters": dict(sorted(self.counters.items())),
            "inconclusive": self.inconclusive[:20],
            "known_findings_seen": {k: {"count": v["count"], "what": v["what"], "example": _jsonable(v["example"])}
                                    for k, v in self.known_seen.items()},
            "violations_by_key": _tally([v.get("finding_key") or v["what"][:60] for v in self.violations]),
        }
        if self.exhaustive is not None:
            coverage["exhaustive"] = bool(self.exhaustive)
        coverage.update(_jsonable(self.extra))
        if self.inconclusive and not self.violations:
            verdict = "inconclusive"
        elif self.violations:
            verdict = "violated"
        else:
            verdict = "held"
        coverage["verdict"] = verdict
        ev = {
            "property_id": self.prop, "tier": self.tier, "seed": self.seed, "level": self.level,
            "coverage": coverage, "assumptions": self.assumptions, "wall_s": round(wall, 2),
            "violations": len(self.violations),
        }
        # runs against a mutated tree (development aid tools/run_seeded.sh) keep the committed evidence untouched
        evdir = os.environ.get("VERIF_EVIDENCE_DIR") or os.path.join(VERIF_ROOT, "evidence")
        os.makedirs(evdir, exist_ok=True)
        path = os.path.join(evdir, self.prop + ".json")
        tmp = path + ".tmp%d" % os.getpid()
        with open(tmp, "w") as f:
            json.dump(ev, f, indent=1, default=repr)
            f.write("\n")
        os.replace(tmp, path)

        for k, v in sorted(self.known_seen.items()):
            print("KNOWN-FINDING: property=%s %s [%s] (re-observed %d times)" % (
                self.prop, self.known[k].get("what", v["what"]), k, v["count"]))
        print("%s tier=%s seed=%d evaluations=%d distinct=%d wall=%.1fs counters=%s" % (
            self.prop, self.tier, self.seed, self.evaluations, len(self._distinct), wall,
            json.dumps(dict(sorted(self.counters.items())))))
        if self.violations:
            for i, v in enumerate(self.violations[:20]):
                print("VIOLATION property=%s replay=%s  # %s" % (
                    self.prop, replay_paths[i] if i < len(replay_paths) else replay_paths[-1], v["what"][:300]))
            if len(self.violations) > 20:
                print("... %d more violations not listed" % (len(self.violations) - 20))
            return EXIT_VIOLATION
        if self.inconclusive:
            for w in self.inconclusive[:10]:
                print("INCONCLUSIVE property=%s %s" % (self.prop, w))
            return EXIT_INCONCLUSIVE
        print("HELD property=%s on everything explored" % self.prop)
        return EXIT_HELD


def _tally(keys: Iterable[str]) -> Dict[str, int]:
    out: Dict[str, int] = {}
    for k in keys:
        out[k] = out.get(k, 0) + 1
    return out


def _jsonable(o: Any, depth: int = 0) -> Any:
    if depth > 12:
        return repr(o)
    if isinstance(o, (str, int, float, bool)) or o is None:
        return o
    if isinstance(o, bytes):
        return o.decode("utf-8", "backslashreplace")
    if isinstance(o, dict):
        return {str(k): _jsonable(v, depth + 1) for k, v in o.items()}
    if isinstance(o, (list, tuple, set, frozenset)):
        seq = sorted(o, key=repr) if isinstance(o, (set, frozenset)) else o
        return [_jsonable(v, depth + 1) for v in seq]
    return repr(o)


jsonable = _jsonable


# --------------------------------------------------------------------------- worker side

class Worker:
    """Same counting interface as Check, for use inside a child process; `dump()` writes the
    summary that `Check.merge_worker` consumes."""

    def __init__(self, max_samples: int = 2):
        self.evaluations = 0
        self.counters: Dict[str, int] = {}
        self._distinct: set = set()
        self.samples: List[Any] = []
        self.violations: List[Dict[str, Any]] = []
        self.inconclusive: List[str] = []
        self.max_samples = max_samples
        self.records: List[Any] = []   # free-form per-case records for the parent (not merged automatically)

    def count(self, name, n=1):
        self.counters[name] = self.counters.get(name, 0) + n

    def evaluated(self, n=1):
        self.evaluations += n

    def distinct(self, key):
        self._distinct.add(key if isinstance(key, (str, int)) else stable_hash(key))

    def sample(self, obj, force=False):
        if force or len(self.samples) < self.max_samples:
            self.samples.append(obj)

    def violation(self, what, witness, finding_key=None):
        # records that carry a finding key may be dropped beyond 200 per worker (they are only counted);
        # an UNCLASSIFIED violation is never dropped (hard cap 5000)
        n_keyed = sum(1 for v in self.violations if v["finding_key"] is not None)
        if finding_key is None and len(self.violations) < 5000:
            self.violations.append({"what": what, "witness": _jsonable(witness), "finding_key": None})
        elif finding_key is not None and n_keyed < 200:
            self.violations.append({"what": what, "witness": _jsonable(witness), "finding_key": finding_key})
        else:
            self.count("violations_dropped_over_200")

    def note_inconclusive(self, why):
        self.inconclusive.append(why)

    def summary(self) -> Dict[str, Any]:
        return {"evaluations": self.evaluations, "counters": self.counters,
                "distinct": sorted(map(str, self._distinct)), "samples": _jsonable(self.samples),
                "violations": self.violations, "inconclusive": self.inconclusive,
                "records": _jsonable(self.records)}

    def dump(self, path: str):
        tmp = path + ".tmp"
        with open(tmp, "w") as f:
            json.dump(self.summary(), f, default=repr)
        os.replace(tmp, path)


# --------------------------------------------------------------------------- fan-out

def fanout(module: str, jobs: Sequence[Dict[str, Any]], check: Check, timeout: float = 600.0,
           nproc: Optional[int] = None, env: Optional[Dict[str, str]] = None,
           per_job_env: Optional[Callable[[Dict[str, Any]], Dict[str, str]]] = None,
           deadline: Optional[float] = None) -> List[Dict[str, Any]]:
    """Run `python -m <module> --worker <job.json> <out.json>` for every job, `nproc` at a time.
    A worker that dies / times out without writing its output makes the check inconclusive
    (never a violation).  Returns the list of worker summaries (also merged into `check`)."""
    nproc = nproc or NPROC
    sdir = mkscratch("fan")
    pending = list(enumerate(jobs))
    running: List[Any] = []
    results: List[Dict[str, Any]] = []

    def launch(i, job):
        jp = os.path.join(sdir, "job%d.json" % i)
        op = os.path.join(sdir, "out%d.json" % i)
        with open(jp, "w") as f:
            json.dump(job, f)
        e = child_env(env)
        if per_job_env:
            e.update(per_job_env(job))
        log = open(os.path.join(sdir, "log%d.txt" % i), "w")
        p = subprocess.Popen([PYTHON, "-m", module, "--worker", jp, op], cwd=VERIF_ROOT, env=e,
                             stdout=log, stderr=subprocess.STDOUT)
        return {"i": i, "p": p, "op": op, "t0": time.time(), "log": log, "job": job}

    def reap(r, timed_out=False):
        r["log"].close()
        if os.path.exists(r["op"]):
            try:
                with open(r["op"]) as f:
                    rec = json.load(f)
                check.merge_worker(rec)
                results.append(rec)
                return
            except Exception as e:  # pragma: no cover
                check.note_inconclusive("worker %d wrote unreadable output: %r" % (r["i"], e))
                return
        tail = ""
        try:
            with open(os.path.join(sdir, "log%d.txt" % r["i"])) as f:
                tail = f.read()[-1500:]
        except OSError:
            pass
        check.note_inconclusive("worker %d %s without output (rc=%s): %s" % (
            r["i"], "timed out" if timed_out else "exited", r["p"].returncode, tail))

    while pending or running:
        while pending and len(running) < nproc:
            if deadline is not None and time.time() > deadline and results:
                check.count("jobs_skipped_after_deadline", len(pending))
                pending = []
                break
            i, job = pending.pop(0)
            running.append(launch(i, job))
        still = []
        for r in running:
            rc = r["p"].poll()
            if rc is not None:
                reap(r)
            elif time.time() - r["t0"] > timeout:
                r["p"].kill()
                r["p"].wait()
                reap(r, timed_out=True)
            else:
                still.append(r)
        running = still
        if running:
            time.sleep(0.05)
    shutil.rmtree(sdir, ignore_errors=True)
    return results


def worker_main(fn: Callable[[Dict[str, Any], Worker], None]):
    """Entry point helper: `if '--worker' in sys.argv: worker_main(run_job)`."""
    i = sys.argv.index("--worker")
    jp, op = sys.argv[i + 1], sys.argv[i + 2]
    with open(jp) as f:
        job = json.load(f)
    w = Worker()
    try:
        fn(job, w)
    except BaseException:
        w.note_inconclusive("worker crashed: " + traceback.format_exc()[-2000:])
    w.dump(op)
    sys.stdout.flush()
    os._exit(0)


def split(n_items: int, n_parts: int) -> List[range]:
    n_parts = max(1, min(n_parts, n_items))
    q, r = divmod(n_items, n_parts)
    out, s = [], 0
    for i in range(n_parts):
        e = s + q + (1 if i < r else 0)
        out.append(range(s, e))
        s = e
    return out


def load_replay(argv: Sequence[str]) -> Optional[Dict[str, Any]]:
    if "--replay" in argv:
        with open(argv[argv.index("--replay") + 1]) as f:
            return json.load(f)
    return None
