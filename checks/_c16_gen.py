"""C16 – symbolic experiment specs (a chain of 1..4 producers feeding a target component), their rendering to a
FlowIR package, and the list of single-aspect edits with the relation the PROPERTY STATEMENT demands.

A spec is JSON-able:
  comps   [ {name, stage, exe, args:[tok..], refs:[{producer|None, path|None, method}], image:None|{backend,image},
             lits... } ]   tok = ["lit", text] | ["ref", index into refs] | ["var", name]
  target  name of the judged component;  chain [p1..pL] names of its producers in dataflow order
  variables {name: text}          global variables
  data    {relative path: content}   files of the package (data/...)
  outputs {component: {"out.txt": content, "out.stdout": content}}   what the producers "wrote"
  where   directory tag (instance location), mtime (time stamp given to every file)
Nothing here looks at the repository code.
"""
from __future__ import annotations

import copy
import random
from typing import Any, Dict, List, Optional, Tuple

# collision-prone (substrings of each other, punctuation/case variants) – none ends in a digit
NAMES = ["a", "ab", "abc", "a-b", "a_b", "A", "gen", "gen-x", "genx", "Gen", "b", "ba", "b-a", "work", "worker", "w",
         "t", "tt", "t-a", "x-y", "xy", "prod", "producer", "p"]
DIGIT_NAMES = ["a1", "step2", "gen-x0", "w10", "t9"]   # names a user may well choose
EXES = ["echo", "cat", "ls", "true", "sh", "wc"]
LITS = ["hello", "-n", "--flag", "x", "1", "0.5", "a:b", "v=1", "-c", "world", "file", "ref", "out.txt"]
IMAGES = ["img:1", "img:2", "registry.io/ns/img:latest", "registry.io/ns/img"]


def _content(r: random.Random, tag: str) -> str:
    size = r.choice([0, 1, 1, 1, 2, 3])
    if size == 0:
        return tag  # tiny, no newline
    if size == 1:
        return "%s %d\n" % (tag, r.randrange(10 ** 6))
    if size == 2:
        return ("%s-" % tag) * 700 + "\n"      # > one 4096-byte read chunk
    return ("%s=" % tag) * 12000 + "\n"         # > 64 KiB


# ----------------------------------------------------------------------------- byte-minimal content edits
#
# File contents are `str` whose characters are BYTES (code points 0..255; written with .encode("latin-1")), so that
# specs stay JSON-able while contents may be arbitrary binary.  Each kind changes the bytes in a way a text-mode /
# decoding / normalising reader would not see; the statement speaks of files with equal CONTENTS, i.e. equal bytes.

def _b(u: str) -> str:
    """UTF-8 bytes of the unicode text `u`, as a byte-string"""
    return u.encode("utf-8").decode("latin-1")


BYTE_KINDS = [
    "lf-to-crlf", "lf-to-cr", "crlf-to-cr", "binary-cr-before-lf", "trailing-newline-added", "trailing-newline-removed",
    "bom-added", "nul-byte-inserted", "nul-byte-appended", "invalid-utf8-byte-inserted", "invalid-utf8-byte-replaced",
    "nfc-to-nfd", "trailing-space-added", "case-of-one-byte", "byte-appended-at-4KiB", "byte-appended-at-8KiB",
    "byte-appended-at-64KiB", "byte-changed-after-64KiB",
]


def byte_base(kind: str, r: random.Random) -> str:
    """a content to which `kind` applies"""
    n = r.randrange(10 ** 6)
    if kind in ("lf-to-crlf", "lf-to-cr"):
        return "a,b,%d\n1,2,3\n\nlast line%s" % (n, r.choice(["\n", ""]))
    if kind == "crlf-to-cr":
        return "a,b,%d\r\n1,2,3\r\nlast\r\n" % n
    if kind == "binary-cr-before-lf":
        return "\x89PNG\x00\x01%d\xff\xfe\n\x02\x03\x0a\x80tail" % n
    if kind == "trailing-newline-added":
        return "no newline at the end %d" % n
    if kind == "trailing-newline-removed":
        return "one newline at the end %d\n" % n
    if kind == "invalid-utf8-byte-replaced":
        return "head %d \xff tail\n" % n
    if kind == "nfc-to-nfd":
        return _b("caf\u00e9 %d \u00c5ngstr\u00f6m\n" % n)
    if kind == "case-of-one-byte":
        return "Value %d Of some Text\n" % n
    if kind == "byte-appended-at-4KiB":
        return ("%07d\n" % n) * 512
    if kind == "byte-appended-at-8KiB":
        return ("%07d\n" % n) * 1024
    if kind == "byte-appended-at-64KiB":
        return ("%07d\n" % n) * 8192
    if kind == "byte-changed-after-64KiB":
        return ("%07d\n" % n) * 8192 + "tail after the boundary\n"
    return "some text %d\nsecond line\n" % n


def byte_edit(text: str, kind: str, r: random.Random) -> Optional[str]:
    """`text` with the byte-minimal edit `kind`, None when the kind does not apply to it"""
    out = None
    if kind == "lf-to-crlf" and "\n" in text and "\r" not in text:
        out = text.replace("\n", "\r\n")
    elif kind == "lf-to-cr" and "\n" in text and "\r" not in text:
        out = text.replace("\n", "\r")
    elif kind == "crlf-to-cr" and "\r\n" in text:
        out = text.replace("\r\n", "\r")
    elif kind == "binary-cr-before-lf" and "\n" in text and "\r" not in text:
        i = text.index("\n")
        out = text[:i] + "\r" + text[i:]          # ONE 0x0D in front of the first 0x0A
    elif kind == "trailing-newline-added" and not text.endswith("\n"):
        out = text + "\n"
    elif kind == "trailing-newline-removed" and text.endswith("\n") and len(text) > 1:
        out = text[:-1]
    elif kind == "bom-added" and not text.startswith("\xef\xbb\xbf"):
        out = "\xef\xbb\xbf" + text
    elif kind == "nul-byte-inserted" and len(text) > 1:
        i = r.randrange(1, len(text))
        out = text[:i] + "\x00" + text[i:]
    elif kind == "nul-byte-appended":
        out = text + "\x00"
    elif kind == "invalid-utf8-byte-inserted":
        i = r.randrange(0, len(text) + 1)
        out = text[:i] + r.choice(["\xff", "\xc3", "\x80", "\xed\xa0\x80"]) + text[i:]
    elif kind == "invalid-utf8-byte-replaced" and "\xff" in text:
        out = text.replace("\xff", "\xfe", 1)     # both undecodable: equal after errors='replace' / 'ignore'
    elif kind == "nfc-to-nfd":
        import unicodedata
        try:
            u = text.encode("latin-1").decode("utf-8")
        except UnicodeDecodeError:
            return None
        v = unicodedata.normalize("NFD", u)
        out = _b(v) if v != u else None
    elif kind == "trailing-space-added":
        out = text[:-1] + " \n" if text.endswith("\n") else text + " "
    elif kind == "case-of-one-byte":
        idx = [i for i, ch in enumerate(text) if ch.isascii() and ch.isalpha()]
        if idx:
            i = r.choice(idx)
            out = text[:i] + text[i].swapcase() + text[i + 1:]
    elif kind == "byte-appended-at-4KiB" and len(text) == 4096:
        out = text + "x"
    elif kind == "byte-appended-at-8KiB" and len(text) == 8192:
        out = text + "x"
    elif kind == "byte-appended-at-64KiB" and len(text) == 65536:
        out = text + "x"
    elif kind == "byte-changed-after-64KiB" and len(text) > 65536:
        out = text[:65536] + ("T" if text[65536] != "T" else "U") + text[65537:]
    return out if out is not None and out != text else None



SIDE_FORMS = ["file-ref", "file-copy", "file-link", "stdout", "file-output", "dir-ref-on-cmdline",
              "dir-ref-on-cmdline-with-path-suffix", "dir-ref-off-cmdline", "dir-copy-off-cmdline",
              "dir-link-off-cmdline"]


def side_reference(prod: str, form: str):
    """(reference, argument tokens) for a consumer that references `prod` through exactly one reference of `form`."""
    if form == "file-ref":
        return {"producer": prod, "path": "out.txt", "method": "ref"}, [["ref", 0]]
    if form == "file-copy":
        return {"producer": prod, "path": "out.txt", "method": "copy"}, []
    if form == "file-link":
        return {"producer": prod, "path": "out.txt", "method": "link"}, []
    if form == "stdout":
        return {"producer": prod, "path": None, "method": "output"}, [["ref", 0]]
    if form == "file-output":
        return {"producer": prod, "path": "out.txt", "method": "output"}, [["ref", 0]]
    if form == "dir-ref-on-cmdline":
        return {"producer": prod, "path": None, "method": "ref"}, [["ref", 0]]
    if form == "dir-ref-on-cmdline-with-path-suffix":
        return {"producer": prod, "path": None, "method": "ref"}, [["ref", 0, "/out.txt"]]
    if form == "dir-ref-off-cmdline":
        return {"producer": prod, "path": None, "method": "ref"}, []
    if form == "dir-copy-off-cmdline":
        return {"producer": prod, "path": None, "method": "copy"}, []
    if form == "dir-link-off-cmdline":
        return {"producer": prod, "path": None, "method": "link"}, []
    raise ValueError(form)


def pair_forms(spec: Dict[str, Any]) -> Dict[Any, set]:
    """{(consumer, producer): {forms of the consumer's references to that producer}} with form in
    'file' (a file of the producer incl. its stdout), 'dir-on-cmdline', 'dir-off-cmdline' (bare producer reference)."""
    out: Dict[Any, set] = {}
    for c in spec["comps"]:
        on_cmdline = {a[1] for a in c["args"] if a[0] == "ref"}
        for i, rf in enumerate(c["refs"]):
            if rf["producer"] is None:
                continue
            if rf["path"] or rf["method"] == "output":
                form = "file"
            else:
                form = "dir-on-cmdline" if i in on_cmdline else "dir-off-cmdline"
            out.setdefault((c["name"], rf["producer"]), set()).add(form)
    return out


def gen_spec(r: random.Random) -> Dict[str, Any]:
    L = r.choice([1, 1, 2, 2, 3, 4])
    names = r.sample(NAMES, L + 1)
    chain, tname = names[:L], names[L]
    n_data = r.choice([1, 2, 2, 3])
    dnames = r.sample(["data/in.txt", "data/in.txt2", "data/cfg", "data/a.dat", "data/ab.dat", "data/in"], n_data)
    data = {d: _content(r, "D" + d[5:]) for d in dnames}
    if n_data >= 2 and r.random() < 0.2:
        data[dnames[1]] = data[dnames[0]]   # two files with EQUAL contents
    variables = {"gv": "gval", "gw": "gw-val"}
    comps = []
    stage = 0
    outputs = {}
    for k, pn in enumerate(chain):
        refs, args = [], [["lit", r.choice(LITS)]]
        if k > 0:
            m = r.choice(["ref", "output", "copy", "ref", "dir", "link"])
            if m == "dir":    # bare <producer>:ref named on the command line
                refs.append({"producer": chain[k - 1], "path": None, "method": "ref"})
            else:
                refs.append({"producer": chain[k - 1], "path": None if m == "output" else "out.txt", "method": m})
            if m not in ("copy", "link"):
                args.append(["ref", 0])
        if r.random() < 0.5:
            refs.append({"producer": None, "path": r.choice(dnames), "method": "ref"})
            args.append(["ref", len(refs) - 1])
        if k == 0 or r.random() < 0.7:
            # an input file that ONLY this producer consumes (removing it makes exactly this component unhashable)
            priv = "data/only-%s.dat" % "abcd"[k]
            data[priv] = _content(r, "P%d" % k)
            refs.append({"producer": None, "path": priv, "method": "ref"})
            args.append(["ref", len(refs) - 1])
        if r.random() < 0.4:
            args.append(["var", "gv"])
        comps.append({"name": pn, "stage": stage, "exe": r.choice(EXES), "args": args, "refs": refs, "image": None})
        outputs[pn] = {"out.txt": _content(r, "O" + pn), "out.stdout": _content(r, "S" + pn)}
        if r.random() < 0.6:
            stage += 1
    if stage == comps[-1]["stage"] and r.random() < 0.7:
        stage += 1
    # ---- the target
    last = chain[-1]
    refs = [{"producer": last, "path": "out.txt", "method": "ref"}]
    args: List[Any] = [["lit", r.choice(LITS)], ["ref", 0]]
    if r.random() < 0.4:
        refs.append({"producer": last, "path": None, "method": "output"})
        args.append(["ref", len(refs) - 1])
    has_dir_ref = False
    if r.random() < 0.25:
        refs.append({"producer": last, "path": None, "method": "ref"})
        args.append(["ref", len(refs) - 1])
        has_dir_ref = True
    if L >= 2 and r.random() < 0.3:
        refs.append({"producer": chain[-2], "path": "out.txt", "method": r.choice(["ref", "copy"])})
        if refs[-1]["method"] == "ref":
            args.append(["ref", len(refs) - 1])
    arg_data = r.sample(dnames, min(len(dnames), r.choice([1, 1, 2])))
    for d in arg_data:
        refs.append({"producer": None, "path": d, "method": "ref"})
        args.append(["ref", len(refs) - 1])
        if r.random() < 0.2:
            args.append(["ref", len(refs) - 1])  # the same reference twice on the command line
    rest = [d for d in dnames if d not in arg_data]
    if rest and r.random() < 0.8:
        refs.append({"producer": None, "path": rest[0], "method": r.choice(["copy", "link"])})
    for _ in range(r.choice([0, 1, 2])):
        args.append(["lit", r.choice(LITS)])
    if r.random() < 0.5:
        args.append(["var", "gv"])
    head, tail = args[:1], args[1:]
    r.shuffle(tail)
    image = None
    if r.random() < 0.4:
        image = {"backend": r.choice(["lsf", "kubernetes"]), "image": r.choice(IMAGES)}
    comps.append({"name": tname, "stage": stage, "exe": r.choice(EXES), "args": head + tail, "refs": refs,
                  "image": image})
    outputs[tname] = {"out.txt": "OT", "out.stdout": "ST"}
    # ---- side consumers: leaves that reference ONE chain member through ONE reference of a given form, so that every
    #      reference form is exercised at every distance from an unhashable / changed upstream component
    sides = []
    free = [n for n in NAMES if n not in names]
    for sn in r.sample(free, r.choice([1, 2, 2])):
        prod = r.choice(chain)
        form = r.choice(SIDE_FORMS)
        rf, sargs = side_reference(prod, form)
        comps.append({"name": sn, "stage": stage, "exe": r.choice(EXES), "args": [["lit", r.choice(LITS)]] + sargs,
                      "refs": [rf], "image": None, "side_form": form})
        outputs[sn] = {"out.txt": "side", "out.stdout": "side"}
        sides.append(sn)
    # ---- executables spelled through a %(variable)s (drawn LAST so that everything above is unchanged): what runs,
    #      and therefore what the statement speaks about, is the text after the variable got its value (= c["exe"])
    for k, c in enumerate(comps):
        if r.random() < (0.4 if c["name"] == tname else 0.25):
            c["exe_via"] = r.choice(["global", "component"])
            c["exe_var"] = "exe_%d" % k
    spec = {"comps": comps, "target": tname, "chain": chain, "sides": sides, "variables": variables, "data": data,
            "outputs": outputs, "where": "A", "mtime": 1.5e9, "has_dir_ref": has_dir_ref}
    spec["klass"] = "L%d:dir%d:img%s:argdata%d" % (
        L, int(has_dir_ref), (image or {}).get("backend", "-"), len(arg_data))
    return spec


# ----------------------------------------------------------------------------- rendering

def ref_string(spec: Dict[str, Any], comp: Dict[str, Any], ref: Dict[str, Any]) -> str:
    if ref["producer"] is None:
        return "%s:%s" % (ref["path"], ref["method"])
    p = next(c for c in spec["comps"] if c["name"] == ref["producer"])
    base = "stage%d.%s" % (p["stage"], p["name"])
    if ref["path"]:
        base += "/" + ref["path"]
    return "%s:%s" % (base, ref["method"])


def render(spec: Dict[str, Any]) -> Dict[str, Any]:
    doc: Dict[str, Any] = {"variables": {"default": {"global": dict(spec["variables"])}}, "components": []}
    for c in spec["comps"]:
        rs = [ref_string(spec, c, r_) for r_ in c["refs"]]
        toks = []
        for t in c["args"]:
            if t[0] == "lit":
                toks.append(t[1])
            elif t[0] == "ref":
                toks.append(rs[t[1]] + (t[2] if len(t) > 2 else ""))
            else:
                toks.append("%%(%s)s" % t[1])
        d: Dict[str, Any] = {"name": c["name"], "stage": c["stage"],
                             "command": {"executable": c["exe"], "arguments": " ".join(toks)}}
        if c.get("exe_via"):
            d["command"]["executable"] = "%%(%s)s" % c["exe_var"]
            if c["exe_via"] == "global":
                doc["variables"]["default"]["global"][c["exe_var"]] = c["exe"]
            else:
                d["variables"] = {c["exe_var"]: c["exe"]}
        uniq = []
        for x in rs:
            if x not in uniq:
                uniq.append(x)
        if uniq:
            d["references"] = uniq
        if c.get("image"):
            b = c["image"]["backend"]
            d["resourceManager"] = {"config": {"backend": b},
                                    b: {("dockerImage" if b == "lsf" else "image"): c["image"]["image"]}}
        doc["components"].append(d)
    return doc


# ----------------------------------------------------------------------------- edits

def _target(spec):
    return next(c for c in spec["comps"] if c["name"] == spec["target"])


def _rename(spec, old, new):
    for c in spec["comps"]:
        if c["name"] == old:
            c["name"] = new
        for r_ in c["refs"]:
            if r_["producer"] == old:
                r_["producer"] = new
    spec["outputs"][new] = spec["outputs"].pop(old)
    if spec["target"] == old:
        spec["target"] = new
    spec["chain"] = [new if x == old else x for x in spec["chain"]]


def _free_name(spec, r, pool):
    used = {c["name"] for c in spec["comps"]}
    cands = [n for n in pool if n not in used]
    return r.choice(cands)


def _edit_content(text: str, r: random.Random) -> Tuple[str, str]:
    """(edited content, kind of edit): the four plain edits or one of the byte-minimal BYTE_KINDS that applies"""
    plain = ["append", "last", "first", "drop"] if text else ["append"]
    cands = plain + [k for k in BYTE_KINDS if not k.startswith("byte-") and k not in ("nfc-to-nfd", "crlf-to-cr",
                                                                                     "invalid-utf8-byte-replaced")]
    cands += ["lf-to-crlf", "lf-to-cr"]          # line terminators twice as likely
    for _ in range(8):
        how = r.choice(cands)
        if how == "append":
            return text + "x", how
        if how == "last":
            return text[:-1] + ("y" if text[-1] != "y" else "z"), how
        if how == "first":
            return ("Q" if text[0] != "Q" else "R") + text[1:], how
        if how == "drop":
            return (text[:-1] if len(text) > 1 else text + "x"), how
        new = byte_edit(text, how, r)
        if new is not None:
            return new, how
    return text + "x", "append"


EQUAL, DIFFER, NONE, NOCLAIM = "equal", "differ", "none", None


def edits(spec: Dict[str, Any], r: random.Random) -> List[Dict[str, Any]]:
    """Every applicable single-aspect edit: {'id', 'spec' (edited copy), 'strong': relation the statement demands
    for the target's strong hash, 'fuzzy': relation demanded for its fuzzy hash, 'chain_rule': judge 'producer fuzzy
    changed => consumer fuzzy changed' along the chain, 'detail'}."""
    out = []

    def add(eid, s, strong, fuzzy, detail, chain_rule=False, **kw):
        d = {"id": eid, "spec": s, "strong": strong, "fuzzy": fuzzy, "detail": detail, "chain_rule": chain_rule}
        d.update(kw)
        out.append(d)

    t = _target(spec)
    # ---------------- named hash-relevant by the statement -> strong hashes must differ
    s = copy.deepcopy(spec)
    tt = _target(s)
    tt["exe"] = r.choice([e for e in EXES if e != tt["exe"]])
    add("R1-executable", s, DIFFER, NOCLAIM, "%s -> %s%s" % (t["exe"], tt["exe"], (
        " (value of the %s variable the executable is spelled through)" % t["exe_via"]) if t.get("exe_via") else ""))

    s = copy.deepcopy(spec)
    tt = _target(s)
    li = [i for i, a in enumerate(tt["args"]) if a[0] == "lit"]
    i = r.choice(li)
    how = r.choice(["change", "change", "insert", "delete"]) if len(li) > 1 else r.choice(["change", "insert"])
    if how == "change":
        tt["args"][i] = ["lit", tt["args"][i][1] + r.choice(["x", "1", "-"])]
    elif how == "insert":
        tt["args"].insert(i, ["lit", r.choice(LITS)])
    else:
        del tt["args"][i]
    add("R2-argument-literal", s, DIFFER, NOCLAIM, how)

    drefs = [r_ for r_ in t["refs"] if r_["producer"] is None]
    if drefs:
        s = copy.deepcopy(spec)
        d = r.choice(drefs)["path"]
        s["data"][d], how = _edit_content(s["data"][d], r)
        add("R3-input-file-content", s, DIFFER, NOCLAIM, "%s (%s)" % (d, how), content_edit=how)
    in_args = [t["refs"][a[1]] for a in t["args"] if a[0] == "ref"]
    dargs = []
    for r_ in in_args:
        if r_["producer"] is None and r_["method"] == "ref" and r_["path"] not in dargs:
            dargs.append(r_["path"])
    if len(dargs) >= 2 and spec["data"][dargs[0]] != spec["data"][dargs[1]]:
        s = copy.deepcopy(spec)
        s["data"][dargs[0]], s["data"][dargs[1]] = s["data"][dargs[1]], s["data"][dargs[0]]
        add("R3b-swap-contents-of-two-files-named-on-the-command-line", s, DIFFER, NOCLAIM, dargs[:2])
    noarg = [i for i, r_ in enumerate(t["refs"]) if r_["producer"] is None and r_["method"] in ("copy", "link")]
    if noarg:
        s = copy.deepcopy(spec)
        rr = _target(s)["refs"][noarg[0]]
        rr["method"] = "link" if rr["method"] == "copy" else "copy"
        add("R4-reference-method", s, DIFFER, NOCLAIM, rr["path"])
    s = copy.deepcopy(spec)
    tt = _target(s)
    if tt["image"]:
        tt["image"]["image"] = r.choice([x for x in IMAGES if x != tt["image"]["image"]])
        add("R5-container-image-changed", s, DIFFER, NOCLAIM, tt["image"]["image"])
    else:
        tt["image"] = {"backend": r.choice(["lsf", "kubernetes"]), "image": r.choice(IMAGES)}
        add("R5-container-image-added", s, DIFFER, NOCLAIM, tt["image"]["image"])
    # content of the file the DIRECT producer wrote and the target names: strong differs, fuzzy ignores it
    s = copy.deepcopy(spec)
    last = spec["chain"][-1]
    s["outputs"][last]["out.txt"], how = _edit_content(s["outputs"][last]["out.txt"], r)
    add("R6-content-produced-by-direct-producer", s, DIFFER, EQUAL, "%s (%s)" % (last, how), content_edit=how)
    # ---------------- fuzzy clause 2 / strong 'exactly when': an upstream DEFINITION changes, contents do not
    k = r.randrange(len(spec["chain"]))
    s = copy.deepcopy(spec)
    pc = next(c for c in s["comps"] if c["name"] == spec["chain"][k])
    if r.random() < 0.5:
        pc["exe"] = r.choice([e for e in EXES if e != pc["exe"]])
    else:
        pc["args"][0] = ["lit", pc["args"][0][1] + "z"]
    add("U1-upstream-definition-changes-contents-equal", s,
        NOCLAIM if spec["has_dir_ref"] else EQUAL, NOCLAIM, "producer #%d of %d" % (k + 1, len(spec["chain"])),
        chain_rule=True, upstream=spec["chain"][k])
    if len(spec["chain"]) >= 2:
        # content written by an INDIRECT producer (consumed by the next producer, not by the target)
        k = r.randrange(len(spec["chain"]) - 1)
        s = copy.deepcopy(spec)
        pn = spec["chain"][k]
        consumer = next(c for c in spec["comps"] if c["name"] == spec["chain"][k + 1])
        uses_stdout = any(r_["producer"] == pn and r_["method"] == "output" for r_ in consumer["refs"])
        fn = "out.stdout" if uses_stdout else "out.txt"
        s["outputs"][pn][fn], how = _edit_content(s["outputs"][pn][fn], r)
        touches_target = any(r_["producer"] == pn for r_ in t["refs"])
        add("U2-content-produced-by-indirect-producer", s,
            NOCLAIM if (spec["has_dir_ref"] or touches_target) else EQUAL, EQUAL, "%s/%s (%s)" % (pn, fn, how),
            content_edit=how)
    # ---------------- named hash-irrelevant by the statement -> equal
    s = copy.deepcopy(spec)
    s["where"] = r.choice(["B", "some where/else", "x" * 60, "A/A/A"])
    add("I1-instance-location", s, EQUAL, EQUAL, s["where"])
    s = copy.deepcopy(spec)
    new = _free_name(s, r, NAMES)
    _rename(s, spec["target"], new)
    add("I2-target-name", s, EQUAL, EQUAL, "%s -> %s" % (spec["target"], new))
    s = copy.deepcopy(spec)
    ren = []
    for pn in list(spec["chain"]):
        new = _free_name(s, r, NAMES)
        _rename(s, pn, new)
        ren.append("%s -> %s" % (pn, new))
    add("I2-producer-names", s, EQUAL, EQUAL, ren)
    s = copy.deepcopy(spec)
    new = _free_name(s, r, DIGIT_NAMES)
    which = r.choice(["target", "producer"])
    old = spec["target"] if which == "target" else spec["chain"][-1]
    _rename(s, old, new)
    add("I2-name-ending-in-digit", s, EQUAL, EQUAL, "%s -> %s" % (old, new), renamed_to=new, renamed_from=old, renamed=which)
    s = copy.deepcopy(spec)
    shift = r.choice([1, 1, 2])
    for c in s["comps"]:
        c["stage"] += shift
    filler = _free_name(s, r, NAMES)
    for st in range(shift):
        s["comps"].insert(0, {"name": filler, "stage": st, "exe": "true", "args": [["lit", "unrelated"]], "refs": [],
                              "image": None})
    s["outputs"][filler] = {"out.txt": "f", "out.stdout": "f"}
    add("I3-stage-indices", s, EQUAL, EQUAL, "+%d" % shift)
    s = copy.deepcopy(spec)
    s["mtime"] = r.choice([1.0e9, 1.7e9, 4.0e8])
    add("I4-time", s, EQUAL, EQUAL, s["mtime"])
    # twin: same definition under another name in another stage of the SAME experiment
    s = copy.deepcopy(spec)
    tw = copy.deepcopy(_target(s))
    tw["name"] = _free_name(s, r, NAMES)
    tw["stage"] = tw["stage"] + r.choice([0, 1])
    s["comps"].append(tw)
    s["outputs"][tw["name"]] = {"out.txt": "tw", "out.stdout": "tw"}
    add("T1-twin-in-same-experiment", s, EQUAL, EQUAL, tw["name"], twin=tw["name"])
    # identity: the same definition materialised once more (elsewhere, later)
    add("B0-identity", copy.deepcopy(spec), EQUAL, EQUAL, "same spec")
    # ---------------- an UPSTREAM component cannot be hashed, every file read further down still exists
    privs = [(k, rf["path"]) for k, pn in enumerate(spec["chain"])
             for rf in next(c for c in spec["comps"] if c["name"] == pn)["refs"]
             if rf["producer"] is None and rf["path"].startswith("data/only-")]
    for k, path in r.sample(privs, min(len(privs), 2)):
        s = copy.deepcopy(spec)
        s["missing_data"] = [path]
        add("H1-upstream-input-file-missing", s, NOCLAIM, NONE,
            "%s of producer %s, %d link(s) above the target" % (path, spec["chain"][k], len(spec["chain"]) - k),
            h_edit=True, unhashable_root=spec["chain"][k], distance=len(spec["chain"]) - k)
    cands = []
    for k in range(1, len(spec["chain"])):
        up, me = spec["chain"][k - 1], spec["chain"][k]
        mine = [rf for rf in next(c for c in spec["comps"] if c["name"] == me)["refs"] if rf["producer"] == up]
        if not mine or not (mine[0]["path"] or mine[0]["method"] == "output"):
            continue    # directory reference: no single file to take away
        fn = "out.stdout" if (mine[0]["method"] == "output" and not mine[0]["path"]) else "out.txt"
        others = False
        for c in spec["comps"]:
            if c["name"] == me:
                continue
            for rf in c["refs"]:
                if rf["producer"] != up:
                    continue
                ofn = "out.stdout" if (rf["method"] == "output" and not rf["path"]) else ("out.txt" if rf["path"] else None)
                if ofn == fn:
                    others = True
        if not others:
            cands.append((k, up, me, fn))
    if cands:
        k, up, me, fn = r.choice(cands)
        s = copy.deepcopy(spec)
        s["outputs"][up].pop(fn)
        add("H2-upstream-producer-file-missing", s, NOCLAIM, NONE,
            "%s/%s read only by %s, %d link(s) above the target" % (up, fn, me, len(spec["chain"]) - k),
            h_edit=True, unhashable_root=me, distance=len(spec["chain"]) - k)
    # ---------------- not named by the statement: informational only
    s = copy.deepcopy(spec)
    s["variables"]["renamed-var"] = s["variables"]["gv"]
    for c in s["comps"]:
        c["args"] = [["var", "renamed-var"] if a == ["var", "gv"] else a for a in c["args"]]
    add("X1-variable-name-same-text", s, NOCLAIM, NOCLAIM, "gv -> renamed-var")
    if len(t["refs"]) >= 2:
        s = copy.deepcopy(spec)
        tt = _target(s)
        perm = list(range(len(tt["refs"])))
        r.shuffle(perm)          # new position j holds old reference perm[j]
        inv = {old: j for j, old in enumerate(perm)}
        tt["refs"] = [tt["refs"][o] for o in perm]
        tt["args"] = [["ref", inv[a[1]]] + a[2:] if a[0] == "ref" else a for a in tt["args"]]
        # same executable, same arguments after replacement, same files through the same methods => same hash
        add("X2-order-of-references-field", s, EQUAL, EQUAL, perm)
    # ---------------- missing input -> no strong hash
    if drefs:
        s = copy.deepcopy(spec)
        d = r.choice(drefs)["path"]
        s["missing_data"] = [d]
        add("N1-missing-input-file", s, NONE, NOCLAIM, d)
    s = copy.deepcopy(spec)
    s["outputs"][last].pop("out.txt")
    add("N2-missing-producer-output", s, NONE, NOCLAIM, last + "/out.txt")
    # ---------------- (drawn last: the edits above are the same as before this one existed)
    # the same executable spelled the other way (literal <-> through a variable): the same executable runs
    s = copy.deepcopy(spec)
    tt = _target(s)
    if tt.get("exe_via"):
        was = tt.pop("exe_via")
        add("X3-executable-spelling", s, EQUAL, NOCLAIM, "through a %s variable -> literal" % was)
    else:
        tt["exe_via"] = r.choice(["global", "component"])
        tt["exe_var"] = "exe_spelled"
        add("X3-executable-spelling", s, EQUAL, NOCLAIM, "literal -> through a %s variable" % tt["exe_via"])
    return out
