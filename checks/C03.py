"""C03 - Replication expands a workflow without changing its dataflow.

Workload: abstract acyclic workflows (collision-prone component names, 1-3 stages, replica counts
given literally / as string / through a global, stage or component variable, aggregators, per-edge
file path + method, relative or absolute spelling, reference position inside an argument string).
Boundary: WorkflowGraph.graphFromFlowIR(doc, {}, primitive=False) of the REAL repository.
Oracle: the expected expansion computed from the abstract DAG alone (checks/_c03_model.py).

Three slices: 'clean' (names overlap textually but the known textual-rewrite mechanism cannot
corrupt anything - every discrepancy there is a VIOLATION), 'hazard' (overlap pairs planted on
purpose; a discrepancy that is exactly the known mechanism is a KNOWN-FINDING), 'mixed' (chance).
"""
import copy
import json
import sys

import warnings

import vlib

warnings.simplefilter("ignore", SyntaxWarning)   # the repository's own regex literals
vlib.bootstrap()

from checks import _c03_model as M  # noqa: E402

PROP = "C03"
KEY_OVERLAP = "C03:textual-rewrite-overlap"
KEY_MIXED = "C03:aggregate-mixed-spellings"


# --------------------------------------------------------------------------- observation

def observe(doc):
    """Run the real loader + replication + graph construction; return what is visible at the boundary."""
    import experiment.model.graph as G
    try:
        g = G.WorkflowGraph.graphFromFlowIR(copy.deepcopy(doc), {}, primitive=False)
    except Exception as e:  # the loader's verdict is an observation, not a harness failure
        return {"exception": type(e).__name__, "msg": str(e)[:1500]}
    conc = g.configuration.get_flowir_concrete()
    nodes = {}
    for nid, data in g.graph.nodes(data=True):
        spec = data["componentSpecification"]
        ident = spec.identification
        conf = conc.get_component_configuration((ident.stageIndex, ident.componentName), raw=True)
        nodes[nid] = {
            "stage": ident.stageIndex,
            "refs": list(spec.rawDataReferences),
            "args": conf.get("command", {}).get("arguments"),
            "replica": conf.get("variables", {}).get("replica"),
            "has_replica": "replica" in conf.get("variables", {}),
            "replicate": conf.get("workflowAttributes", {}).get("replicate"),
        }
    return {"nodes": nodes, "edges": sorted([a, b] for a, b in g.graph.edges())}


def compare(model, exp, obs):
    """List of (node-or-None, clause, detail) discrepancies between observation and expectation."""
    if "exception" in obs:
        return [(None, "valid-workflow-rejected", "%s: %s" % (obs["exception"], obs["msg"][:300]))]
    mism = []
    on = obs["nodes"]
    for nid in sorted(set(exp) - set(on)):
        mism.append((nid, "node-missing", ""))
    for nid in sorted(set(on) - set(exp)):
        mism.append((nid, "node-extra", ""))
    for nid, e in exp.items():
        o = on.get(nid)
        if o is None:
            continue
        st = model["comps"][e["comp"]]["stage"]
        try:
            got = [M.parse_ref(s, st) for s in o["refs"]]
        except Exception as x:  # pragma: no cover
            got = ["unparsable %r" % (x,)]
        want = [tuple(r) for r in e["refs"]]
        if got != want:
            mism.append((nid, "references", "observed %r expected %r" % (o["refs"], want)))
        for (p, _f, _m) in got if got and isinstance(got[0], tuple) else []:
            if p not in on:
                mism.append((nid, "dangling-reference", p))
        if not isinstance(o["args"], str) or not M.match_args(o["args"], e["args"]):
            mism.append((nid, "arguments", "observed %r" % (o["args"],)))
        if e["replica"] is not None:
            if str(o["replica"]) != str(e["replica"]):
                mism.append((nid, "replica-index", "observed %r expected %r" % (o["replica"], e["replica"])))
            try:
                ok = int(o["replicate"]) == e["replicate"]
            except Exception:
                ok = False
            if not ok:
                mism.append((nid, "replica-total", "observed %r expected %r" % (o["replicate"], e["replicate"])))
        else:
            if o["has_replica"]:
                mism.append((nid, "single-node-has-replica-index", repr(o["replica"])))
        if e["outside"] and o["args"] != M.args_string(model, e["comp"]):
            mism.append((nid, "outside-region-arguments-changed", "observed %r" % (o["args"],)))
    ee = M.expected_edges(model, exp)
    oe = {tuple(x) for x in obs["edges"]}
    for a, b in sorted(ee - oe):
        mism.append((b, "edge-missing", "%s->%s" % (a, b)))
    for a, b in sorted(oe - ee):
        mism.append((b, "edge-extra", "%s->%s" % (a, b)))
    return mism


def classify(model, exp, obs, mism):
    """Structural classifier of the known finding: some rewritten consumer holds a rewrite key that
    textually occurs inside another reference's spelling (M.overlaps), sequential textual replacement
    would corrupt it (M.hazards), the REAL FlowIR.apply_replicate() output of exactly those consumers
    is byte-for-byte what sequential replacement yields, every other component is expanded correctly,
    and what the graph boundary shows is confined to those consumers.  Anything else -> None."""
    hz = {ci: M.hazards(model, ci, exp) for ci in range(len(model["comps"]))}
    hz = {ci: h for ci, h in hz.items() if h}
    if not hz:
        return None
    from experiment.model.frontends.flowir import FlowIR
    try:
        doc = copy.deepcopy(M.to_flowir(model))
        pvars = doc.get("variables", {}).get("default", {})
        rep = FlowIR.apply_replicate(doc["components"], pvars, False, [], [])
        comps = {"stage%d.%s" % (c.get("stage", 0), c["name"]): c for c in rep}
    except Exception:
        return None
    if set(comps) != set(exp):
        return None
    corrupted = set()
    for nid, e in exp.items():
        c = comps[nid]
        st = model["comps"][e["comp"]]["stage"]
        args = c.get("command", {}).get("arguments")
        refs = list(c.get("references", []))
        if M.text_ok(e, st, args, refs):
            continue
        if e["comp"] not in hz:
            return None
        a, d = M.simulate_textual(model, e["comp"], e["replica"])
        if args == a and refs == d:
            corrupted.add(nid)
            continue
        return None
    if not corrupted:
        return None
    if "exception" in obs:
        if obs["exception"] != "ExperimentInvalidConfigurationError" or "nknown reference" not in obs["msg"]:
            return None
    else:
        for (nid, clause, _d) in mism:
            if nid not in corrupted:
                return None
    kinds = {h["kind"] for nid in corrupted for h in hz[exp[nid]["comp"]]}
    if kinds <= {"aggregate-mixed-spellings", "own-absolute-contains-stage-less"}:
        return KEY_MIXED
    return KEY_OVERLAP


def class_key(model, exp, hz):
    cnt = M.counts(model)
    comps = model["comps"]
    ncopy = sum(1 for i in range(len(comps)) if M.is_copy(model, cnt, i))
    nagg = sum(1 for i, c in enumerate(comps) if c["agg"] and any(M.is_copy(model, cnt, r["p"]) for r in c["refs"]))
    forms = sorted({c["rep"]["form"] for c in comps if c["rep"]})
    ns = sorted({"1" if n == 1 else ("2-9" if n < 10 else ">=10") for n in cnt if n is not None})
    spell = sorted({t[2] for c in comps for t in c["args"] if t[0] == "ref"})
    meth = sorted({"arg" if r["method"] in ("ref", "output") else "decl-only" for c in comps for r in c["refs"]})
    mixed_prod = any(M.is_copy(model, cnt, i) and {M.is_copy(model, cnt, r["p"]) for r in c["refs"]} == {True, False}
                     for i, c in enumerate(comps))
    return json.dumps([len({c["stage"] for c in comps}), ns, min(ncopy, 2), min(nagg, 1),
                       any(f.endswith("var") for f in forms),
                       any(sh["form"] == "gvar" for sh in model.get("shadowed", [])), spell, mixed_prod,
                       M.overlap_kinds(model),
                       sorted({h["kind"] for h in hz})])


def judge(model, w, mode):
    exp = M.expected(model)
    doc = M.to_flowir(model)
    obs = observe(doc)
    mism = compare(model, exp, obs)
    cnt = M.counts(model)
    hz = [h for ci in range(len(model["comps"])) for h in M.hazards(model, ci, exp)]
    ov = any(M.overlaps(model, ci) for ci in range(len(model["comps"])))
    w.evaluated()
    w.count("docs_" + mode)
    w.count("docs_with_hazard" if hz else "docs_without_hazard")
    if not hz and M.overlap_kinds(model):
        w.count("docs_without_hazard_with_overlapping_names")
    if ov and not hz:
        w.count("docs_overlap_survivable_by_longest_first")
    if "nodes" in obs:
        w.count("graphs_built")
        w.count("nodes_checked", len(exp))
        w.count("copies_checked", sum(1 for e in exp.values() if e["replica"] is not None))
        w.count("edges_checked", len(M.expected_edges(model, exp)))
        w.count("outside_nodes_checked", sum(1 for e in exp.values() if e["outside"]))
        w.count("aggregator_expansions_checked", sum(
            1 for e in exp.values() if e["replica"] is None and any(len(t[1]) > 1 for t in e["args"] if t[0] == "ref")))
        if any(n is not None and n >= 10 for n in cnt):
            w.count("docs_with_10_or_more_replicas")
        if any(c["rep"] and c["rep"]["form"] in ("gvar", "svar", "cvar") for c in model["comps"]):
            w.count("docs_replicas_via_variable")
        for sh in model.get("shadowed", []):
            w.count("replica_variables_shadowed_in_other_scopes")
            if sh["form"] == "gvar":
                w.count("global_replica_variables_redefined_in_other_stage_or_component")
    w.distinct(class_key(model, exp, hz))
    if not mism:
        w.count("docs_conforming")
        w.sample({"mode": mode, "flowir": doc, "expected_nodes": sorted(exp), "hazards": hz[:3]})
        return None
    key = classify(model, exp, obs, mism)
    what = "%s: %s" % (mism[0][1], ("%s %s" % (mism[0][0] or "", mism[0][2]))[:240])
    wit = {"mode": mode, "model": model, "flowir": doc, "hazards": hz[:6],
           "mismatches": [list(m) for m in mism[:12]],
           "observed": obs if "exception" in obs else {k: obs["nodes"][k] for k in sorted(obs["nodes"])[:40]}}
    w.count("docs_discrepant")
    w.violation(what, wit, finding_key=key)
    return key


# --------------------------------------------------------------------------- worker / main

def run_job(job, w):
    w.max_samples = 1
    for idx in range(job["start"], job["start"] + job["count"]):
        rng = vlib.rng(PROP, job["mode"], job["big"], idx)
        model = M.gen_model(rng, job["mode"], big=job["big"])
        judge(model, w, job["mode"])


if "--worker" in sys.argv:
    vlib.worker_main(run_job)


def vlib_scale():
    """VERIF_SCALE (default 1): shrink/grow plan AND floors proportionally (recorded in the evidence); used to
    validate the thorough tier on an over-subscribed machine."""
    import os
    try:
        return max(0.01, float(os.environ.get("VERIF_SCALE", "1")))
    except ValueError:
        return 1.0


def main():
    c = vlib.Check(
        PROP, "exploration",
        rule="distinct = structural class of the document: (#stages, replica-count buckets {1,2-9,>=10}, #replicated "
             "components (capped 2), has expanding aggregator, replica count via variable, a globally defined replica variable redefined in foreign scopes, spellings used, "
             "a copy consuming replicated+single producers, "
             "textual relations between names, hazard kinds)",
        assumptions=[
            "component names follow the DSL name alphabet [A-Za-z0-9._-], do not end in a digit or '.', do not start "
            "with 'stage<digits>' and are not reserved folder names (name+index scheme is ambiguous otherwise)",
            "references only point to components of the same or an earlier stage; stage-less spelling only for "
            "same-stage producers; a reference token in an argument string is delimited by characters outside "
            "[A-Za-z0-9._/-] (otherwise it is a different reference for FlowIR's own tokenizer)",
            "an aggregating component does not itself request replicas; replica count 0 is not generated; all "
            "non-aggregated producers of one component carry the same replica count (otherwise the workflow is invalid)",
            "argument strings of aggregators use plain reference tokens (the 'ref:method/path' suffix convention is "
            "outside the property statement and not generated)",
            "only :ref and :output references appear inside argument strings; copy/link/copyout/extract only in "
            "`references`",
        ])
    rp = vlib.load_replay(sys.argv)
    if rp is not None:
        w = vlib.Worker()
        key = judge(rp["witness"]["model"], w, rp["witness"].get("mode", "replay"))
        c.merge_worker(w.summary())
        print("replay: %s" % ("still discrepant (key=%s)" % key if w.violations else "no longer discrepant"))
        sys.exit(c.finish())

    thorough = vlib.tier() == "thorough"
    plan = [("clean", False, 900), ("hazard", False, 400), ("mixed", False, 300)] if not thorough else \
        [("clean", False, 14000), ("clean", True, 10000), ("hazard", False, 6000), ("hazard", True, 4000),
         ("mixed", False, 3000), ("mixed", True, 3000)]
    scale = vlib_scale()
    if scale != 1.0:
        plan = [(m, b, max(50, int(n * scale))) for m, b, n in plan]
        c.extra["plan_scale"] = scale
    jobs = []
    per = 125 if not thorough else 180      # < 200: a worker never has to drop a violation record (vlib.Worker cap)
    for mode, big, n in plan:
        for s in range(0, n, per):
            jobs.append({"mode": mode, "big": big, "start": s, "count": min(per, n - s)})
    vlib.fanout("checks.C03", jobs, c, timeout=3000 if thorough else 600)
    if c.counters.get("violations_dropped_over_200"):
        c.note_inconclusive("a worker dropped violation records (cap 200): an unclassified one may be among them")
    total = sum(n for _, _, n in plan)
    c.floor("evaluations", total)
    c.floor("graphs_built", int(total * 0.5))
    for name, q, t in [("docs_without_hazard_with_overlapping_names", 300, 8000),
                       ("docs_overlap_survivable_by_longest_first", 40, 800),
                       ("copies_checked", 3000, 60000),
                       ("aggregator_expansions_checked", 150, 3000),
                       ("outside_nodes_checked", 500, 10000),
                       ("docs_with_10_or_more_replicas", 100, 2000),
                       ("docs_replicas_via_variable", 200, 4000),
                       ("replica_variables_shadowed_in_other_scopes", 250, 6000),
                       ("global_replica_variables_redefined_in_other_stage_or_component", 100, 2500)]:
        c.floor(name, int((t if thorough else q) * min(1.0, scale)))
    sys.exit(c.finish())


if __name__ == "__main__":
    main()
