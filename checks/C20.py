"""C20 - Reported progress is a proper weighted fraction.

Three observation points, all on the REAL code:
  (n) the normaliser:   FlowIRConcrete(doc).get_status()[i]['stage-weight']      (FlowIR.inject_default_values)
  (m) the monitor:      StatusMonitor(experiment).stageWeights                    (real Experiment built on disk)
  (p) the formula:      StatusMonitor.run(fake_controller) -> CheckStatus (first action, then the last action
                        after kill()) -> Status.totalProgress()
plus a legacy slice:    Dosini.parse_status(...) of status sections with and without `stage-weight`
                        -> FlowIRConcrete (the legacy way of saying "no weight given").

Oracle (reference written from the statement):
  weights are real numbers, >= 0, |sum - 1| <= 1e-9; when the package gives a weight for EVERY stage, all
  >= 0 and |sum - 1| <= 1e-9, the weights used are exactly the given ones, stage by stage;
  (m) additionally agrees with (n) index by index;
  for per-stage progress p_i in [0,1]: -1e-9 <= total <= 1+1e-9; total = 1 (+-1e-9) once every stage has
  completed; when the given weights are valid, total = sum_active p_i*g_i + sum_finished g_i.
"""
import math
import os
import shutil
import sys
import threading
import time

import vlib
from checks._c09c19c20_util import quiet, finish_replay

quiet()
vlib.bootstrap()

PROP = "C20"
TOL = 1e-9
K_VALID_REJECTED = "C20:valid-weights-replaced-because-int-truncation-sum-is-not-1000"
K_NEG_ACCEPTED = "C20:negative-weight-accepted-because-int-truncation-sum-is-1000"
K_OFFSUM_ACCEPTED = "C20:weights-not-summing-to-one-accepted-because-int-truncation-sum-is-1000"
K_LEGACY_NONE = "C20:legacy-status-section-without-stage-weight-loads-None-and-crashes"


# ----------------------------------------------------------------------------- generator

def split_int(r, total, n, allow_zero=True):
    """n non-negative integers summing to total."""
    if n == 1:
        return [total]
    if allow_zero:
        cuts = sorted(r.randint(0, total) for _ in range(n - 1))
    else:
        cuts = sorted(r.sample(range(1, total), n - 1)) if total > n else sorted(r.randint(0, total) for _ in range(n - 1))
    return [b - a for a, b in zip([0] + cuts, cuts + [total])]


def gen_case(r, n=None):
    n = n or r.choice([1, 2, 2, 3, 3, 3, 4, 4, 5, 6, 7, 8, 10, 12, 16, 25, 40])
    kind = r.choice(['valid-1', 'valid-2', 'valid-3', 'valid-4', 'valid-5', 'valid-6', 'valid-float', 'valid-equal',
                     'valid-zeros', 'offsum-small', 'offsum-large', 'near-miss', 'missing-some', 'missing-all',
                     'no-section', 'all-zero', 'negative-sum1', 'negative-other', 'huge', 'malformed', 'nonfinite'])
    ws = None
    if kind.startswith('valid-') and kind[6:].isdigit():
        k = int(kind[6:])
        parts = split_int(r, 10 ** k, n, allow_zero=r.random() < 0.3)
        ws = [p / float(10 ** k) for p in parts]
    elif kind == 'valid-float':
        xs = [r.random() + 1e-3 for _ in range(n)]
        s = math.fsum(xs)
        ws = [x / s for x in xs]
    elif kind == 'valid-equal':
        ws = [1.0 / n] * n
    elif kind == 'valid-zeros':
        k = r.choice([1, 2, 3])
        m = r.randint(1, n)
        parts = split_int(r, 10 ** k, m, allow_zero=False) + [0] * (n - m)
        r.shuffle(parts)
        ws = [p / float(10 ** k) for p in parts]
    elif kind == 'offsum-small':
        k = r.choice([2, 3, 4])
        parts = split_int(r, 10 ** k, n)
        ws = [p / float(10 ** k) for p in parts]
        ws[r.randrange(n)] += r.choice([1e-4, -1e-4, 1e-3, 2e-3, 1e-6, 5e-4])
        ws = [abs(x) for x in ws]
    elif kind == 'offsum-large':
        ws = [round(r.random(), r.choice([1, 2, 3])) for _ in range(n)]
        if abs(math.fsum(ws) - 1) <= TOL:
            ws[0] += 0.5
    elif kind == 'near-miss':
        # every weight has a sub-milli excess: truncation hides it
        parts = split_int(r, 1000, n)
        eps = r.choice([0.0004, 0.0009, 0.0005])
        ws = [p / 1000.0 + eps for p in parts]
    elif kind in ('missing-some', 'missing-all', 'no-section', 'all-zero'):
        parts = split_int(r, 100, n)
        ws = [p / 100.0 for p in parts]
    elif kind == 'negative-sum1':
        parts = split_int(r, 1000, n)
        ws = [p / 1000.0 for p in parts]
        if n >= 2:
            i, j = r.sample(range(n), 2)
            d = r.choice([0.5, 0.25, 0.001, 1.0, 0.125])
            ws[i] = ws[i] + ws[j] + d
            ws[j] = -d
        else:
            ws = [-1.0]
    elif kind == 'negative-other':
        ws = [round(r.uniform(-1, 1), 2) for _ in range(n)]
        if all(x >= 0 for x in ws):
            ws[0] = -0.3
    elif kind == 'huge':
        ws = [float(r.choice([1, 10, 1000, 1e6, 3])) for _ in range(n)]
    elif kind == 'nonfinite':
        # YAML '.nan' / '.inf' are floats and pass the schema; every comparison with NaN is false
        ws = [p / 100.0 for p in split_int(r, 100, n)]
        for i in r.sample(range(n), r.randint(1, min(n, 2))):
            ws[i] = r.choice([float('nan'), float('nan'), float('inf'), float('-inf')])
    elif kind == 'malformed':
        ws = [p / 100.0 for p in split_int(r, 100, n)]
        i = r.randrange(n)
        ws[i] = r.choice(['abc', '0.5', '', 1, 0, True, 'half'])
    pairs = [[i, ws[i]] for i in range(n)]
    if kind == 'missing-some':
        keep = r.sample(range(n), r.randint(1, n)) if n > 1 else [0]
        pairs = [[i, ws[i]] for i in keep]
    elif kind == 'missing-all':
        pairs = [[i, None] for i in range(n)]  # entries present but no stage-weight key
    elif kind == 'all-zero':
        pairs = [[i, 0.0] for i in range(n)]
    if kind == 'no-section':
        pairs = None
    elif r.random() < 0.5:
        r.shuffle(pairs)  # stages listed out of order
    return {'n': n, 'kind': kind, 'status': pairs}


def build_doc(case, two_components=False):
    comps = []
    for i in range(case['n']):
        comps.append({'stage': i, 'name': 'c%d' % i, 'command': {'executable': 'echo', 'arguments': 'hi'}})
        if two_components and i % 2 == 0:
            comps.append({'stage': i, 'name': 'd%d' % i, 'command': {'executable': 'echo', 'arguments': 'hi'}})
    doc = {'components': comps}
    if case['status'] is not None:
        st = {}
        for i, wt in case['status']:
            st[int(i)] = {} if wt is None else {'stage-weight': wt}
        doc['status-report'] = st
    return doc


def is_num(x):
    return isinstance(x, (int, float)) and not isinstance(x, bool) and not (isinstance(x, float) and math.isnan(x))


def given_vector(case):
    """The weights the package gives, by stage index (None where not given)."""
    g = [None] * case['n']
    for i, wt in (case['status'] or []):
        g[int(i)] = wt
    return g


def given_valid(g):
    return all(is_num(x) for x in g) and all(x >= 0 for x in g) and abs(math.fsum(g) - 1.0) <= TOL


def trunc_sum(vec):
    """Sum of int(w*1000) with missing weights counted as 0 - only used to CLASSIFY recorded findings."""
    return sum(int((0.0 if x is None else float(x)) * 1000) for x in vec)


def classify(case, observed):
    """Which recorded mechanism (if any) explains `observed` (a weight vector seen at (n) or (m))?"""
    g = given_vector(case)
    if not all(x is None or is_num(x) for x in g):
        return None
    g0 = [0.0 if x is None else float(x) for x in g]
    obs_ok = all(is_num(x) for x in observed) and all(x >= 0 for x in observed) and abs(math.fsum(observed) - 1) <= TOL
    if given_valid(g) and list(observed) != g and trunc_sum(g) != 1000 and obs_ok:
        return K_VALID_REJECTED
    if list(observed) == g0 and trunc_sum(g) == 1000:
        if any(x < 0 for x in g0):
            return K_NEG_ACCEPTED
        if abs(math.fsum(g0) - 1) > TOL:
            return K_OFFSUM_ACCEPTED
    return None


# ----------------------------------------------------------------------------- judges

_keyed = {}


def report(w, what, witness, finding_key=None):
    """Recorded mechanisms are re-observed thousands of times: list the first few per worker, count the rest."""
    if finding_key is not None:
        _keyed[finding_key] = _keyed.get(finding_key, 0) + 1
        w.count('reobserved_' + finding_key.split(':', 1)[1][:60])
        if _keyed[finding_key] > 8:
            return
    w.violation(what, witness, finding_key=finding_key)


_m = {}


def mods():
    if not _m:
        from experiment.model.frontends.flowir import FlowIR, FlowIRConcrete
        from experiment.model.frontends.dosini import Dosini
        _m.update(FlowIR=FlowIR, FlowIRConcrete=FlowIRConcrete, Dosini=Dosini)
    return _m


def judge_vector(label, case, observed, w, extra=None):
    """Weight clauses on one observed vector. Returns True when every clause held."""
    g = given_vector(case)
    n = case['n']
    problems = []
    if len(observed) != n:
        problems.append('has %d entries for %d stages' % (len(observed), n))
    elif not all(is_num(x) for x in observed):
        problems.append('contains a non-number')
    else:
        w.count(label + '_nonneg')
        if any(x < 0 for x in observed):
            problems.append('has a negative weight')
        w.count(label + '_sum1')
        if abs(math.fsum(observed) - 1.0) > TOL:
            problems.append('sums to %r' % math.fsum(observed))
        if given_valid(g):
            w.count(label + '_identity')
            if list(observed) != [x for x in g]:
                problems.append('differs from the valid given weights')
    for p in problems:
        key = classify(case, observed) if len(observed) == n else None
        report(w, '%s weights %r %s (given by stage: %r)' % (label, observed, p, g),
                    dict({'case': case, 'where': label, 'observed': observed, 'problem': p}, **(extra or {})),
                    finding_key=key)
    return not problems


def load_concrete(case, w):
    """-> (concrete, W) or (None, None) when the document is rejected / crashed (already reported)."""
    m = mods()
    doc = build_doc(case)
    try:
        conc = m['FlowIRConcrete'](doc, 'default', {})
    except Exception as e:
        if case['kind'] == 'malformed':
            w.count('malformed_rejected_at_load')
            return None, None
        report(w, 'loading a document with status %r raised %s: %s' % (case['status'], type(e).__name__, str(e)[:200]),
                    {'case': case, 'where': 'load', 'problem': 'exception'})
        return None, None
    # validate() costs 8-80 ms (it validates every component) and can only reject a status section whose
    # weights are not floats: run it for the malformed kind and for a 1-in-40 sample of the others
    errs = []
    if case['kind'] == 'malformed' or not all(x is None or isinstance(x, float) for x in given_vector(case)) \
            or w.evaluations % 40 == 0:
        w.count('validate_called')
        errs = [e for e in conc.validate() if 'status-report' in str(e)]
    if errs:
        w.count('rejected_by_validation')
        if case['kind'] != 'malformed':
            report(w, 'validation rejects well-formed status weights %r: %s' % (case['status'], str(errs[0])[:200]),
                        {'case': case, 'where': 'validate', 'problem': 'rejected'})
        return None, None
    st = conc.get_status()
    try:
        W = [st[i]['stage-weight'] for i in range(case['n'])]
    except KeyError as e:
        report(w, 'loaded status %r has no weight for stage %s' % (st, e), {'case': case, 'where': 'normaliser',
                                                                            'problem': 'missing'})
        return None, None
    return conc, W


def judge_normaliser(case, w):
    w.evaluated()
    conc, W = load_concrete(case, w)
    g = given_vector(case)
    w.distinct('n|%s|%d|%s|%s' % (case['kind'], min(case['n'], 9) if case['n'] < 9 else (9 if case['n'] < 20 else 20),
                                 'ooo' if case['status'] and [p[0] for p in case['status']] != sorted(p[0] for p in case['status']) else 'ord',
                                 'V' if given_valid(g) else 'I'))
    if W is None:
        return
    w.count('normaliser_judged')
    if given_valid(g):
        w.count('given_valid')
        if case['kind'] in ('valid-4', 'valid-5', 'valid-6', 'valid-float', 'valid-equal'):
            w.count('given_valid_more_than_3_decimals')
    judge_vector('normaliser', case, W, w)
    if w.evaluations % 701 == 1:
        w.sample({'case': case, 'loaded_weights': W})


class FakeController(object):
    """What StatusMonitor.CheckStatus needs from a Controller, scripted."""

    def __init__(self, exp, codes):
        self.exp = exp
        self.codes = codes
        self.comp_lock = threading.RLock()
        self.current = 0
        self.transit = []
        self.finished = []
        self.progress = {}
        self.stage_calls = 0

    def set(self, scenario):
        with self.comp_lock:
            self.current = scenario['current']
            self.transit = list(scenario['transit'])
            self.finished = list(scenario['finished'])
            self.progress = {int(k): v for k, v in scenario['progress'].items()}

    def stage(self):
        self.stage_calls += 1
        return self.exp._stages[self.current]

    def stageState(self, stage):
        return self.codes.RUNNING_STATE

    def get_stages_in_transit(self):
        return list(self.transit) + [self.current]  # the real controller lists the active stage too

    def get_stages_finished(self):
        return list(self.finished)

    def get_stage_status(self, index):
        return self.progress.get(index)

    def generate_status_report_for_nodes(self, _):
        return ''


def gen_scenarios(r, n, exhaustive_upto):
    """Realistic controller states: current stage c; every earlier stage is finished or still in transit;
    later stages have not started.  All splits for n <= exhaustive_upto, a random selection otherwise."""
    out = []

    def mk(c, mask, mode):
        fin = [i for i in range(c) if mask >> i & 1]
        tr = [i for i in range(c) if not mask >> i & 1]
        prog = {}
        for i in tr + [c]:
            prog[str(i)] = {'zero': 0.0, 'one': 1.0}.get(mode, None)
            if prog[str(i)] is None:
                prog[str(i)] = r.choice([0.0, 1.0, 0.5, round(r.random(), 3), r.random()])
        return {'current': c, 'finished': fin, 'transit': tr, 'progress': prog}

    if n <= exhaustive_upto:
        for c in range(n):
            for mask in range(1 << c):
                out.append(mk(c, mask, r.choice(['rand', 'rand', 'one', 'zero'])))
    else:
        for _ in range(10):
            c = r.randrange(n)
            out.append(mk(c, r.getrandbits(c) if c else 0, r.choice(['rand', 'rand', 'one', 'zero'])))
    # every stage completed, two ways: all recorded as finished / all still "active" with progress 1
    out.append({'current': n - 1, 'finished': list(range(n - 1)), 'transit': [], 'progress': {str(n - 1): 1.0},
                'complete': True})
    out.append({'current': n - 1, 'finished': [], 'transit': list(range(n - 1)),
                'progress': {str(i): 1.0 for i in range(n)}, 'complete': True})
    out.append({'current': 0, 'finished': [], 'transit': [], 'progress': {'0': 0.0}})
    return out


def expected_total(weights, sc):
    active = set(sc['transit']) | {sc['current']}
    return math.fsum([sc['progress'][str(i)] * weights[i] for i in sorted(active)] +
                     [weights[i] for i in sc['finished']])


class LockProbe(object):
    """A second thread that plays "the rest of the controller": it applies a state change only if it can take
    the controller's comp_lock WITHOUT blocking, i.e. only while the status monitor is not inside its
    lock-protected snapshot.  The requesting (monitor) thread waits for the answer, so the interleaving is
    decided by call counts, never by timing."""

    def __init__(self, lock):
        import queue
        self.lock = lock
        self.req = queue.Queue()
        self.ans = queue.Queue()
        self.thread = threading.Thread(target=self._loop, name='c20-lockprobe', daemon=True)
        self.thread.start()

    def _loop(self):
        while True:
            fn = self.req.get()
            if fn is None:
                return
            got = self.lock.acquire(False)
            if got:
                try:
                    fn()
                finally:
                    self.lock.release()
            self.ans.put(got)

    def try_apply(self, fn):
        self.req.put(fn)
        return self.ans.get()

    def stop(self):
        self.req.put(None)


class DynamicController(object):
    """Scripted controller whose state CHANGES during a status check.  State: current stage `cur` (stages
    0..cur are initialised), per stage the number of components and how many have finished.  As in the real
    Controller a stage with an unfinished component is "in transit", an initialised stage without one is
    "finished", get_stage_status is finished/total.  Events (component completions, a stage finishing, the
    controller advancing to the next stage) only move forward.  They are applied at the n-th call of ANY
    controller method - by the LockProbe thread under comp_lock, hence only when the monitor does not hold
    comp_lock; otherwise they stay due and are retried at the next call."""

    def __init__(self, exp, codes):
        self.exp = exp
        self.codes = codes
        self.comp_lock = threading.RLock()
        self.probe = LockProbe(self.comp_lock)
        self.arm({'cur': 0, 'total': [1] * len(exp._stages), 'done': [0] * len(exp._stages)}, [], 1, False)

    def arm(self, init, events, at, spread):
        with self.comp_lock:
            self.cur = init['cur']
            self.total = list(init['total'])
            self.done = list(init['done'])
            self.events = [list(e) for e in events]
            self.at = at
            self.spread = spread
            self.calls = 0
            self.fired = 0
            self.start_state = None
            self.changed_mid_check = 0
            self.deferred = 0

    def state(self):
        return {'cur': self.cur, 'done': list(self.done)}

    def _apply(self, k):
        for ev in self.events[self.fired:self.fired + k]:
            if ev[0] == 'complete':
                i = min(ev[1], self.cur)
                self.done[i] = min(self.total[i], self.done[i] + 1)
            elif ev[0] == 'finish':
                i = min(ev[1], self.cur)
                self.done[i] = self.total[i]
            elif ev[0] == 'advance' and self.cur < len(self.total) - 1:
                self.cur += 1
        self.fired += k

    def _boundary(self):
        self.calls += 1
        if self.fired < len(self.events) and self.calls >= self.at:
            k = min(len(self.events) - self.fired, (self.calls - self.at + 1) - self.fired) if self.spread \
                else len(self.events) - self.fired
            if k > 0:
                if self.probe.try_apply(lambda: self._apply(k)):
                    if self.start_state is not None:
                        self.changed_mid_check += 1
                else:
                    self.deferred += 1
        if self.start_state is None:
            self.start_state = self.state()

    def stage(self):
        self._boundary()
        return self.exp._stages[self.cur]

    def stageState(self, stage=None):
        self._boundary()
        return self.codes.RUNNING_STATE

    def get_stages_in_transit(self):
        self._boundary()
        with self.comp_lock:
            return sorted(i for i in range(self.cur + 1) if self.done[i] < self.total[i])

    def get_stages_finished(self):
        self._boundary()
        with self.comp_lock:
            return sorted(i for i in range(self.cur + 1) if self.done[i] == self.total[i])

    def get_stage_status(self, index):
        self._boundary()
        with self.comp_lock:
            if index > self.cur:
                return None
            return self.done[index] / float(self.total[index])

    def generate_status_report_for_nodes(self, _):
        self._boundary()
        return ''


def state_value(state, total, weights):
    """Weighted progress of one consistent controller state: finished stages count their weight, initialised
    stages their finished fraction, stages that have not started nothing."""
    return math.fsum(weights[i] * (state['done'][i] / float(total[i])) for i in range(state['cur'] + 1))


def gen_dynamic(r, n, max_at_extra=2):
    """Dynamic scenarios for an n-stage workflow: (initial state, forward events) x every call boundary."""
    out = []
    for _ in range(3):
        cur = r.randrange(n)
        total = [r.choice([1, 2, 2, 3, 4]) for _ in range(n)]
        done = [0] * n
        for i in range(cur):
            done[i] = total[i] if r.random() < 0.5 else r.randrange(total[i] + 0) if total[i] > 1 else r.choice([0, 1])
        done[cur] = r.randrange(total[cur] + 1)
        transit = [i for i in range(cur + 1) if done[i] < total[i]]
        events = []
        for _k in range(r.randint(1, 4)):
            c = r.random()
            if transit and c < 0.55:
                events.append(['finish', r.choice(transit)])
            elif c < 0.8:
                events.append(['complete', r.randrange(cur + 1)])
            else:
                events.append(['advance'])
        if r.random() < 0.3:
            # everything completes while the monitor looks
            events = [['finish', i] for i in range(cur + 1)] + [['advance']] * 0
        init = {'cur': cur, 'total': total, 'done': done}
        ncalls = 5 + len(transit) + max_at_extra
        for at in range(1, ncalls + 1):
            for spread in (False, True):
                if spread and len(events) < 2:
                    continue
                out.append({'init': init, 'events': events, 'at': at, 'spread': spread})
    return out


def judge_dynamic_total(case, SW, dyn, ctl, total, w):
    w.count('dynamic_checks')
    if ctl.changed_mid_check:
        w.count('dynamic_state_changed_during_check')
    if ctl.deferred:
        w.count('dynamic_change_deferred_because_monitor_held_comp_lock')
    start, end = ctl.start_state, ctl.state()
    tot = dyn['init']['total']
    lo, hi = state_value(start, tot, SW), state_value(end, tot, SW)
    w.distinct('d|%d|%s|%s|%d' % (min(case['n'], 7), 'chg' if ctl.changed_mid_check else 'static',
                                  'S' if dyn['spread'] else 'A', min(dyn['at'], 9)))
    problems = []
    if not is_num(total):
        problems.append('is not a number')
    else:
        if total < -TOL or total > 1 + TOL:
            problems.append('is outside [0,1]')
        w.count('dynamic_bounded_by_start_and_end_state')
        if total > hi + TOL:
            problems.append('exceeds the weighted sum %r of the controller state at the END of the check' % hi)
        if total < lo - TOL:
            problems.append('is below the weighted sum %r of the controller state at the START of the check' % lo)
        complete = start['cur'] == case['n'] - 1 and all(start['done'][i] == tot[i] for i in range(case['n']))
        if complete:
            w.count('dynamic_complete_is_one')
            if abs(total - 1.0) > TOL:
                problems.append('is not 1 although every stage had completed')
    for p in problems:
        report(w, 'total progress %r %s (weights %r; controller %r at the first call, %r at the end; events %r from '
                  'call %d%s)' % (total, p, SW, start, end, dyn['events'], dyn['at'], ', one per call' if dyn['spread'] else ''),
               {'case': case, 'where': 'dynamic', 'dynamic': dyn, 'observed': total, 'problem': p,
                'start': start, 'end': end})


def judge_monitor(case, scenarios, w, scratch_root, dynamic=None):
    """Build a real experiment, a real StatusMonitor, and drive the real CheckStatus."""
    import yaml
    import experiment.runtime.output as output
    import experiment.model.codes as codes
    if vlib.REPO not in sys.path:
        sys.path.append(vlib.REPO)
    from tests.utils import experiment_from_flowir
    w.evaluated()
    conc, W = load_concrete(case, w)
    g = given_vector(case)
    if W is None:
        return
    loc = os.path.join(scratch_root, 'e')
    shutil.rmtree(loc, ignore_errors=True)
    os.makedirs(loc)
    doc = build_doc(case, two_components=True)
    try:
        exp = experiment_from_flowir(yaml.safe_dump(doc, sort_keys=False), loc, checkExecutables=False)
        sm = output.StatusMonitor(exp, report_components=False)
    except Exception as e:
        report(w, 'building experiment/StatusMonitor for status %r raised %s: %s' % (case['status'], type(e).__name__, str(e)[:300]),
                    {'case': case, 'where': 'monitor', 'problem': 'exception'})
        return
    SW = list(sm.stageWeights)
    w.count('monitor_judged')
    w.distinct('m|%s|%d|%s' % (case['kind'], min(case['n'], 9), 'V' if given_valid(g) else 'I'))
    ok = judge_vector('monitor', case, SW, w)
    w.count('monitor_agrees_with_loaded')
    if len(SW) == len(W) and SW != W and all(is_num(x) for x in SW):
        # the monitor must use the loaded workflow's weights, stage by stage
        key = classify(case, SW)
        report(w, 'monitor weights %r differ from the loaded weights %r (given %r)' % (SW, W, g),
                    {'case': case, 'where': 'monitor', 'observed': SW, 'loaded': W, 'problem': 'disagree'}, finding_key=key)
    if len(SW) != case['n'] or not all(is_num(x) for x in SW):
        return
    fake = FakeController(exp, codes)
    sm.repeatInterval = 3600.0
    updated = threading.Event()
    real_update = exp.statusFile.update

    def update_proxy(*a, **kw):
        try:
            return real_update(*a, **kw)
        finally:
            updated.set()

    exp.statusFile.update = update_proxy
    vector_known = classify(case, SW)
    it = iter(scenarios)
    for first in it:
        second = next(it, None)
        fake.set(first)
        updated.clear()
        fake.stage_calls = 0
        sm.run(fake)
        if not updated.wait(60):
            sm.kill()
            if fake.stage_calls >= 2:
                report(w, 'CheckStatus did not complete for scenario %r (exception inside the monitor)' % (first,),
                            {'case': case, 'where': 'progress', 'scenarios': [first], 'problem': 'no-update'})
            else:
                w.note_inconclusive('StatusMonitor first action not observed within 60 s')
            return
        with sm.mtx_compute_status:
            total = exp.statusFile.totalProgress()
        judge_total(case, SW, g, first, total, vector_known, w)
        if second is not None:
            fake.set(second)
        updated.clear()
        sm.kill()
        sm.join()
        if second is not None:
            total = exp.statusFile.totalProgress()
            judge_total(case, SW, g, second, total, vector_known, w)
    if w.counters.get('monitor_judged', 0) % 40 == 1 and scenarios:
        w.sample({'case': case, 'monitor_weights': SW, 'scenario': scenarios[0]})
    if not dynamic or not ok or vector_known:
        return
    # ---- the controller changes state DURING the status check
    ctl = DynamicController(exp, codes)
    try:
        it = iter(dynamic)
        for first in it:
            second = next(it, None)
            ctl.arm(first['init'], first['events'], first['at'], first['spread'])
            updated.clear()
            sm.run(ctl)
            if not updated.wait(60):
                sm.kill()
                if ctl.calls >= 12:
                    report(w, 'CheckStatus did not complete for dynamic scenario %r' % (first,),
                           {'case': case, 'where': 'dynamic', 'dynamic': first, 'problem': 'no-update'})
                else:
                    w.note_inconclusive('StatusMonitor first action (dynamic) not observed within 60 s')
                return
            with sm.mtx_compute_status:
                total = exp.statusFile.totalProgress()
            judge_dynamic_total(case, SW, first, ctl, total, w)
            if second is not None:
                ctl.arm(second['init'], second['events'], second['at'], second['spread'])
            updated.clear()
            sm.kill()
            sm.join()
            if second is not None:
                judge_dynamic_total(case, SW, second, ctl, exp.statusFile.totalProgress(), w)
        if w.counters.get('dynamic_checks', 0) % 500 < 40 and len(w.samples) < 2:
            w.sample({'case': case, 'monitor_weights': SW, 'dynamic_scenario': dynamic[0]})
    finally:
        ctl.probe.stop()


def judge_total(case, SW, g, sc, total, vector_known, w):
    w.count('progress_scenarios')
    w.distinct('p|%d|%d|%d|%s' % (min(case['n'], 7), len(sc['finished']) > 0, len(sc['transit']) > 0,
                                  'C' if sc.get('complete') else '-'))
    problems = []
    if not is_num(total):
        problems.append('is not a number')
    else:
        w.count('progress_range')
        if total < -TOL or total > 1 + TOL:
            problems.append('is outside [0,1]')
        if sc.get('complete'):
            w.count('progress_complete_is_one')
            if abs(total - 1.0) > TOL:
                problems.append('is not 1 although every stage has completed')
        if given_valid(g):
            w.count('progress_matches_given_weights')
            if abs(total - expected_total(g, sc)) > TOL:
                problems.append('is not the weighted sum %r of the given weights' % expected_total(g, sc))
    for p in problems:
        key = None
        # consequence of a recorded weight finding: the formula is right (it matches the monitor's own weights)
        # and those weights are a recorded-finding vector
        if vector_known and is_num(total) and abs(total - expected_total(SW, sc)) <= TOL:
            key = vector_known
        report(w, 'total progress %r %s (scenario %r, monitor weights %r, given %r)' % (total, p, sc, SW, g),
                    {'case': case, 'where': 'progress', 'scenarios': [sc], 'observed': total, 'problem': p},
                    finding_key=key)


def judge_legacy(r, w):
    """Legacy status sections (strings, weight optional) -> Dosini.parse_status -> FlowIRConcrete."""
    m = mods()
    n = r.choice([1, 2, 3, 4, 6])
    parts = split_int(r, 100, n)
    give = [r.random() < 0.6 for _ in range(n)]
    if r.random() < 0.3:
        give = [True] * n
    sections = {}
    order = list(range(n))
    if r.random() < 0.5:
        r.shuffle(order)
    for i in order:
        sec = {}
        if give[i]:
            sec['stage-weight'] = '%.2f' % (parts[i] / 100.0)
        if r.random() < 0.3:
            sec['executable'] = 'echo'
            sec['arguments'] = '0.5'
        sections['STAGE%d' % i] = sec
    case = {'n': n, 'kind': 'legacy', 'sections': sections,
            'status': [[i, (parts[i] / 100.0) if give[i] else None] for i in order]}
    w.evaluated()
    w.count('legacy_judged')
    w.distinct('l|%d|%s' % (n, 'all' if all(give) else 'none' if not any(give) else 'some'))
    comps = [{'stage': i, 'name': 'c%d' % i, 'command': {'executable': 'echo'}} for i in range(n)]
    flowir = m['Dosini'].parse_status({'components': comps}, {k: dict(v) for k, v in sections.items()})
    try:
        conc = m['FlowIRConcrete'](flowir, 'default', {})
    except Exception as e:
        loaded = flowir.get('status-report', {})
        key = None
        if isinstance(e, TypeError) and any(loaded.get(i, {}).get('stage-weight', 0) is None for i in range(n)) \
                and not all(give):
            key = K_LEGACY_NONE
        report(w, 'legacy status sections %r load as %r and FlowIRConcrete raises %s: %s' % (
            sections, loaded, type(e).__name__, str(e)[:120]),
            {'case': case, 'where': 'legacy', 'problem': 'exception'}, finding_key=key)
        return
    st = conc.get_status()
    W = [st[i].get('stage-weight') for i in range(n)]
    judge_vector('legacy', case, W, w)


# ----------------------------------------------------------------------------- jobs

def run_job(job, w):
    r = vlib.rng(PROP, job['type'], job['id'])
    if job['type'] == 'vectors':
        for i in range(job['count']):
            judge_normaliser(gen_case(r), w)
        for i in range(job['legacy']):
            judge_legacy(r, w)
    else:
        scratch = vlib.mkscratch('c20')
        for i in range(job['count']):
            n = r.choice([1, 2, 2, 3, 3, 4, 4, 5, 6, 6, 8, 12, 25, 40]) if i % 3 else r.choice([2, 3, 4])
            case = gen_case(r, n)
            if case['kind'] == 'malformed':
                case = gen_case(r, n)
            rd = vlib.rng(PROP, 'dynamic', job['id'], i)  # own stream: the static cases stay what they were
            dyn = gen_dynamic(rd, case['n']) if 2 <= case['n'] <= 8 else None
            judge_monitor(case, gen_scenarios(r, case['n'], job['exhaustive_upto']), w, scratch, dynamic=dyn)
        shutil.rmtree(scratch, ignore_errors=True)


if "--worker" in sys.argv:
    vlib.worker_main(run_job)


def main():
    c = vlib.Check(PROP, "exploration",
                   rule="generated stage-weight assignments (1-40 stages; 1-6 decimal / float / equal valid vectors, "
                        "off-sum, truncation near-misses, missing, zero, negative, huge, malformed; stages listed out of "
                        "order) judged at the normaliser; a subset also through a real Experiment + StatusMonitor with "
                        "scripted controller states (all finished/in-transit splits for small stage counts). evaluations "
                        "= weight assignments judged (normaliser) + experiments built (monitor) + legacy status sections; "
                        "distinct = distinct classes (observation point, vector kind, stage-count bucket, listed in "
                        "order or not, given-valid or not; for progress: stage-count bucket x finished/in-transit "
                        "non-empty x completion)",
                   assumptions=[
                       "status-report keys are integers (string spellings 'N'/'stageN' pass the schema but are ignored by "
                       "the normaliser and make StatusMonitor raise TypeError in a log line - reported in the notes, not judged)",
                       "NaN/inf weights are generated (kind 'nonfinite'); documents whose weights validate() rejects (strings, ints, "
                       "bools) are counted as rejected and not judged further",
                       "per-stage progress comes from the controller (no status executables); scenarios keep earlier "
                       "stages finished or in transit and later stages not started",
                       "dynamic scenarios: the scripted controller only moves forward (components complete, stages finish, "
                       "the current stage advances); its state changes are applied by a second thread under comp_lock, i.e. "
                       "never while the monitor holds comp_lock; the total must lie between the weighted sums of the "
                       "controller state at the first call and at the end of the check",
                       "'sum to one' and equality of totals are judged with tolerance 1e-9; identity with the given "
                       "weights is exact",
                       "a package that gives weights for only some stages is only required to end up with non-negative "
                       "weights summing to one",
                   ])
    rp = vlib.load_replay(sys.argv)
    if rp is not None:
        wit = rp['witness']
        w = vlib.Worker()
        case = wit['case']
        if wit['where'] in ('normaliser', 'load', 'validate'):
            judge_normaliser(case, w)
        elif wit['where'] == 'dynamic':
            judge_monitor(case, [], w, vlib.mkscratch('c20r'), dynamic=[wit['dynamic']])
        elif wit['where'] == 'legacy':
            m = mods()
            judge_legacy_replay(case, w)
        else:
            scs = wit.get('scenarios') or gen_scenarios(vlib.rng('replay'), case['n'], 3)
            judge_monitor(case, scs, w, vlib.mkscratch('c20r'))
        c.merge_worker(w.summary())
        sys.exit(finish_replay(c, '%s case %r' % (wit['where'], case['status'])))

    quick = c.tier == 'quick'
    vectors, legacy, exps, upto = (5600, 400, 130, 4) if quick else (320000, 8000, 1600, 6)
    jobs = []
    # many small jobs: a slow (loaded) machine must not push one worker over its timeout
    # fixed job counts (not derived from the CPU count): the same seed gives the same cases everywhere
    n_exp_jobs, n_vec_jobs = (16, 16) if quick else (80, 80)
    for i, rg in enumerate(vlib.split(exps, n_exp_jobs)):
        jobs.append({'type': 'experiments', 'id': i, 'count': len(rg), 'exhaustive_upto': upto})
    for i, rg in enumerate(vlib.split(vectors, n_vec_jobs)):
        jobs.append({'type': 'vectors', 'id': i, 'count': len(rg), 'legacy': legacy // n_vec_jobs + 1})
    vlib.fanout("checks.C20", jobs, c, timeout=1700)
    c.floor('normaliser_judged', 5000 if quick else 300000)
    c.floor('given_valid_more_than_3_decimals', 500 if quick else 30000)
    c.floor('normaliser_identity', 1500 if quick else 90000)
    c.floor('monitor_judged', 100 if quick else 1000)
    c.floor('progress_scenarios', 200 if quick else 5000)
    c.floor('progress_complete_is_one', 100 if quick else 1000)
    c.floor('legacy_judged', 300 if quick else 6000)
    c.floor('dynamic_checks', 1500 if quick else 20000)
    c.floor('dynamic_state_changed_during_check', 500 if quick else 7000)
    c.floor('dynamic_change_deferred_because_monitor_held_comp_lock', 100 if quick else 1500)
    sys.exit(c.finish())


def judge_legacy_replay(case, w):
    m = mods()
    n = case['n']
    comps = [{'stage': i, 'name': 'c%d' % i, 'command': {'executable': 'echo'}} for i in range(n)]
    flowir = m['Dosini'].parse_status({'components': comps}, {k: dict(v) for k, v in case['sections'].items()})
    w.evaluated()
    try:
        conc = m['FlowIRConcrete'](flowir, 'default', {})
    except Exception as e:
        loaded = flowir.get('status-report', {})
        key = K_LEGACY_NONE if isinstance(e, TypeError) and any(
            loaded.get(i, {}).get('stage-weight', 0) is None for i in range(n)) else None
        report(w, 'legacy status sections %r: FlowIRConcrete raises %s' % (case['sections'], type(e).__name__),
                    {'case': case, 'where': 'legacy', 'problem': 'exception'}, finding_key=key)
        return
    st = conc.get_status()
    judge_vector('legacy', case, [st[i].get('stage-weight') for i in range(n)], w)


if __name__ == "__main__":
    main()
