"""Scenario builders for C14: for each state-file writer, put a REAL object of the repository into
the state "previous version persisted, new values pending" and hand back the thunk that performs
one update.  Everything is derived from (writer, scenario index) through vlib.rng so that a
witness replays exactly."""
from __future__ import annotations

import datetime as _dt
import json
import os
import shutil
import sys
from typing import Any, Callable, Dict, List, Optional

import vlib

WRITERS = ["status", "keyoutputs", "details", "flowir_loop", "instance_files"]

HOSTILE_ATOMS = [
    "\n", "\r\n", "\t", "\\", "\\n", "\\\\", "\\x41", "=", "==", "%", "%s", "%(stage)s", "%%", "é", "ü", "ß", "中文",
    "\U0001F600", "\x7f", "\x1b[0m", "'", '"', "#", ";", "[", "]", ":", ",", "{", "}", "line1", "line2",
    "Traceback (most recent call last):", "  File \"x.py\", line 3", "KeyError: 'a=b'", "C:\\new\\table",
    "100%", "a=b", "stage0.comp", "key=value=other", " ", "  ", "-", "\u2028", "\x0b", "\xa0",
]


def hostile_text(r, lo=1, hi=8, edge_blank: Optional[bool] = None) -> str:
    n = r.randint(lo, hi)
    s = "".join(r.choice(HOSTILE_ATOMS) for _ in range(n))
    if r.random() < 0.15:
        s += "x" * r.choice([100, 1000, 9000])
    if edge_blank is False:
        s = s.strip()
        if not s:
            s = "e"
    elif edge_blank is True:
        s = r.choice([" ", "\n", "\t", ""]) + s + r.choice([" ", "\n", "  ", "\t"])
    return s


class FrozenDatetimeModule:
    """Stand-in for the `datetime` module inside experiment.model.data: now() is a constant, so
    that the bytes of the 'new version' are the same in every forked run of the same update."""

    def __init__(self, fixed: _dt.datetime):
        real = _dt

        class _DT(real.datetime):
            @classmethod
            def now(cls, tz=None):
                return fixed if tz is None else fixed.replace(tzinfo=tz)

        self.datetime = _DT
        self._real = real

    def __getattr__(self, n):
        return getattr(self._real, n)


class Scenario:
    def __init__(self, writer: str, scen: int):
        self.writer = writer
        self.scen = scen
        self.watch: List[str] = []
        self.targets: Dict[str, str] = {}       # name -> absolute path
        self.loaders: Dict[str, Callable[[str], Any]] = {}
        self.update: Callable[[], Any] = lambda: None
        self.describe: Dict[str, Any] = {"writer": writer, "scen": scen}
        self.cleanup_dirs: List[str] = []

    def cleanup(self):
        for d in self.cleanup_dirs:
            shutil.rmtree(d, ignore_errors=True)


def _tests_utils():
    if vlib.REPO not in sys.path:
        sys.path.insert(1, vlib.REPO)
    from tests import utils
    return utils


def _new_experiment(flowir: str, extra_files: Optional[Dict[str, str]] = None):
    utils = _tests_utils()
    loc = vlib.mkscratch("c14exp")
    exp = utils.experiment_from_flowir(flowir, loc, extra_files=extra_files, checkExecutables=False)
    shadow_out = os.path.realpath(os.path.join(exp.instanceDirectory.location, "output"))
    return exp, loc, shadow_out


def _shadow_root(shadow_out: str) -> Optional[str]:
    d = os.path.dirname(shadow_out)
    return d if d.endswith(".shadow") else None


# ------------------------------------------------------------------------------------ status.txt

def _load_status(path):
    import experiment.model.data as D
    st = D.Status.statusFromFile(path)
    st.stages()
    return st.to_dict()


def build_status(scen: int) -> Scenario:
    import experiment.model.data as D
    r = vlib.rng("C14", "crash", "status", scen)
    s = Scenario("status", scen)
    d = vlib.mkscratch("c14st")
    out = os.path.join(d, "output")
    os.makedirs(out)
    path = os.path.join(out, "status.txt")
    stages = ["stage%d" % i for i in range(r.randint(1, 6))]
    st = D.Status(path, {}, stages)
    first_write = (scen % 5 == 2)
    big = (scen % 5 == 1) or (scen >= 5 and r.random() < 0.5)
    st.setCreated(_dt.datetime(2026, 1, 2, 3, 4, 5, 678))
    st.setCurrentStage(stages[0])
    st.setExperimentState("running")
    st.setStageState("running")
    st.setStageProgress(0.25)
    if r.random() < 0.5:
        st.setErrorDescription("previous problem " + "p" * r.randint(0, 50))
    if not first_write:
        assert st.update()
    # pending new values
    st.setCurrentStage(r.choice(stages))
    st.setStageProgress(r.choice([0.5, 1.0, 0.3333333333333333]))
    st.setTotalProgress(r.random())
    st.setExperimentState(r.choice(["running", "finished", "failed"]))
    st.setExitStatus(r.choice(["Success", "Failed", "N/A"]))
    st.setCost(r.randint(0, 10 ** 6))
    size = r.choice([9000, 20000, 70000]) if big else r.randint(0, 300)
    if size or r.random() < 0.7:
        st.setErrorDescription("new failure\nwith lines " + "d" * size)
    fixed = _dt.datetime(2026, 9, 25, 12, 0, 0, 123456)

    def update():
        D.datetime = FrozenDatetimeModule(fixed)
        return st.update()

    s.watch = [out]
    s.targets = {"status.txt": path}
    s.loaders = {"status.txt": _load_status}
    s.update = update
    s.describe.update({"stages": len(stages), "first_write": first_write, "description_bytes": size})
    s.cleanup_dirs = [d]
    return s


# ------------------------------------------------------------------- output.txt / output.json

def _keyoutput_flowir(names: List[str], files: List[str]) -> str:
    lines = ["output:"]
    for n, f in zip(names, files):
        lines += ["  %s:" % json.dumps(n), "    data-in: %s" % json.dumps("prod/%s:copy" % f), "    stages: [0, 1]",
                  "    description: %s" % json.dumps("description of " + n)]
    lines += ["status-report:", "  0:", "    stage-weight: 0.5", "  1:", "    stage-weight: 0.5",
              "components:",
              "- name: prod", "  command:", "    executable: echo", "    arguments: hi",
              "- name: prod", "  stage: 1", "  command:", "    executable: echo", "    arguments: hi"]
    return "\n".join(lines) + "\n"


def _load_json(path):
    with open(path) as f:
        return json.load(f)


def _load_dosini(path):
    import configparser
    cfg = configparser.ConfigParser()
    with open(path) as f:
        cfg.read_file(f)
    return {s: dict(cfg.items(s)) for s in cfg.sections()}


def make_output_agent(names: List[str], files: List[str]):
    import experiment.runtime.output as O
    exp, loc, shadow_out = _new_experiment(_keyoutput_flowir(names, files))
    for stage in (0, 1):
        wd = exp.findJob(stage, "prod").workingDirectory.path
        for k, f in enumerate(files):
            with open(os.path.join(wd, f), "w") as fh:
                fh.write("content %d of stage %d" % (k, stage))
            os.utime(os.path.join(wd, f), (1700000000 + k, 1700000000 + 10 * stage + k))
    agent = O.OutputAgent(exp)
    return exp, agent, loc, shadow_out


def build_keyoutputs(scen: int) -> Scenario:
    r = vlib.rng("C14", "crash", "keyoutputs", scen)
    s = Scenario("keyoutputs", scen)
    big = (scen % 5 == 1) or (scen >= 5 and r.random() < 0.4)
    n = r.choice([60, 90]) if big else r.randint(1, 4)
    names = ["Key%03d" % i for i in range(n)]
    files = ["out%03d.txt" % i for i in range(n)]
    exp, agent, loc, shadow_out = make_output_agent(names, files)
    agent.process_stage(0)     # previous version
    s.watch = [shadow_out]
    s.targets = {"output.txt": os.path.join(shadow_out, "output.txt"),
                 "output.json": os.path.join(shadow_out, "output.json")}
    s.loaders = {"output.txt": _load_dosini, "output.json": _load_json}
    s.update = lambda: agent.process_stage(1)
    s.describe.update({"key_outputs": n})
    s.cleanup_dirs = [loc] + ([_shadow_root(shadow_out)] if _shadow_root(shadow_out) else [])
    s._keep = (exp, agent)
    return s


# ------------------------------------------------------------------------- status_details.json

class StubStatusDB:
    """Stands in for experiment.runtime.status.StatusDB: the *source* of the details that
    StatusMonitor persists (the writer under observation is try_generate_status_details)."""

    def __init__(self, details):
        self.details = details

    def getWorkflowStatus(self, json_friendly=True):
        return self.details


def _details(r, n_stage: int, n_comp: int, hostile: bool = False) -> Dict[str, Any]:
    def text():
        return hostile_text(r) if hostile else "t%d" % r.randint(0, 10 ** 6)
    return {"stages": {str(i): {"components": {("comp%d" % j): {
        "state": r.choice(["running", "finished", "failed", "component_shutdown"]),
        "exit-reason": text(), "engine-exit-code": r.choice([None, 0, 1, 137]),
        "consumesFrom": ["stage0.comp%d" % k for k in range(r.randint(0, 3))],
        "last-task-run-time": r.random() * 100} for j in range(n_comp)}, "progress": r.random()}
        for i in range(n_stage)}, "total-progress": r.random(), "exit-status": text()}


_DETAILS_FLOWIR = """
status-report:
  0:
    stage-weight: 1.0
components:
- name: prod
  command:
    executable: echo
    arguments: hi
"""


def make_status_monitor():
    import experiment.runtime.output as O
    exp, loc, shadow_out = _new_experiment(_DETAILS_FLOWIR)
    sm = O.StatusMonitor(exp)
    return exp, sm, loc, shadow_out


def build_details(scen: int) -> Scenario:
    r = vlib.rng("C14", "crash", "details", scen)
    s = Scenario("details", scen)
    big = (scen % 5 == 1) or (scen >= 5 and r.random() < 0.4)
    exp, sm, loc, shadow_out = make_status_monitor()
    ns, nc = (r.randint(3, 5), r.randint(12, 25)) if big else (r.randint(1, 2), r.randint(1, 2))
    db = StubStatusDB(_details(r, ns, nc))
    sm.set_status_database(db)
    first_write = (scen % 5 == 2)
    if not first_write:
        sm.try_generate_status_details()   # previous version
    db.details = _details(r, ns, nc)
    target = os.path.join(shadow_out, "status_details.json")
    s.watch = [shadow_out]
    s.targets = {"status_details.json": target}
    s.loaders = {"status_details.json": _load_json}
    s.update = sm.try_generate_status_details
    s.describe.update({"stages": ns, "components": nc, "first_write": first_write})
    s.cleanup_dirs = [loc] + ([_shadow_root(shadow_out)] if _shadow_root(shadow_out) else [])
    s._keep = (exp, sm, db)
    return s


# --------------------------------------------------------- conf/flowir_instance.yaml, manifest.yaml

def _instance_flowir(r, n_comp: int) -> str:
    lines = ["variables:", "  default:", "    global:", "      foo: bar", "components:"]
    for i in range(n_comp):
        ref = ("stage0.comp%d:ref " % (i - 1)) if i else ""
        lines += ["- name: comp%d" % i, "  command:", "    executable: echo",
                  "    arguments: %s" % json.dumps("hello %(foo)s " + ref + "a" * r.randint(0, 40))]
        if i:
            lines += ["  references:", "  - stage0.comp%d:ref" % (i - 1)]
    return "\n".join(lines) + "\n"


def _load_instance(path):
    import experiment.model.frontends.flowir as F
    root, docs = F.package_document_load(path, True)
    if not isinstance(root.get("components"), list):
        raise ValueError("instance description has no component list")
    return root


def _load_manifest(path):
    import experiment.model.frontends.flowir as F
    m = F.Manifest.fromFile(path).manifestData
    if not isinstance(m, dict):
        raise ValueError("manifest is not a dictionary")
    return m


def build_flowir_loop(scen: int) -> Scenario:
    """What WorkflowGraph does after every loop iteration: add the components of the new
    iteration to the unreplicated FlowIR, then store_unreplicated_flowir_to_disk()."""
    import experiment.model.frontends.flowir as F
    r = vlib.rng("C14", "crash", "flowir_loop", scen)
    s = Scenario("flowir_loop", scen)
    big = (scen % 5 == 1) or (scen >= 5 and r.random() < 0.4)
    n_comp = r.randint(12, 22) if big else r.randint(1, 3)
    exp, loc, shadow_out = _new_experiment(_instance_flowir(r, n_comp))
    conf = exp.experimentGraph.configuration
    conf_dir = conf.configurationDirectory
    unrep = conf.get_unreplicated_flowir(return_copy=False)
    for k in range(r.randint(1, 3)):
        comp = {"name": "iter%d" % k, "stage": 0,
                "command": {"executable": "echo", "arguments": "iteration stage0.comp0:ref " + "i" * r.randint(0, 60)},
                "references": ["stage0.comp0:ref"]}
        F.FlowIR.convert_component_types(comp, True, is_primitive=True)
        unrep.add_component(comp)
    conf.replicate()
    s.watch = [conf_dir]
    s.targets = {"flowir_instance.yaml": os.path.join(conf_dir, "flowir_instance.yaml")}
    s.loaders = {"flowir_instance.yaml": _load_instance}
    s.update = conf.store_unreplicated_flowir_to_disk
    s.describe.update({"components": n_comp})
    s.cleanup_dirs = [loc] + ([_shadow_root(shadow_out)] if _shadow_root(shadow_out) else [])
    s._keep = (exp,)
    return s


def build_instance_files(scen: int) -> Scenario:
    """Restart of an instance with updateInstanceFiles: the configuration is loaded from the
    instance and conf/flowir_instance.yaml + conf/manifest.yaml are rewritten."""
    import experiment.model.conf as C
    r = vlib.rng("C14", "crash", "instance_files", scen)
    s = Scenario("instance_files", scen)
    big = (scen % 5 == 1) or (scen >= 5 and r.random() < 0.4)
    n_comp = r.randint(12, 22) if big else r.randint(1, 3)
    exp, loc, shadow_out = _new_experiment(_instance_flowir(r, n_comp))
    inst = exp.instanceDirectory.location
    conf_dir = exp.experimentGraph.configuration.configurationDirectory
    extra = {"extra%d" % k: "/somewhere/else/%d:%s" % (k, r.choice(["copy", "link"]))
             for k in range(r.choice([0, 1, 3, 40 if big else 2]))}

    def update():
        return C.ExperimentConfigurationFactory.configurationForExperiment(
            inst, is_instance=True, createInstanceFiles=True, updateInstanceFiles=True, manifest=extra or None)

    s.watch = [conf_dir]
    s.targets = {"flowir_instance.yaml": os.path.join(conf_dir, "flowir_instance.yaml"),
                 "manifest.yaml": os.path.join(conf_dir, "manifest.yaml")}
    s.loaders = {"flowir_instance.yaml": _load_instance, "manifest.yaml": _load_manifest}
    s.update = update
    s.describe.update({"components": n_comp, "extra_manifest_entries": len(extra)})
    s.cleanup_dirs = [loc] + ([_shadow_root(shadow_out)] if _shadow_root(shadow_out) else [])
    s._keep = (exp,)
    return s


# ------------------------------------------------------------------ two writers of the same file

def build_status_pair(scen: int) -> Scenario:
    """Two Status objects for the same status.txt (the StatusMonitor thread and the thread that
    records the outcome both update the experiment's status file) with payloads of different length."""
    import experiment.model.data as D
    r = vlib.rng("C14", "pair", "status", scen)
    s = Scenario("status", scen)
    d = vlib.mkscratch("c14stp")
    out = os.path.join(d, "output")
    os.makedirs(out)
    path = os.path.join(out, "status.txt")
    stages = ["stage%d" % i for i in range(r.randint(1, 4))]
    fixed = _dt.datetime(2026, 9, 25, 12, 0, 0, 123456)

    def make(total, state, exit_status, desc):
        st = D.Status(path, {}, stages)
        st.setCreated(_dt.datetime(2026, 1, 2, 3, 4, 5, 678))
        st.setCurrentStage(stages[-1])
        st.setExperimentState(state)
        st.setStageState(state)
        st.setTotalProgress(total)
        st.setExitStatus(exit_status)
        if desc is not None:
            st.setErrorDescription(desc)
        return st

    prev = make(0.25, "running", "N/A", None)
    assert prev.update()
    long_desc = "component stage0.x failed\nTraceback:\n" + "f" * [200, 3000, 9000, 20000][(scen // 2) % 4]
    sa = make(0.5, "running", "N/A", None)
    sb = make(1.0, "failed", "Failed", long_desc)
    if scen % 2:
        sa, sb = sb, sa            # the long payload is the one that gets interrupted

    def upd(st):
        def update():
            D.datetime = FrozenDatetimeModule(fixed)
            return st.update()
        return update

    s.watch = [out]
    s.targets = {"status.txt": path}
    s.loaders = {"status.txt": _load_status}
    s.update_a, s.update_b = upd(sa), upd(sb)
    s.update = s.update_a
    s.blocked = None
    s.describe.update({"pair": True, "long_description_bytes": len(long_desc), "long_is": "A" if scen % 2 else "B"})
    s.cleanup_dirs = [d]
    return s


def build_keyoutputs_pair(scen: int) -> Scenario:
    """Two OutputAgents of the same experiment (they share instanceDirectory.mtx_output)."""
    r = vlib.rng("C14", "pair", "keyoutputs", scen)
    s = Scenario("keyoutputs", scen)
    n = r.randint(1, 3)
    names = ["Key%03d" % i for i in range(n)]
    files = ["out%03d.txt" % i for i in range(n)]
    import experiment.runtime.output as O
    exp, agent_a, loc, shadow_out = make_output_agent(names, files)
    agent_b = O.OutputAgent(exp)
    agent_a.process_stage(0)       # previous version
    for k in names:
        agent_b.dataReferences[k]["status"]["description"] = "written by the second agent " + "b" * r.randint(20, 200)
    if scen % 2:
        agent_a, agent_b = agent_b, agent_a
    mtx = exp.instanceDirectory.mtx_output

    def blocked():
        if mtx.acquire(blocking=False):
            mtx.release()
            return False
        return True

    s.watch = [shadow_out]
    s.targets = {"output.txt": os.path.join(shadow_out, "output.txt"),
                 "output.json": os.path.join(shadow_out, "output.json")}
    s.loaders = {"output.txt": _load_dosini, "output.json": _load_json}
    s.update_a, s.update_b = (lambda: agent_a.process_stage(1)), (lambda: agent_b.process_stage(1))
    s.update = s.update_a
    s.blocked = blocked
    s.describe.update({"pair": True, "key_outputs": n})
    s.cleanup_dirs = [loc] + ([_shadow_root(shadow_out)] if _shadow_root(shadow_out) else [])
    s._keep = (exp, agent_a, agent_b)
    return s


PAIR_BUILDERS = {"status": build_status_pair, "keyoutputs": build_keyoutputs_pair}


def build_pair(writer: str, scen: int) -> Scenario:
    return PAIR_BUILDERS[writer](scen)


BUILDERS = {"status": build_status, "keyoutputs": build_keyoutputs, "details": build_details,
            "flowir_loop": build_flowir_loop, "instance_files": build_instance_files}


def build(writer: str, scen: int) -> Scenario:
    return BUILDERS[writer](scen)
