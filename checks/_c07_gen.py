"""C07 helper: seeded generator of FlowIR packages + store/load histories.

A case is a plain JSON dict (replayable):
  flowir      main FlowIR document (dict)            dowhile   DoWhile document (dict) or None
  uservars    list of user variable files (dicts)    platform  selected platform or None
  k0          loop iterations instantiated (stored) before the first reload
  cycles      [{update: bool, k_more: int}]          one reload (+explicit store) per entry, optionally
                                                     followed by further loop iterations on the RELOADED experiment
  emptied     plan of "explicitly empty" list options (see _add_explicit_empties), [] for ~45 % of the cases
  folders     None or top-level folders of the package (standalone FlowIR file + manifest with :copy / :link and
              nested targets, or folders / symlinks inside a package directory) + direct references into them
Packages mix: 1-3 platforms, global/stage/component variables that refer to each other, platform
overrides of variables / environments / blueprint / component `override`, user variable files whose
values look like variable references, replication through variables, a DoWhile document (shapes of the
C05 generator), environments.

Domain restrictions (avoid behaviour that belongs to other properties / is not settled by C07):
 * no variable references inside numeric blueprint fields (such packages do not load replicated: C11);
 * every variable that is referenced has a package default (user files only override);
 * options patched at run time through setOptionForNode are NOT part of the workload: they live in the
   replicated in-memory copy only and are documented as transient (Experiment.__init__ docstring);
 * the reload passes the same platform name that created the instance (what elaunch --restart does).
"""
from __future__ import annotations

import copy
import random
from typing import Any, Dict, List, Optional

import yaml

from checks import _c05_gen as G5

PLATFORMS = ["p1", "plat-two", "z9"]


TAG_TEMPLATES = ["%(known)s-%(replica)s", "r%(replica)s/%(known)s", "%(known)s.%(known)s-%(replica)s"]
CSCOPE = "CSCOPE"        # distinctive value of `known` at component scope


def _plain_base(r, idx, variant="ordinary"):
    """A small non-loop workflow: replicate-by-variable chain + plain components over 1-3 stages.

    variant 'reptag': stage 0 holds ONLY replicated components (src, foll) and a stage variable
        tag = <template with %(known)s and %(replica)s>; `known` is a global that src and/or foll override at
        component scope (value CSCOPE).  Plain components start at stage 1 (a non-replicated component in a stage
        whose variables mention %(replica)s does not load).
    variant 'workflow': a component `$import`s a document of type Workflow (returned as second value).
    """
    n_stages = r.randint(2, 3) if variant != "ordinary" else r.randint(1, 3)
    comps = []
    docs = {}
    with_repl = variant == "reptag" or r.random() < 0.6
    comps.append({"name": "src", "stage": 0, "command": {"executable": "echo", "arguments": "src"}})
    if with_repl:
        comps[0]["workflowAttributes"] = {"replicate": "%(nrep)s"}
        comps.append({"name": "foll", "stage": 0 if variant == "reptag" else r.randint(0, n_stages - 1),
                      "command": {"executable": "echo", "arguments": "stage0.src:ref -r %(replica)s"},
                      "references": ["stage0.src:ref"]})
        st = r.randint(max(comps[-1]["stage"], 1 if variant == "reptag" else 0), n_stages - 1)
        comps.append({"name": "agg", "stage": st,
                      "command": {"executable": "echo",
                                  "arguments": "stage%d.foll:output" % comps[-2 + 1]["stage"]},
                      "references": ["stage%d.foll:output" % comps[-2 + 1]["stage"]],
                      "workflowAttributes": {"aggregate": True}})
    for st in range(1 if variant == "reptag" else 0, n_stages):
        nm = "plain%s" % "abc"[st]
        c = {"name": nm, "stage": st, "command": {"executable": "echo", "arguments": "-n"}}
        prods = [p for p in comps if p["stage"] <= st and p["name"] in ("agg",) or
                 (p["name"].startswith("plain") and p["stage"] <= st)]
        if prods and r.random() < 0.7:
            p = r.choice(prods)
            ref = "stage%d.%s:%s" % (p["stage"], p["name"], r.choice(["ref", "output", "copy"]))
            c["references"] = [ref]
            c["command"]["arguments"] = "-n " + ref
        comps.append(c)
    doc = {"components": comps}
    if with_repl:
        doc["variables"] = {"default": {"global": {"nrep": r.randint(1, 3)}}}
    if variant == "reptag":
        v = doc["variables"]["default"]
        v["global"]["known"] = r.choice(["G", "glob", "7"])
        v["stages"] = {0: {"tag": r.choice(TAG_TEMPLATES)}}
        shadowers = r.choice([["src"], ["foll"], ["src", "foll"]])
        for c in comps[:2]:
            c["command"]["arguments"] += " %(tag)s"
            if c["name"] in shadowers:
                c["variables"] = {"known": CSCOPE}
    if variant == "workflow":
        imp_stage = r.randint(1, n_stages - 1)
        foreign = [c for c in comps if c["stage"] <= imp_stage and c["name"].startswith("plain")] or \
                  [c for c in comps if c["name"] == "plaina"]
        src_c = r.choice(foreign)
        method = r.choice(["ref", "output", "copy"])
        two = r.random() < 0.6 and imp_stage + 1 <= n_stages - 1 or r.random() < 0.3
        wf_comps = [{"name": "work", "stage": 0, "command": {"executable": "echo", "arguments": "-w inp:%s" % method},
                     "references": ["inp:%s" % method]}]
        if two:
            off = 1 if imp_stage + 1 <= n_stages - 1 and r.random() < 0.5 else 0
            wf_comps.append({"name": "post-work", "stage": off,
                             "command": {"executable": "echo", "arguments": "stage0.work:ref"},
                             "references": ["stage0.work:ref"]})
        docs["wf.yaml"] = {"type": "Workflow", "inputBindings": {"inp": {"type": method}}, "components": wf_comps}
        comps.append({"name": "imp-wf", "stage": imp_stage, "$import": "wf.yaml",
                      "bindings": {"inp": "stage%d.%s:%s" % (src_c["stage"], src_c["name"], method)}})
        if r.random() < 0.6 and imp_stage <= n_stages - 1:
            st = r.randint(imp_stage, n_stages - 1)
            comps.append({"name": "after-wf", "stage": st,
                          "command": {"executable": "echo", "arguments": "stage%d.work:output" % imp_stage},
                          "references": ["stage%d.work:output" % imp_stage]})
    return doc, docs


# ----------------------------------------------------------------------------- explicitly empty options
# Options whose value is a list and for which "explicitly empty" is a meaningful user choice: the component
# (or a narrower blueprint layer / the override of the selected platform) says [] where the layer it inherits
# from (FlowIR default, blueprint.default.global, blueprint.default.stages.N, blueprint.<selected>.global, the
# component's own base under an override) gives a NON-empty list.  Ground truth by construction: the plan below
# records which component gets which option emptied and where the non-empty inherited value sits.
EMPTY_OPTIONS = {
    "workflowAttributes.shutdownOn": [["KnownIssue"], ["KnownIssue", "SystemIssue"], ["custom-reason"]],
    "workflowAttributes.restartHookOn": [["KnownIssue"], ["ResourceExhausted", "KnownIssue"],
                                         ["UnknownIssue", "SystemIssue"]],
    "executors.pre": [[{"name": "lsf-dm-in", "payload": "in.dat"}], [{"name": "lsf-dm-in", "payload": "in-%(ga)s"}]],
    "executors.post": [[{"name": "lsf-dm-out", "payload": "out.dat"}]],
}


def _set_option(d: Dict[str, Any], option: str, value):
    a, b = option.split(".")
    d.setdefault(a, {})[b] = copy.deepcopy(value)


def _add_explicit_empties(r, flowir, dowhile, docs, platform, n_kinds):
    """Adds 1..n_kinds 'explicitly empty over inherited non-empty' constructions, each on its own option.
    Returns the plan: [{kind, option, component ('*' = every component in scope), stage (absolute, or None =
    any), inherited_from}]."""
    main = [c for c in flowir["components"] if "$import" not in c]
    inner = list((dowhile or {}).get("components", [])) + [c for d in docs.values() for c in d["components"]]
    kinds = ["default", "blueprint", "blueprint", "bp-over-bp"] + (["override", "blueprint-platform"] if platform else [])
    options = list(EMPTY_OPTIONS)
    r.shuffle(options)
    bp = flowir.setdefault("blueprint", {})
    plan = []
    for i in range(n_kinds):
        kind = r.choice(kinds)
        if i == 0 and platform and r.random() < 0.5:
            kind = r.choice(["override", "blueprint-platform"])     # the layers only a selected platform has
        if kind == "default":
            option = "workflowAttributes.restartHookOn"       # the only list option with a non-empty FlowIR default
            if option not in options:
                continue
            options.remove(option)
        else:
            if not options:
                break
            option = options.pop()
        inherited = r.choice(EMPTY_OPTIONS[option])
        if kind == "default":
            for c in r.sample(main + inner, min(len(main + inner), r.randint(1, 2))):
                _set_option(c, option, [])
                plan.append({"kind": kind, "option": option, "component": c["name"], "stage": None,
                             "inherited_from": "FlowIR default"})
        elif kind in ("blueprint", "blueprint-platform"):
            plat = platform if kind == "blueprint-platform" else "default"
            if r.random() < 0.4 and main:
                victim = r.choice(main)
                st = victim.get("stage", 0)
                _set_option(bp.setdefault(plat, {}).setdefault("stages", {}).setdefault(st, {}), option, inherited)
                victims = [victim] + [c for c in main if c.get("stage", 0) == st and c is not victim and r.random() < 0.3]
                where = "blueprint.%s.stages.%d" % (plat, st)
            else:
                _set_option(bp.setdefault(plat, {}).setdefault("global", {}), option, inherited)
                victims = r.sample(main + inner, min(len(main + inner), r.randint(1, 3)))
                where = "blueprint.%s.global" % plat
            for c in victims:
                _set_option(c, option, [])
                plan.append({"kind": kind, "option": option, "component": c["name"], "stage": None,
                             "inherited_from": where})
        elif kind == "override":
            for c in r.sample(main + inner, min(len(main + inner), r.randint(1, 2))):
                _set_option(c, option, inherited)
                _set_option(c.setdefault("override", {}).setdefault(platform, {}), option, [])
                plan.append({"kind": kind, "option": option, "component": c["name"], "stage": None,
                             "inherited_from": "the component itself (override.%s empties it)" % platform})
        else:   # bp-over-bp: a narrower blueprint layer empties what blueprint.default.global gives
            _set_option(bp.setdefault("default", {}).setdefault("global", {}), option, inherited)
            if platform and r.random() < 0.5:
                _set_option(bp.setdefault(platform, {}).setdefault("global", {}), option, [])
                plan.append({"kind": kind, "option": option, "component": "*", "stage": None,
                             "inherited_from": "blueprint.default.global (blueprint.%s.global empties it)" % platform})
            else:
                st = r.choice(main).get("stage", 0)
                _set_option(bp["default"].setdefault("stages", {}).setdefault(st, {}), option, [])
                plan.append({"kind": kind, "option": option, "component": "*", "stage": st,
                             "inherited_from": "blueprint.default.global (blueprint.default.stages.%d empties it)" % st})
    if not bp:
        del flowir["blueprint"]
    return plan


# ----------------------------------------------------------------------------- top-level folders (manifest)
# A package may bring its own top-level folders into the instance: a standalone FlowIR file + manifest
# ({target: "<source>:copy|link"}, nested targets allowed) or a package directory that simply contains them
# (real directories or symbolic links to directories).  Components may reference files / folders in there
# DIRECTLY (`shared/message.txt:copy`); the loader tells such a reference from a component reference only by
# knowing the top-level folders.  Names include ones that look like component names.
FOLDER_NAMES = ["shared", "assets", "plainz", "srcs", "foll9", "agg_in", "stage0files", "work2"]
FOLDER_FILES = ["message.txt", "table.csv", "sub/deep.txt"]


def _add_toplevel_folders(r, flowir, idx):
    """Returns {form: 'file'|'dir', folders: [{name, method, nested: None | {name, method}}], refs: [...]} and adds
    the direct references (references + arguments) to 1-3 components of the main document."""
    main = [c for c in flowir["components"] if "$import" not in c]
    taken = {c["name"] for c in flowir["components"]}
    names = [n for n in FOLDER_NAMES if n not in taken]
    r.shuffle(names)
    form = "file" if r.random() < 0.65 else "dir"
    folders = []
    for name in names[:r.randint(1, 3)]:
        method = "link" if r.random() < 0.6 else "copy"
        if not any(f["method"] == "link" for f in folders) and len(folders) == 0 and r.random() < 0.5:
            method = "link"
        nested = None
        if form == "file" and method == "copy" and r.random() < 0.5:
            # nested manifest key: <name>/extra is populated from another source, the parent is a real directory
            nested = {"name": "extra", "method": r.choice(["link", "copy"])}
        folders.append({"name": name, "method": method, "nested": nested})
    refs = []
    for c in r.sample(main, min(len(main), r.randint(1, 3))):
        used = set()
        for _ in range(r.randint(1, 2)):
            f = r.choice(folders)
            paths = [f["name"], "%s/%s" % (f["name"], r.choice(FOLDER_FILES)), "%s/sub" % f["name"]]
            if f["nested"]:
                paths.append("%s/extra/%s" % (f["name"], r.choice(FOLDER_FILES)))
            path = r.choice(paths)
            if path in used:
                continue
            used.add(path)
            ref = "%s:%s" % (path, r.choice(["ref", "copy", "link"]))
            c.setdefault("references", []).append(ref)
            cmd = c.setdefault("command", {})
            cmd["arguments"] = (cmd.get("arguments", "") + " " + ref).strip()
            refs.append({"component": c["name"], "ref": ref, "folder": f["name"], "method": f["method"]})
    return {"form": form, "folders": folders, "refs": refs}


def draw_case(r, idx: int, max_k: int) -> Dict[str, Any]:
    with_loop = (idx % 3 != 2)
    shape = None
    dowhile = None
    docs: Dict[str, Any] = {}
    variant = "loop"
    if with_loop:
        shape = G5.draw_shape(r, idx, 0, allow_repl_carried=False, allow_extras=False)   # that mechanism is C05's (known finding there)
        main_txt, dw_txt = G5.render(shape)
        flowir = yaml.safe_load(main_txt)
        dowhile = yaml.safe_load(dw_txt)
    else:
        variant = ["ordinary", "reptag", "workflow"][(idx // 3) % 3]
        flowir, docs = _plain_base(r, idx, variant)

    n_plat = [1, 2, 3][idx % 3] if idx < 6 else r.randint(1, 3)
    plats = r.sample(PLATFORMS, n_plat - 1)
    platform = None
    if plats:
        platform = r.choice(plats + ([None] if idx >= 6 else []))
    flowir["platforms"] = ["default"] + plats

    n_stages = 1 + max(c.get("stage", 0) for c in flowir["components"])
    if shape is not None:
        n_stages = max(n_stages, shape["max_stage"] + 1)

    # -- variables
    variables = flowir.setdefault("variables", {})
    dflt = variables.setdefault("default", {})
    g = dflt.setdefault("global", {})
    g.update({"ga": r.randint(1, 9), "gb": "%(ga)s-x", "gu": r.choice(["dflt", "%(gb)s/u"]),
              "gc": r.choice(["lit", 3, "a b"]), "sa": "glob-sa"})
    st_vars = dflt.setdefault("stages", {})
    for st in range(n_stages):
        if r.random() < 0.6:
            st_vars.setdefault(st, {})["sa"] = r.choice(["s%d-%%(ga)s" % st, "s%d" % st, "%(gc)s.%(gb)s"])
            if r.random() < 0.3:
                st_vars[st]["gc"] = "stage-gc-%d" % st
    for p in plats:
        pv = variables.setdefault(p, {})
        pg = pv.setdefault("global", {})
        if r.random() < 0.7:
            pg["ga"] = r.randint(10, 19)
        if r.random() < 0.5:
            pg["gc"] = "%s-gc" % p
        pg["pp_%s" % p.replace("-", "_")] = "only-%s" % p
        if r.random() < 0.5:
            st = r.randrange(n_stages)
            pv.setdefault("stages", {})[st] = {"sa": "%s-s%d-%%(gb)s" % (p, st)}

    # -- environments
    envs = flowir.setdefault("environments", {})
    envs["default"] = {"enva": {"DEFAULTS": "PATH", "FOO": "%(ga)s", "BAR": "bar:$FOO"},
                       "envb": {"ONLYB": "%(gc)s"}}
    for p in plats:
        if r.random() < 0.6:
            envs[p] = {"enva": {"FOO": "%s-%%(gb)s" % p, "BAZ": "$FOO:x"}}

    # -- blueprint
    if r.random() < 0.7:
        bp = flowir.setdefault("blueprint", {})
        bp["default"] = {"global": {"resourceManager": {"config": {"walltime": float(r.choice([30, 45, 120]))}}}}
        if r.random() < 0.5:
            bp["default"]["stages"] = {r.randrange(n_stages): {"command": {"environment": "envb"}}}
        for p in plats:
            if r.random() < 0.6:
                bp[p] = {"global": {"resourceRequest": {"numberThreads": r.randint(2, 4)}}}
                if r.random() < 0.4:
                    bp[p]["stages"] = {r.randrange(n_stages): {"workflowAttributes": {"maxRestarts": r.randint(1, 5)}}}

    # -- decorate components
    def decorate(c, in_loop=False):
        cmd = c.setdefault("command", {})
        args = cmd.get("arguments", "")
        extra = r.sample(["%(ga)s", "%(sa)s", "%(gb)s", "%(gu)s", "%(gc)s"], r.randint(0, 3))
        if r.random() < 0.5:
            c.setdefault("variables", {})["cv"] = r.choice(["c-%(gb)s", "lit-cv", 7, "%(sa)s+%(ga)s"])
            extra.append("%(cv)s")
        if r.random() < 0.2:
            c.setdefault("variables", {})["gc"] = "comp-gc"
        if extra:
            cmd["arguments"] = (args + " " + " ".join(extra)).strip()
        if r.random() < 0.4:
            cmd["environment"] = r.choice(["enva", "envb"])
        if r.random() < 0.3:
            c.setdefault("resourceRequest", {})["numberProcesses"] = r.randint(1, 4)
        if r.random() < 0.25:
            c.setdefault("workflowAttributes", {})["shutdownOn"] = ["KnownIssue"]
        if r.random() < 0.2:
            c.setdefault("workflowAttributes", {})["restartHookOn"] = ["ResourceExhausted", "KnownIssue"]
        for p in plats:
            if r.random() < 0.45:
                ov = {}
                if r.random() < 0.7:
                    ov["command"] = {"arguments": (args + " over-" + p + " %(ga)s").strip()}
                if r.random() < 0.5:
                    ov["resourceRequest"] = {"numberProcesses": r.randint(2, 8)}
                if r.random() < 0.4:
                    ov["variables"] = {"cv": "%s-cv" % p, "ovonly": "x-%(gb)s"}
                    c.setdefault("variables", {}).setdefault("ovonly", "base-ov")
                    if "command" in ov:
                        ov["command"]["arguments"] += " %(ovonly)s"
                if ov:
                    c.setdefault("override", {})[p] = ov

    for c in flowir["components"]:
        if "$import" not in c:
            decorate(c)
    if dowhile is not None:
        for c in dowhile["components"]:
            decorate(c, in_loop=True)
    for d in docs.values():
        for c in d["components"]:
            decorate(c)
    if variant == "reptag":
        # the layered scopes of `known` the stage variable could pick up instead of the component scope
        for p in plats:
            if r.random() < 0.5:
                variables[p].setdefault("global", {})["known"] = "%s-known" % p

    # -- user variable files
    uservars: List[Dict[str, Any]] = []
    for _ in range(r.choice([0, 1, 1, 2])):
        uv: Dict[str, Any] = {}
        gl = {}
        if r.random() < 0.7:
            gl["ga"] = r.randint(20, 29)
        if r.random() < 0.6:
            gl["gu"] = r.choice(["%(gb)s", "user-gu", "%(ga)s%(ga)s"])
        if r.random() < 0.3:
            gl["gc"] = "user gc"
        if "nrep" in g and r.random() < 0.4:
            gl["nrep"] = r.randint(1, 3)
        if gl:
            uv["global"] = gl
        if r.random() < 0.5:
            uv["stages"] = {r.randrange(n_stages): {"sa": r.choice(["user-%(ga)s", "user-sa"])}}
        if uv:
            uservars.append(uv)

    k0 = 0
    cycles = []
    n_cycles = r.choice([1, 2, 2, 3])
    if with_loop:
        k0 = [0, 1, 2, 12, 3, 10][idx % 6] if idx < 12 else r.randint(0, max_k)
        k0 = min(k0, max_k)
    for ci in range(n_cycles):
        cycles.append({"update": r.random() < 0.6, "k_more": (r.choice([0, 0, 1, 2]) if with_loop else 0)})
    # the replication count a user file sets must be honoured by the truth of the C05 shape; keep the
    # loop's own nrep variable out of user files (shape truth is not used by C07, only for rendering)
    probe = platform is not None and (idx % 2 == 0 or r.random() < 0.3)
    if variant == "reptag" and uservars and r.random() < 0.5:
        uservars[0].setdefault("global", {})["known"] = "user-known"
    # explicitly empty options (own random stream, drawn last: the rest of the case is what it was before)
    r_empty = random.Random(r.getrandbits(64))
    emptied = []
    if r_empty.random() < 0.55:
        emptied = _add_explicit_empties(r_empty, flowir, dowhile, docs, platform, r_empty.randint(1, 3))
    # top-level folders brought in by a manifest / contained in the package directory (own stream, drawn last)
    r_fold = random.Random(r.getrandbits(64))
    folders = None
    if r_fold.random() < 0.45:
        folders = _add_toplevel_folders(r_fold, flowir, idx)
    return {"folders": folders, "emptied": emptied, "variant": variant, "docs": docs, "default_reload_probe": probe, "idx": idx, "flowir": flowir, "dowhile": dowhile, "uservars": uservars, "platform": platform,
            "k0": k0, "cycles": cycles, "with_loop": with_loop}


def class_key(case: Dict[str, Any]) -> str:
    f = case["flowir"]
    comps = f["components"] + ((case["dowhile"] or {}).get("components", []))
    fo = case.get("folders")
    fkey = "-" if not fo else "%s:%s%s" % (fo["form"], "+".join(sorted({f["method"] for f in fo["folders"]})),
                                          "+nested" if any(f["nested"] for f in fo["folders"]) else "")
    return "%s|plats%d|sel%s|loop%d|k0=%s|cyc%s|uv%d|ovr%d|repl%d|bp%d|envp%d|empty:%s|folders:%s" % (
        case.get("variant", "?"), len(f["platforms"]), "D" if case["platform"] is None else "P", int(case["with_loop"]),
        "0" if case["k0"] == 0 else ("<10" if case["k0"] < 10 else ">=10"),
        "%d%s%s" % (len(case["cycles"]), "U" if any(c["update"] for c in case["cycles"]) else "n",
                    "+k" if any(c["k_more"] for c in case["cycles"]) else ""),
        len(case["uservars"]), int(any("override" in c for c in comps)),
        int(any("replicate" in c.get("workflowAttributes", {}) for c in comps)),
        int("blueprint" in f), int(len(f.get("environments", {})) > 1),
        "+".join(sorted({e["kind"] for e in case.get("emptied") or []})) or "-", fkey)
