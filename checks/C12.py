"""C12 — Task restarts stay within the configured policy.

History monitor: per component, the sequence of task launches (scripted-backend factory invocations),
the exit reason that preceded each one, the restart codes returned by Controller._restartComponent and
the restart-hook invocations.  Oracle: rt.oracles.c12_check (automaton written from the statement).
Workload: one/two component workflows on the `local` job type (real restart-hook protocol with a
generated hooks/<file>.py) and the `simulator` type (shortcut branch); every exit-reason letter, hook
answers (possible / not required / not possible / failed / raising / junk), maxRestarts, restartHookFile,
restartHookOn variants.  Thorough tier adds the exhaustive slice: all exit sequences of length <= 4 over a
5-letter alphabet x 4 hook answers on the default policy.
"""
from __future__ import annotations

import itertools
import os
import shutil
import sys

import vlib

vlib.bootstrap()

PROP = "C12"
LETTERS = {
    "S": {"reason": "Success"}, "K": {"reason": "KnownIssue"}, "Y": {"reason": "SystemIssue"},
    "U": {"reason": "UnknownIssue"}, "R": {"reason": "ResourceExhausted"},
    "F": {"launch_error": "OSError"}, "J": {"launch_error": "JobLaunchError"}, "X": {"launch_error": "Exception"},
    "Q": {"reason": "Killed"}, "C": {"reason": "Cancelled"},
    # a backend can also report a failed submission through the exit reason of a task it did create
    "B": {"reason": "SubmissionFailed"},
}
HOOK_ANSWERS = ["Possible", "NotRequired", "NotPossible", "HookFailed", "HookNotAvailable", "True", "False",
                "raiseIOError", "raiseValueError", "None", "42", "junk"]


def build(sc):
    """-> (flowir text, script, extra_files, refs, policies)"""
    import yaml
    comps = []
    extra = {}
    wa = dict(sc["wa"])
    variables = {}
    if sc["jobtype"] == "simulator":
        variables["sim_restart"] = sc.get("sim_restart", "yes")
    main = {"name": "Main", "stage": 0, "command": {"executable": "ls", "arguments": "-d ."},
            "resourceManager": {"config": {"backend": sc["jobtype"]}}}
    if wa:
        main["workflowAttributes"] = wa
    if variables:
        main["variables"] = variables
    comps.append(main)
    if sc.get("consumer"):
        comps.append({"name": "Cons", "stage": 0, "command": {"executable": "ls", "arguments": "-d Main:ref"},
                      "references": ["Main:ref"], "resourceManager": {"config": {"backend": sc["jobtype"]}}})
    hook_file = sc.get("hook_file")        # file to CREATE in hooks/ (may differ from what wa names)
    if hook_file:
        from rt import hookbridge
        extra["hooks/__init__.py"] = ""
        extra["hooks/" + hook_file] = hookbridge.HOOK_SOURCE
    script = {"default": {"reason": "Success", "duration": 0.5},
              "components": {"stage0.Main": [dict(LETTERS[l], duration=0.5) for l in sc["seq"]]},
              "hooks": {"Main": sc.get("hook_answers") or ["Possible"]}}
    return yaml.safe_dump({"components": comps}, sort_keys=False), script, extra


def run_job(job, w):
    from rt import harness, oracles, hookbridge
    harness.setup_process(job["K"])
    ty = None
    if job.get("ty_which"):
        # sleeps at line boundaries inside the engine life-cycle functions / controller callbacks (see rt.harness)
        # engine-slice children: occasional 10-40 ms pauses inside Engine.restart() itself, so that the kills a second
        # thread delivers "while restart() is executing" land at many different lines of it
        ty = harness.install_targeted_yield(p=0.15, max_sleep=0.004, seed=job.get("ty_seed", 0), which=job["ty_which"],
                                            extra_long=())
    for sc in job["scenarios"]:
        if "steps" in sc:
            run_engine_scenario(sc, w, job)
            continue
        if sc.get("kind") == "repeating":
            run_repeating_scenario(sc, w, job)
            continue
        flowir, script, extra = build(sc)
        policy = oracles.c12_policy(sc["wa"])
        cap = len(sc["seq"]) + 2     # launches can never exceed the script length + the implicit final success
        loc = vlib.mkscratch("c12")
        hookbridge.reset()
        try:
            r = harness.run_scenario(flowir, script, loc, perturb_seed=sc["pseed"], jitter_p=sc.get("jitter_p", 0.2),
                                     jitter_max=0.01, storm=sc.get("storm", False),
                                     watchdog_s=job.get("watchdog_s", 120.0), extra_files=extra, max_launches=cap)
        finally:
            shutil.rmtree(loc, ignore_errors=True)
        w.evaluated()
        if r["build_error"]:
            w.count("build_errors")
            w.note_inconclusive("generated workflow did not load: %s | %s" % (r["build_error"], sc))
            continue
        ev = r["events"]
        viol, cnt = oracles.c12_check("stage0.Main", policy, ev)
        for k, v in cnt.items():
            w.count(k, v)
        hist = "".join(("L" if e["kind"] == "launch" else "x") for e in ev
                       if e["comp"] == "stage0.Main" and e["kind"] in ("launch", "exit"))
        w.distinct("%s|%s|%s|%s|%s" % (sc["seq"], sc["jobtype"], sorted(sc["wa"].items()), sc.get("hook_answers"),
                                      sc.get("hook_file")))
        if r["watchdog_fired"]:
            w.count("watchdog_fired")
            w.note_inconclusive("watchdog fired for %s: %s" % (sc, r.get("stuck_diag")))
        if r.get("runaway"):
            w.count("runaway_cut")
        final = r["final_states"].get("stage0.Main")
        if not r["watchdog_fired"] and final not in ("finished", "failed", "component_shutdown"):
            viol.append({"clause": "component-without-final-state-at-end", "state": final})
        for v in viol:
            w.violation("%s %s" % (v["clause"], {k: v[k] for k in v if k not in ("clause", "history")}),
                        {"scenario": sc, "policy": policy, "violation": v, "final": final,
                         "trace": [{k: e[k] for k in e if k not in ("thread", "preds", "graph_preds")} for e in ev
                                   if e["comp"] in ("stage0.Main", "Main") and e["kind"] not in ("output",)][:120]},
                        finding_key=classify(v, sc, policy))
        if len(w.samples) < 1:
            w.sample({"scenario": sc, "policy": policy, "final": final, "launches": cnt["launches"],
                      "history": [(e["kind"], e.get("reason") or e.get("launch_error") or e.get("code"))
                                  for e in ev if e["comp"] == "stage0.Main" and
                                  e["kind"] in ("launch", "exit", "restartComponent.exit", "cs.finish")][:30]})


def run_engine_scenario(sc, w, job):
    """Second slice: a real Engine driven at its own API (run / restart / kill)."""
    from rt import enginedrive, oracles
    policy = oracles.c12_policy(sc["wa"])
    loc = vlib.mkscratch("c12e")
    try:
        r = enginedrive.run_program(sc, loc, watchdog_s=job.get("watchdog_s", 90.0))
    finally:
        shutil.rmtree(loc, ignore_errors=True)
    w.evaluated()
    w.count("eng_runs")
    if r["build_error"]:
        w.count("build_errors")
        w.note_inconclusive("engine-slice scenario did not load: %s" % r["build_error"])
        return
    viol, cnt = enginedrive.judge(sc, policy, r)
    for k, v in cnt.items():
        w.count(k, v)
    w.distinct("eng|%s|%s|%s" % ("".join(e.get("reason", e.get("launch_error", "?"))[0] for e in sc["seq"]),
                                 [(st["op"], st.get("after")) for st in sc["steps"]], sorted(sc["wa"].items())))
    for v in viol:
        w.violation("engine-slice %s %s" % (v["clause"], {k: v[k] for k in v if k != "clause"}),
                    {"scenario": sc, "policy": policy, "violation": v,
                     "trace": [{k: e[k] for k in e if k not in ("thread", "preds", "graph_preds")} for e in r["events"]
                               if e["kind"] not in ("storm.wake", "output")][:120]}, finding_key=classify(v, sc, policy))


def run_repeating_scenario(sc, w, job):
    """Third slice: RepeatingEngine.restart (at most one, only after ResourceExhausted)."""
    from rt import enginedrive
    loc = vlib.mkscratch("c12r")
    try:
        r = enginedrive.run_repeating_restart(sc, loc, watchdog_s=job.get("watchdog_s", 90.0))
    finally:
        shutil.rmtree(loc, ignore_errors=True)
    w.evaluated()
    w.count("rep_runs")
    if r["build_error"]:
        w.count("build_errors")
        w.note_inconclusive("repeating-slice scenario did not load: %s" % r["build_error"])
        return
    viol, cnt = enginedrive.judge_repeating(sc, r)
    for k, v in cnt.items():
        w.count(k, v)
    w.distinct("rep|%s|%s" % ([e.get("reason") for e in sc["obs_script"]], sc["obs_tail"].get("reason")))
    for v in viol:
        w.violation("repeating-slice %s %s" % (v["clause"], {k: v[k] for k in v if k != "clause"}),
                    {"scenario": sc, "violation": v,
                     "trace": [{k: e[k] for k in e if k not in ("thread", "preds", "graph_preds")} for e in r["events"]
                               if e["kind"] in ("launch", "exit", "drive.restart", "drive.dead", "engine.kill",
                                                "notify_all_producers_finished")][:80]}, finding_key=None)


def gen_repeating_scenario(rng):
    reasons = ["ResourceExhausted", "ResourceExhausted", "KnownIssue", "Success", "SystemIssue"]
    sc = {"kind": "repeating", "retries": rng.choice([0, 0, 1]),
          "obs_script": [{"reason": rng.choice(reasons), "duration": 0.5} for _ in range(rng.randint(0, 2))],
          "obs_tail": {"reason": rng.choice(reasons), "duration": 0.5}, "notify_at": rng.choice([0.5, 3.0])}
    if rng.random() < 0.5:
        # the last regular execution is interrupted (ResourceExhausted) and the submission of the RESTARTED task
        # fails (backend down): the single allowed restart has been used up all the same
        sc["obs_script"] = [{"reason": "ResourceExhausted", "duration": 0.5}]
        sc["obs_tail"] = {"launch_error": rng.choice(["OSError", "JobLaunchError"])}
        sc["retries"] = 0
    return sc


def gen_engine_scenario(rng):
    wa = {}
    mr = rng.choice([None, None, 1, 2, 5, -1])
    if mr is not None:
        wa["maxRestarts"] = mr
    on = rng.choice([None, None, ["ResourceExhausted", "KnownIssue"]])
    if on is not None:
        wa["restartHookOn"] = on
    restartable = on or ["ResourceExhausted"]
    n = rng.randint(2, 5)
    seq = [{"reason": rng.choice(restartable + ["ResourceExhausted"]), "duration": rng.choice([4.0, 6.0])} for _ in range(n)]
    steps = []
    for i in range(n):
        steps.append({"op": "wait_dead"})
        if rng.random() < 0.5:
            # a second thread kills the engine WHILE restart() is executing (0-30 ms after it was entered); the engine
            # must then end Killed without running a task to its own exit
            steps.append({"op": "restart", "concurrent_kill": rng.choice(["alive", "alive", "alive+1", "alive+3", 0.0, 0.002,
                                                                        0.005, 0.01])})
            steps.append({"op": "wait_dead"})
            steps.append({"op": "restart"})
            continue
        steps.append({"op": "restart"})
        r = rng.random()
        if r < 0.45:
            # kill inside the window between restart() and the delayed launch of the new task (launch at ~6 s)
            steps.append({"op": "kill", "after": rng.choice([0.5, 1.5, 3.0, 4.0])})
            steps.append({"op": "wait_dead"})
            steps.append({"op": "restart"})
        elif r < 0.65:
            # kill well inside the run of the new task (launched at ~6 s, runs >= 4 s)
            steps.append({"op": "kill", "after": rng.choice([7.5, 8.0])})
            steps.append({"op": "wait_dead"})
            steps.append({"op": "restart"})
    return {"jobtype": rng.choice(["local", "simulator"]), "wa": wa, "seq": seq, "steps": steps,
            "hook_file": rng.choice([None, "restart.py"]), "hook_answers": ["Possible"]}


def classify(v, sc, policy):
    return None


if "--worker" in sys.argv:
    vlib.worker_main(run_job)


def gen_scenario(rng):
    jobtype = rng.choice(["local", "local", "simulator"])
    wa = {}
    mr = rng.choice([None, None, 0, 1, 2, 5, -1])
    if mr is not None:
        wa["maxRestarts"] = mr
    hf = rng.choice([None, None, "", "custom_restart.py", "restart.py"])
    if hf is not None:
        wa["restartHookFile"] = hf
    on = rng.choice([None, None, ["ResourceExhausted"], ["ResourceExhausted", "KnownIssue"], ["KnownIssue", "SystemIssue"],
                     ["SubmissionFailed", "ResourceExhausted"], ["UnknownIssue"], []])
    if on is not None:
        wa["restartHookOn"] = on
    if rng.random() < 0.2:
        wa["shutdownOn"] = [rng.choice(["KnownIssue", "SystemIssue", "ResourceExhausted"])]
    # which hook file exists in the package
    hook_file = rng.choice([None, "restart.py", "restart.py", hf if hf else "restart.py"])
    restartable = (on if on is not None else ["ResourceExhausted"])
    rl = [l for l, e in LETTERS.items() if e.get("reason") in restartable] or ["R"]
    n = rng.randint(1, 9)
    # bias towards letters that keep the run going so that bounds are actually approached
    pool = rl * 4 + ["F", "J", "B"] + list(LETTERS)
    if "SubmissionFailed" in restartable:
        pool += ["F", "J", "B"] * 2
    seq = "".join(rng.choice(pool) for _ in range(n))
    if rng.random() < 0.25:
        seq = rng.choice(rl) * rng.randint(3, 9)
    if rng.random() < 0.2:
        # runs of failed submissions, reported by an exception at task creation, by the task's exit reason, or mixed
        k = rng.randint(4, 9)
        seq = rng.choice(["F" * k, "J" * k, "B" * k, "".join(rng.choice("FJB") for _ in range(k))])
    answers = [rng.choice(HOOK_ANSWERS if rng.random() < 0.5 else ["Possible", "HookNotAvailable", "True"])
               for _ in range(rng.randint(1, 3))]
    return {"jobtype": jobtype, "wa": wa, "hook_file": hook_file, "seq": seq, "hook_answers": answers,
            "sim_restart": rng.choice(["yes", "no"]), "consumer": rng.random() < 0.25,
            "pseed": rng.randrange(1 << 30), "jitter_p": rng.choice([0.0, 0.3]), "storm": rng.random() < 0.3}


def exhaustive_slice():
    out = []
    for n in range(1, 5):
        for seq in itertools.product("SKRFQ", repeat=n):
            s = "".join(seq)
            if "S" in s[:-1]:
                continue        # nothing happens after a success: covered by the shorter sequence
            for ans in ("Possible", "NotRequired", "NotPossible", "raiseValueError"):
                out.append({"jobtype": "local", "wa": {}, "hook_file": "restart.py", "seq": s, "hook_answers": [ans],
                            "consumer": False, "pseed": 0, "jitter_p": 0.0, "storm": False})
    return out


def main():
    c = vlib.Check(PROP, "fault_enumeration",
                   rule="one evaluation = one controller run of a component with a scripted sequence of exit reasons / "
                        "submission failures, a restart policy and scripted restart-hook answers; distinct = distinct "
                        "(sequence, job type, policy, hook answers, hook file) tuple",
                   assumptions=["scripted backend is faithful to the Task API", "bounds are judged on recorded launch "
                                "events; a run is cut by the harness when the policy is exceeded by 2 launches"])
    thorough = c.tier == "thorough"
    K = float(os.environ.get("VERIF_K", "20"))
    rp = vlib.load_replay(sys.argv)
    if rp is not None:
        vlib.fanout("checks.C12", [{"K": K, "scenarios": [rp["witness"]["scenario"]] * 2}], c, 600)
        c.floor("launches", 1)
        sys.exit(c.finish())
    budget = float(os.environ.get("VERIF_BUDGET_S", "780" if thorough else "55"))
    floor_runs = 5000 if thorough else 250
    per_child = 14
    rnd = 0
    if thorough:
        ex = exhaustive_slice()
        jobs = [{"K": K, "scenarios": ex[i:i + per_child]} for i in range(0, len(ex), per_child)]
        vlib.fanout("checks.C12", jobs, c, timeout=1500)
        c.extra["exhaustive_slice"] = {"scenarios": len(ex), "alphabet": "S K R F(SubmissionFailed) Q(Killed)",
                                       "max_len": 4, "hook_answers": 4, "exhaustive": True}
    while not c.violations:
        rng = vlib.rng(PROP, rnd)
        scs = [gen_scenario(rng) for _ in range(vlib.NPROC * per_child)]
        jobs = [{"K": K, "scenarios": scs[i:i + per_child]} for i in range(0, len(scs), per_child)]
        # engine slice on a quarter of the children (K=10: the kill placement needs wider real-time margins)
        for j in jobs[::4]:
            j["K"] = 10.0
            j["scenarios"] = [gen_engine_scenario(rng) for _ in range(6)] + [gen_repeating_scenario(rng) for _ in range(4)]
            j["engine_slice"] = True
        for i, j in enumerate(jobs):
            if j.get("engine_slice"):
                j["ty_which"] = "lifecycle"
                j["ty_seed"] = rnd * 1000 + i
                continue
            # every second child: yield injection inside the engine life cycle / controller callbacks
            if (i + rnd) % 2 == 1:
                j["ty_which"] = ("lifecycle", "controller", "all")[((i + rnd) // 2) % 3]
                j["ty_seed"] = rnd * 1000 + i
        vlib.fanout("checks.C12", jobs, c, timeout=1500)
        rnd += 1
        if c.evaluations >= floor_runs or c.elapsed() > budget:
            break
    c.extra["dilation_K"] = K
    c.floor("relaunches_judged", 150)
    c.floor("restarts_counted", 50)
    c.floor("resubmissions_counted", 50)
    c.floor("refusals_followed_by_final", 30)
    c.floor("hook_calls", 20)
    c.floor("eng_restart_calls", 30)
    c.floor("eng_kills_in_prelaunch_window", 5)
    c.floor("rep_restart_calls", 8)
    sys.exit(c.finish())


if __name__ == "__main__":
    main()
