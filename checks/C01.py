"""C01 — Tasks start only after everything they consume from is finished.

Monitor: at every task launch (scripted-backend factory) and every ComponentState.run(), inside the
recorder's critical section, the state of every component the launched one consumes from is read.
Oracle: rt.oracles.c01_check against the by-construction expansion of the generated DAG.
Workload: random DAGs (stages, replicas, aggregators, repeating observers, shutdownOn) x exit scripts
x seeded schedule perturbation (sleeps around finishedCheck / postMortemCheck / _schedule / finish,
scheduler storm) on the real Controller / ComponentState / Engine under uniform time dilation.
"""
from __future__ import annotations

import json
import os
import shutil
import sys
import time

import vlib

vlib.bootstrap()

PROP = "C01"


def run_job(job, w):
    from rt import harness, wfgen, oracles
    harness.setup_process(job["K"])
    ty = None
    if job.get("targeted_yield"):
        which = job.get("ty_which", "emission")
        ty = harness.install_targeted_yield(p=0.3 if which == "emission" else 0.15, max_sleep=0.004,
                                            seed=job.get("line_seed", 0), which=which)
    ly = None
    if job.get("line_yield"):
        ly = harness.install_line_yield(job["line_yield"], seed=job.get("line_seed", 0))
    for sc in job["scenarios"]:
        is_dw = sc.get("kind") == "dowhile"
        if is_dw:
            wf, script, nodes = {"dowhile": {k: sc[k] for k in ("K", "fail_at", "loop_stage", "after_stage", "carried")}}, \
                sc["script"], sc["nodes"]
            flowir, extra = sc["main"], {"conf/dowhile.yaml": sc["dw"]}
            w.count("dowhile_runs")
        else:
            wf, script = sc["wf"], sc["script"]
            nodes = wfgen.expand(wf)
            flowir, extra = wfgen.to_flowir(wf), None
        loc = vlib.mkscratch("c01")
        try:
            r = harness.run_scenario(flowir, script, loc, perturb_seed=sc["pseed"],
                                     jitter_p=sc["jitter_p"], jitter_max=sc["jitter_max"], storm=sc["storm"],
                                     watchdog_s=job.get("watchdog_s", 120.0), continue_on_error=False,
                                     extra_files=extra, slow_stagein=sc.get("slow_stagein"), pauses=sc.get("pauses"),
                                     pause_on_launch=sc.get("pause_on_launch"))
        finally:
            shutil.rmtree(loc, ignore_errors=True)
        w.evaluated()
        if r["build_error"]:
            w.count("build_errors")
            w.note_inconclusive("generated workflow did not load: %s" % r["build_error"])
            continue
        if sorted(nodes) != r["graph_nodes"]:
            w.count("expansion_mismatch" if not is_dw else "dowhile_expansion_mismatch")
        if is_dw:
            w.count("dowhile_iterations_instantiated", sum(1 for n in r["graph_nodes"] if n.endswith("#cond")) - 1)
            if any(n.endswith(".after") and any(e["kind"] == "launch" and e["comp"] == n for e in r["events"])
                   for n in nodes):
                w.count("dowhile_outside_consumer_launches_checked")
        ev = r["events"]
        viol, cnt = oracles.c01_check(nodes, ev)
        for k, v in cnt.items():
            w.count(k, v)
        win = oracles.c01_window_exercised(ev)
        w.count("scheduler_passes_in_final_unrecorded_window", win)
        if win:
            w.count("runs_with_window_exercised")
        if r["watchdog_fired"]:
            w.count("watchdog_fired")
        w.count("events", len(ev))
        w.distinct(harness.signature(ev))
        if cnt["launch_checks"]:
            w.count("runs_with_launch_checks")
        for v in viol:
            w.violation("%s: %s launched while producer %s is %s" % (
                v["clause"], v["consumer"], v["producer"], v.get("producer_state", "")),
                {"scenario": sc, "violation": v, "outcomes": [s["outcome"] for s in r["stages"]],
                 "trace": [e for e in ev if e["kind"] in ("launch", "exit", "cs.run", "cs.finish", "fakeFinish",
                                                          "finishedCheck.enter", "finishedCheck.exit")][:200]})
        if len(w.samples) < 1:
            w.sample({"workflow": wf, "script_components": script["components"],
                      "outcomes": [s["outcome"] for s in r["stages"]], "final_states": r["final_states"],
                      "launch_events": [{k: e[k] for k in ("seq", "kind", "comp", "preds") if k in e}
                                        for e in ev if e["kind"] in ("launch", "cs.run")][:12]})


    if ty:
        w.count("targeted_yields_injected", ty["yields"])
    if ly:
        w.count("line_events", ly["lines"])
        w.count("line_yields_injected", ly["yields"])
        w.count("runs_under_line_yield", len(job["scenarios"]))


if "--worker" in sys.argv:
    vlib.worker_main(run_job)


def make_scenarios(n, salt, thorough):
    from rt import scenarios
    rng = vlib.rng(PROP, salt)
    out = []
    for i in range(n):
        pair = scenarios.gen_pair(rng, max_stages=3, max_comps=7 if not thorough else 8,
                                  p_repeat=rng.choice([0.15, 0.3, 0.45]))
        if i % 3 == 1:
            quick_subjects(rng, pair)
        out.append({**pair, "pseed": rng.randrange(1 << 30), "jitter_p": rng.choice([0.0, 0.2, 0.5, 0.8]),
                    "jitter_max": rng.choice([0.005, 0.02, 0.05]), "storm": rng.random() < 0.7})
    # DoWhile slice: every 10th scenario is a loop package (up to 3 further iterations in quick, 12 in thorough)
    from rt import wfgen
    for i in range(0, n, 10):
        dw = wfgen.gen_dowhile(rng, max_iter=3 if not thorough else rng.choice([3, 3, 12]))
        out[i] = {**dw, "pseed": rng.randrange(1 << 30), "jitter_p": rng.choice([0.0, 0.3, 0.6]),
                  "jitter_max": 0.02, "storm": rng.random() < 0.5}
    # pause / resume: the controller is put to sleep and woken up again (its own sleep() / wake_up() interface) 1-3
    # times during every DoWhile run and a quarter of the others; finished-notifications that arrive meanwhile are
    # postponed and replayed by wake_up()
    prng = vlib.rng(PROP, salt, "pauses")
    for i, sc in enumerate(out):
        if sc.get("kind") == "dowhile" or i % 4 == 2:
            t = 0.0
            ps = []
            for _ in range(prng.randint(1, 3)):
                t += prng.choice([2.0, 4.0, 6.0, 9.0, 14.0])
                d = prng.choice([1.0, 3.0, 6.0, 12.0])
                ps.append([t, d])
                t += d
            sc["pauses"] = ps
        if sc.get("kind") == "dowhile" and prng.random() < 0.6:
            # ... or exactly around every loop condition: the controller sleeps from the launch of each condition task
            # until a few virtual seconds after its exit, so the next iteration is instantiated by wake_up()'s replay
            sc.pop("pauses", None)
            sc["pause_on_launch"] = {"match": "#cond", "dur": prng.choice([3.0, 5.0, 8.0])}
    return out


def quick_subjects(rng, pair):
    """Subjects (same-stage producers of a repeating observer) that end badly within milliseconds of being launched:
    their exit, post-mortem check and finished-notification land around the moment the scheduler decides about, stages
    in and runs the observer - the window between the scheduler's decision and the launch."""
    from rt import wfgen
    nodes = wfgen.expand(pair["wf"])
    comps = pair["script"]["components"]
    for ref, nd in nodes.items():
        if not nd.get("repeat"):
            continue
        for p in nd["preds"]:
            pn = nodes[p]
            if pn["stage"] != nd["stage"] or pn.get("repeat") or rng.random() < 0.3:
                continue
            so = pn.get("shutdownOn") or []
            reason = so[0] if (so and rng.random() < 0.7) else rng.choice(["KnownIssue", "SystemIssue"])
            comps[p] = [{"reason": reason, "duration": rng.choice([0.02, 0.05, 0.1, 0.2, 0.4])}]
            if rng.random() < 0.6:
                # ... and the observer's stage-in is slow enough (30-60 virtual s) for the subject's task to exit, its
                # 25 s post-mortem analysis to end and its finished-notification to be handled meanwhile
                pair.setdefault("slow_stagein", {})[ref] = rng.choice([30.0, 40.0, 60.0])
    pair["quick_subjects"] = True


def main():
    c = vlib.Check(PROP, "exploration",
                   rule="one evaluation = one complete controller execution of a generated workflow under one "
                        "perturbation seed; distinct = distinct interleaving signature (sequence of "
                        "(event kind, component) over launch/exit/run/finish/finishedCheck/postMortem events)",
                   assumptions=["scripted backend is faithful to the Task API",
                                "'consumes from' = by-construction expansion of the generated DAG (cross-checked "
                                "against graph.predecessors; mismatches counted, not judged here)",
                                "uniform time dilation preserves the ratios between the runtime's timers"])
    thorough = c.tier == "thorough"
    rp = vlib.load_replay(sys.argv)
    K = float(os.environ.get("VERIF_K", "20"))
    if rp is not None:
        jobs = [{"K": K, "scenarios": [rp["witness"]["scenario"]] * 3}]
        vlib.fanout("checks.C01", jobs, c, timeout=600)
        c.floor("launch_checks", 1)
        sys.exit(c.finish())
    budget = float(os.environ.get("VERIF_BUDGET_S", "780" if thorough else "55"))
    floor_runs = 8000 if thorough else 250
    floor_checks = 40000 if thorough else 1200
    per_child = 10
    rnd = 0
    while True:
        n_children = vlib.NPROC
        scs = make_scenarios(n_children * per_child, rnd, thorough)
        jobs = [{"K": K if not thorough else [10.0, 20.0, 20.0, 30.0][(rnd + i) % 4],
                 "scenarios": scs[i * per_child:(i + 1) * per_child]} for i in range(n_children)]
        for i, j in enumerate(jobs):
            j["targeted_yield"] = (rnd + i) % 2 == 0     # half of the children: sleeps inside the snapshot hand-offs
            j["line_seed"] = rnd * 100 + i
            # ... or between the critical sections of the controller's callbacks (finishedCheck, postMortemCheck,
            # _stopComponents, finish / restart / kill)
            j["ty_which"] = ("emission", "controller", "both", "lifecycle", "all")[((rnd + i) // 2) % 5]
        if thorough:
            # LINE-level yield injection on ~10% of the children (slow: K=10 and fewer scenarios)
            for i, j in enumerate(jobs):
                if (rnd + i) % 10 == 1:
                    j.update({"K": 10.0, "line_yield": 0.02, "line_seed": rnd * 100 + i, "targeted_yield": False,
                              "scenarios": j["scenarios"][:4], "watchdog_s": 400.0})
        vlib.fanout("checks.C01", jobs, c, timeout=900)
        rnd += 1
        enough = c.evaluations >= floor_runs and c.counters.get("launch_checks", 0) >= floor_checks
        if c.violations or enough or c.elapsed() > budget:
            break
    c.extra["dilation_K"] = K
    c.extra["rounds"] = rnd
    c.floor("launch_checks", 300)
    c.floor("runs_with_window_exercised", 5)
    c.floor("subject_exception_used", 1)
    c.floor("dowhile_outside_consumer_launches_checked", 3)
    sys.exit(c.finish())


if __name__ == "__main__":
    main()
