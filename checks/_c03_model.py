"""C03 helper: generator of abstract replicated workflows, the by-construction expected expansion,
the structural hazard detector and the simulation of the known textual-rewrite mechanism.

Nothing in here imports the repository: the expected expansion is computed from the abstract
DAG alone (property statement), the hazard detector / simulator only serve slicing and the
known-finding classifier (they are *not* the oracle).

Abstract model (JSON-able so that a witness replays exactly):
  model = {"comps": [comp...], "order": [indices, order of `components` in the document],
           "gvars": {...}, "svars": {stage: {...}}}
  comp  = {"name", "stage", "rep": None | {"n": int, "form": "int"|"str"|"gvar"|"svar"|"cvar", "var": str},
           "agg": bool, "refs": [ref...], "args": [token...]}
  ref   = {"p": index of the producer comp, "file": None|str, "method": str, "decl": "abs"|"rel"}
  token = ["lit", text] | ["ref", index into refs, "abs"|"rel"]
A producer always has a smaller index than its consumers (acyclic by construction).
"""
from __future__ import annotations

import re
from typing import Any, Dict, List, Optional, Tuple

# characters that may be part of a reference token (what FlowIR's own discover_reference_strings uses)
REFCHARS = set("abcdefghijklmnopqrstuvwxyzABCDEFGHIJKLMNOPQRSTUVWXYZ0123456789._/-")
SPECIAL = {"input", "data", "bin", "conf"}

ROOTS = ["A", "X", "a", "Gen", "ab", "C-d", "A.B", "x_y", "A_1x", "ref", "Out", "B", "stageA", "o-p", "Q"]
ARG_METHODS = ["ref", "ref", "ref", "output"]
DECL_ONLY_METHODS = ["copy", "link", "copyout", "extract"]
SEP_BEFORE = [" ", "=", ",", '"', "'", " --opt=", " -f ", ";", "("]
SEP_AFTER = [" ", ",", '"', "'", ";", ")"]


def valid_name(n: str) -> bool:
    if not n or n in SPECIAL or n.lower() in SPECIAL:
        return False
    if not re.fullmatch(r"[A-Za-z0-9._-]*[A-Za-z_-]", n):
        return False
    if n[0] in "-.":
        return False
    if re.match(r"stage[0-9]+", n):      # would be read as a stage prefix by the reference parser
        return False
    if ".." in n:
        return False
    return True


def family(root: str) -> List[str]:
    r = root
    out = [r, "B" + r, r + "B", "x" + r, r + "x", r + r, r + "-" + r, r + "." + r, r + "_" + r,
           r.swapcase(), r + "_1x", "B" + r + "B", r + "-B", "Z." + r]
    seen, res = set(), []
    for n in out:
        if valid_name(n) and n not in seen:
            seen.add(n)
            res.append(n)
    return res


def spell(stage: Optional[int], name: str, file: Optional[str], method: str) -> str:
    s = name if file is None else "%s/%s" % (name, file)
    s = "%s:%s" % (s, method)
    if stage is not None:
        s = "stage%d.%s" % (stage, s)
    return s


# --------------------------------------------------------------------------- generator

def gen_model(rng, mode: str = "mixed", big: bool = False) -> Dict[str, Any]:
    """Rejection-sample for 'hazard' mode so that most of those documents do carry the mechanism."""
    m = _gen_model(rng, mode, big)
    if mode == "hazard":
        for _ in range(12):
            if any(hazards(m, i) for i in range(len(m["comps"]))):
                break
            m = _gen_model(rng, mode, big)
    return m


def _gen_model(rng, mode: str = "mixed", big: bool = False) -> Dict[str, Any]:
    """mode: 'clean' resamples consumers so that the known textual-overlap mechanism cannot
    trigger (names still overlap), 'hazard' plants overlap pairs on purpose, 'mixed' leaves it to chance."""
    n_stage = rng.choice([1, 2, 2, 3])
    roots = rng.sample(ROOTS, rng.choice([1, 1, 2]))
    pool: List[str] = []
    for r in roots:
        pool += family(r)
    pool = list(dict.fromkeys(pool))
    rng.shuffle(pool)
    pool = pool[: rng.randint(4, 9)]
    n_comp = rng.randint(3, 9 if big else 7)
    stages = sorted(rng.randrange(n_stage) for _ in range(n_comp))
    remap = {s: k for k, s in enumerate(sorted(set(stages)))}   # stage indices must be contiguous from 0
    stages = [remap[s] for s in stages]
    comps: List[Dict[str, Any]] = []
    used = set()
    for i in range(n_comp):
        st = stages[i]
        # same name in different stages on purpose
        prior = [c["name"] for c in comps if c["stage"] != st]
        cand = None
        for _ in range(20):
            n = rng.choice(prior) if prior and rng.random() < 0.3 else rng.choice(pool)
            if (st, n) not in used:
                cand = n
                break
        if cand is None:
            cand = "U%sq" % "abcdefghij"[i]
        used.add((st, cand))
        comps.append({"name": cand, "stage": st, "rep": None, "agg": False, "refs": [], "args": []})

    nvals = [1, 2, 2, 3, 3, 4, 5, 10, 11, 12] if not big else [1, 2, 3, 4, 7, 10, 11, 12, 13, 21]
    n1 = rng.choice(nvals)
    n_points = rng.choice([1, 1, 2])
    points = rng.sample(range(max(1, n_comp - 1)), min(n_points, max(1, n_comp - 1)))
    forms = ["int", "int", "str", "gvar", "gvar", "svar", "cvar"]
    for k, p in enumerate(points):
        comps[p]["rep"] = {"n": n1, "form": rng.choice(forms), "var": "nrep%d" % k}

    for i in range(n_comp):
        _gen_consumer(rng, comps, i, mode)

    model = {"comps": comps, "order": list(range(n_comp)), "gvars": {}, "svars": {}}
    # a second replica count in a region that never meets the first one
    if len(points) == 2 and rng.random() < 0.5:
        n2 = rng.choice([v for v in nvals if v != n1])
        comps[points[1]]["rep"]["n"] = n2
        if counts(model) is None:
            comps[points[1]]["rep"]["n"] = n1
    if mode == "clean":
        for _ in range(8):
            hz = [i for i in range(n_comp) if hazards(model, i)]
            if not hz:
                break
            for i in hz:
                _gen_consumer(rng, comps, i, "clean")
            if counts(model) is None:
                for p in points:
                    comps[p]["rep"]["n"] = n1
    # an aggregator must not request replicas itself; a replication point must not aggregate
    for p in points:
        comps[p]["agg"] = False
    if counts(model) is None:  # pragma: no cover - defensive
        for p in points:
            comps[p]["rep"]["n"] = n1
    for c in comps:
        if c["rep"]:
            f = c["rep"]["form"]
            if f == "gvar":
                model["gvars"][c["rep"]["var"]] = str(c["rep"]["n"])
            elif f == "svar":
                model["svars"].setdefault(str(c["stage"]), {})[c["rep"]["var"]] = str(c["rep"]["n"])
    _shadow_variables(rng, model, nvals)
    rng.shuffle(model["order"])
    return model


def _shadow_variables(rng, model, nvals):
    """The variable that carries a replica count is ALSO defined, with other values, in scopes the reading
    component cannot see (stage scope of other stages, component scope of other components - earlier and later,
    replicating or not) and in scopes it overrides (global under a stage/component definition, own stage under a
    component definition).  A component sees global < its own stage < its own component scope, so the expected
    expansion is unchanged by construction."""
    comps = model["comps"]
    stages = sorted({c["stage"] for c in comps})
    model["shadowed"] = []
    for ri, c in enumerate(comps):
        if not c["rep"] or c["rep"]["form"] not in ("gvar", "svar", "cvar") or rng.random() < 0.15:
            continue
        v, n, f = c["rep"]["var"], c["rep"]["n"], c["rep"]["form"]
        others = [x for x in nvals if x != n]
        where = []
        for st in stages:                                   # stage scopes of the other stages
            if st != c["stage"] and rng.random() < 0.8:
                model["svars"].setdefault(str(st), {})[v] = str(rng.choice(others))
                where.append("stage%d" % st)
        for j, o in enumerate(comps):                       # component scopes of other components
            if j != ri and rng.random() < 0.5:
                o.setdefault("vars", {})[v] = str(rng.choice(others))
                where.append("comp%d" % j)
        if f in ("svar", "cvar") and rng.random() < 0.7:    # a global value that the reader overrides
            model["gvars"][v] = str(rng.choice(others))
            where.append("global")
        if f == "cvar" and rng.random() < 0.7:              # its own stage's value that the reader overrides
            model["svars"].setdefault(str(c["stage"]), {})[v] = str(rng.choice(others))
            where.append("own-stage")
        if where:
            model["shadowed"].append({"var": v, "reader": ri, "form": f, "also_defined_in": where})


FILES = [None, None, None, "out.txt", "sub/f.dat", "f_1.csv", "a.b/c-d.x"]


def _gen_consumer(rng, comps, i, mode):
    c = comps[i]
    c["refs"], c["args"] = [], []
    cands = [j for j in range(i) if comps[j]["stage"] <= c["stage"]]
    k = 0 if not cands else rng.choice([0, 1, 1, 2, 2, 3, 4])
    if mode == "hazard" and len(cands) >= 2:
        k = max(k, 2)
    prods = rng.sample(cands, min(k, len(cands)))
    seen = set()
    refs = []
    for p in prods:
        for _ in range(rng.choice([1, 1, 1, 2])):
            names = [x["name"] for x in comps]
            file = rng.choice(FILES + [rng.choice(names), "d/" + rng.choice(names)])
            method = rng.choice(ARG_METHODS + (DECL_ONLY_METHODS if rng.random() < 0.25 else []))
            if method == "extract" and file is None:
                file = "arch.tar"
            key = (p, file, method)
            if key in seen:
                continue
            seen.add(key)
            same = comps[p]["stage"] == c["stage"]
            decl = rng.choice(["abs", "rel"]) if same else "abs"
            refs.append({"p": p, "file": file, "method": method, "decl": decl})
    rng.shuffle(refs)
    c["refs"] = refs
    c["agg"] = bool(refs) and rng.random() < 0.3 and not c["rep"]
    # argument string: every :ref/:output reference at least once, literal chunks around
    toks: List[List[Any]] = []
    names = [x["name"] for x in comps]
    lits = ["run", "-v", "--n", "3", "x", "opt"] + names + ["stage0." + names[0], names[-1] + ".txt"]

    def lit():
        t = rng.choice(lits)
        return t

    use = [ri for ri, r in enumerate(refs) if r["method"] in ("ref", "output")]
    occ = list(use)
    for ri in use:
        if rng.random() < 0.25:
            occ.append(ri)
    rng.shuffle(occ)
    toks.append(["lit", lit()])
    for ri in occ:
        r = refs[ri]
        same = comps[r["p"]]["stage"] == c["stage"]
        if mode == "hazard":
            sp = rng.choice(["abs", "rel"]) if same else "abs"
        else:
            # one spelling per reference within one string unless 'mixed' lets chance decide
            prev = [t[2] for t in toks if t[0] == "ref" and t[1] == ri]
            sp = prev[0] if prev and mode == "clean" else (rng.choice(["abs", "rel"]) if same else "abs")
        toks.append(["lit", rng.choice(SEP_BEFORE)])
        toks.append(["ref", ri, sp])
        toks.append(["lit", rng.choice(SEP_AFTER)])
        if rng.random() < 0.5:
            toks.append(["lit", lit()])
    # merge adjacent literals; strip outer whitespace (the loader is free to trim it)
    merged: List[List[Any]] = []
    for t in toks:
        if t[0] == "lit" and merged and merged[-1][0] == "lit":
            merged[-1][1] += t[1]
        else:
            merged.append(list(t))
    if merged and merged[0][0] == "lit":
        merged[0][1] = merged[0][1].lstrip()
    if merged and merged[-1][0] == "lit":
        merged[-1][1] = merged[-1][1].rstrip()
    merged = [t for t in merged if not (t[0] == "lit" and t[1] == "")]
    if not merged:
        merged = [["lit", "run"]]
    c["args"] = merged


# --------------------------------------------------------------------------- semantics (by construction)

def counts(model) -> Optional[List[Optional[int]]]:
    """Replica count of every component (None = single) – None overall if the requests conflict."""
    comps = model["comps"]
    cnt: List[Optional[int]] = []
    for i, c in enumerate(comps):
        vals = set()
        if c["rep"]:
            vals.add(c["rep"]["n"])
        for r in c["refs"]:
            p = r["p"]
            if cnt[p] is not None and not comps[p]["agg"]:
                vals.add(cnt[p])
        if len(vals) > 1:
            return None
        cnt.append(vals.pop() if vals else None)
    return cnt


def is_copy(model, cnt, i) -> bool:
    return cnt[i] is not None and not model["comps"][i]["agg"]


def node_ids(model, cnt, i) -> List[str]:
    c = model["comps"][i]
    if is_copy(model, cnt, i):
        return ["stage%d.%s%d" % (c["stage"], c["name"], k) for k in range(cnt[i])]
    return ["stage%d.%s" % (c["stage"], c["name"])]


def ref_spelling(model, ci, ri, which) -> str:
    c = model["comps"][ci]
    r = c["refs"][ri]
    p = model["comps"][r["p"]]
    return spell(p["stage"] if which == "abs" else None, p["name"], r["file"], r["method"])


def args_string(model, ci) -> str:
    out = []
    for t in model["comps"][ci]["args"]:
        out.append(t[1] if t[0] == "lit" else ref_spelling(model, ci, t[1], t[2]))
    return "".join(out)


def decl_strings(model, ci) -> List[str]:
    return [ref_spelling(model, ci, ri, r["decl"]) for ri, r in enumerate(model["comps"][ci]["refs"])]


def expected(model) -> Dict[str, Dict[str, Any]]:
    """node id -> {'refs': [(producer node id, file, method)...], 'args': [('lit', text) | ('ref', [[alternative
    spellings of target 0], [.. target 1], ...])], 'replica': k|None, 'replicate': N|None, 'outside': bool,
    'comp': index}"""
    comps = model["comps"]
    cnt = counts(model)
    assert cnt is not None
    out: Dict[str, Dict[str, Any]] = {}
    for i, c in enumerate(comps):
        copies = list(range(cnt[i])) if is_copy(model, cnt, i) else [None]
        for k in copies:
            nid = "stage%d.%s%s" % (c["stage"], c["name"], "" if k is None else str(k))
            touched = k is not None

            def targets(r):
                p = comps[r["p"]]
                if is_copy(model, cnt, r["p"]):
                    if c["agg"]:
                        return [(p["stage"], "%s%d" % (p["name"], j)) for j in range(cnt[r["p"]])]
                    return [(p["stage"], "%s%d" % (p["name"], k))]
                return [(p["stage"], p["name"])]

            refs = []
            for r in c["refs"]:
                ts = targets(r)
                if len(ts) != 1 or ts[0][1] != comps[r["p"]]["name"]:
                    touched = True
                for (ps, pn) in ts:
                    refs.append(("stage%d.%s" % (ps, pn), r["file"], r["method"]))
            args = []
            for t in c["args"]:
                if t[0] == "lit":
                    args.append(("lit", t[1]))
                else:
                    r = c["refs"][t[1]]
                    alts = []
                    for (ps, pn) in targets(r):
                        a = [spell(ps, pn, r["file"], r["method"])]
                        if ps == c["stage"]:
                            a.append(spell(None, pn, r["file"], r["method"]))
                        alts.append(a)
                    args.append(("ref", alts))
            out[nid] = {"refs": refs, "args": args, "replica": k, "replicate": cnt[i] if k is not None else None,
                        "outside": not touched, "comp": i}
    return out


def match_args(actual: str, exp_args) -> bool:
    """Does `actual` read as the expected token sequence (each reference in either legal spelling,
    the copies of an aggregated reference separated by single spaces)?"""
    pos = 0
    for t in exp_args:
        if t[0] == "lit":
            if not actual.startswith(t[1], pos):
                return False
            pos += len(t[1])
        else:
            for j, alts in enumerate(t[1]):
                if j:
                    if not actual.startswith(" ", pos):
                        return False
                    pos += 1
                for a in alts:
                    if actual.startswith(a, pos):
                        pos += len(a)
                        break
                else:
                    return False
    return pos == len(actual)


def parse_ref(s: str, stage: int) -> Tuple[str, Optional[str], str]:
    """Independent reading of a reference string 'stageN.name[/file]:method' (names never contain '/')."""
    left, _, method = s.rpartition(":")
    m = re.match(r"stage([0-9]+)\.", left)
    if m:
        stage = int(m.group(1))
        left = left[m.end():]
    name, sep, file = left.partition("/")
    return ("stage%d.%s" % (stage, name), file if sep else None, method)


def expected_edges(model, exp) -> set:
    return {(r[0], nid) for nid, e in exp.items() for r in e["refs"]}


def to_flowir(model) -> Dict[str, Any]:
    comps = []
    for i in model["order"]:
        c = model["comps"][i]
        d: Dict[str, Any] = {"name": c["name"], "stage": c["stage"],
                             "command": {"executable": "echo", "arguments": args_string(model, i)},
                             "references": decl_strings(model, i)}
        if c.get("vars"):
            d["variables"] = dict(c["vars"])
        wa: Dict[str, Any] = {}
        if c["rep"]:
            f, n, v = c["rep"]["form"], c["rep"]["n"], c["rep"]["var"]
            wa["replicate"] = n if f == "int" else (str(n) if f == "str" else "%%(%s)s" % v)
            if f == "cvar":
                d.setdefault("variables", {})[v] = str(n)
        if c["agg"]:
            wa["aggregate"] = True
        if wa:
            d["workflowAttributes"] = wa
        comps.append(d)
    doc: Dict[str, Any] = {"components": comps}
    if model["gvars"] or model["svars"]:
        doc["variables"] = {"default": {}}
        if model["gvars"]:
            doc["variables"]["default"]["global"] = dict(model["gvars"])
        if model["svars"]:
            doc["variables"]["default"]["stages"] = {int(k): dict(v) for k, v in model["svars"].items()}
    return doc


# --------------------------------------------------------------------------- hazards of the known mechanism

def _occurrences(k: str, s: str) -> List[int]:
    out, p = [], s.find(k)
    while p != -1:
        out.append(p)
        p = s.find(k, p + 1)
    return out


def overlaps(model, ci) -> List[Dict[str, Any]]:
    """Structural precondition of the known mechanism for consumer `ci`: the component is rewritten
    (replicated copy, or aggregator with >=1 replicated producer) and some *rewrite key* (absolute or
    stage-less spelling of a reference to a replicated producer) textually occurs inside, or coincides
    with, the spelling of a reference token that it does not legitimately denote; or (aggregator) one
    replicated reference is spelled both ways inside one string."""
    comps = model["comps"]
    cnt = counts(model)
    if cnt is None:
        return []
    c = comps[ci]
    if not (is_copy(model, cnt, ci) or c["agg"]):
        return []
    keys: Dict[str, List[int]] = {}          # key string -> reference indices it stands for
    for ri, r in enumerate(c["refs"]):
        if is_copy(model, cnt, r["p"]):
            p = comps[r["p"]]
            for k in (spell(p["stage"], p["name"], r["file"], r["method"]),
                      spell(None, p["name"], r["file"], r["method"])):
                if ri not in keys.setdefault(k, []):
                    keys[k].append(ri)
    if not keys:
        return []
    out = []
    strings: List[List[Tuple[str, int]]] = [[(ref_spelling(model, ci, ri, r["decl"]), ri)]
                                            for ri, r in enumerate(c["refs"])]
    strings.append([(ref_spelling(model, ci, t[1], t[2]), t[1]) for t in c["args"] if t[0] == "ref"])
    for toks in strings:
        for (s, ri) in toks:
            r = c["refs"][ri]
            p = comps[r["p"]]
            own_abs = spell(p["stage"], p["name"], r["file"], r["method"])
            for k, owners in keys.items():
                for pos in _occurrences(k, s):
                    whole = (pos == 0 and len(k) == len(s))
                    if whole and owners == [ri] and (s == own_abs or p["stage"] == c["stage"]):
                        continue                      # the key spelled as itself: legitimate
                    if whole:
                        kind = "stage-less-key-collision"
                    elif owners == [ri] and s == own_abs:
                        kind = "own-absolute-contains-stage-less"   # harmless on its own (absolute goes first)
                    else:
                        kind = "key-inside-other-reference"
                    out.append({"kind": kind, "key": k, "inside": s})
        if c["agg"]:
            byref: Dict[int, set] = {}
            for (s, ri) in toks:
                if is_copy(model, cnt, c["refs"][ri]["p"]):
                    byref.setdefault(ri, set()).add(s)
            for ri, sp in byref.items():
                if len(sp) > 1:
                    out.append({"kind": "aggregate-mixed-spellings", "key": sorted(sp)[0], "inside": sorted(sp)[1]})
    return out


def text_ok(e: Dict[str, Any], stage: int, args: str, refs: List[str]) -> bool:
    """Do an argument string and a reference list read as what node `e` of expected() demands?"""
    try:
        got = [parse_ref(s, stage) for s in refs]
    except Exception:
        return False
    return got == [tuple(x) for x in e["refs"]] and match_args(args, e["args"])


def hazards(model, ci, exp=None) -> List[Dict[str, Any]]:
    """The overlap pairs of consumer `ci` if the known mechanism (sequential textual replacement) would
    actually corrupt it, else [] (no overlap, or an overlap that longest-first replacement survives)."""
    ov = overlaps(model, ci)
    if not ov:
        return []
    cnt = counts(model)
    exp = exp or expected(model)
    c = model["comps"][ci]
    ks = [None] if c["agg"] else sorted({0, cnt[ci] - 1})
    for k in ks:
        nid = "stage%d.%s%s" % (c["stage"], c["name"], "" if k is None else str(k))
        a, d = simulate_textual(model, ci, k)
        if not text_ok(exp[nid], c["stage"], a, d):
            return ov
    return []


def simulate_textual(model, ci, k: Optional[int]) -> Tuple[str, List[str]]:
    """What sequential textual replacement of reference spellings yields for copy k of a replicated
    consumer (k None: aggregator).  Used ONLY to recognise the known finding."""
    comps = model["comps"]
    cnt = counts(model)
    c = comps[ci]
    repl = [(ri, r) for ri, r in enumerate(c["refs"]) if is_copy(model, cnt, r["p"])]
    args = args_string(model, ci)
    decl = decl_strings(model, ci)
    if k is not None:
        tr: Dict[str, str] = {}
        for ri, r in repl:
            p = comps[r["p"]]
            new = spell(p["stage"], "%s%d" % (p["name"], k), r["file"], r["method"])
            tr[spell(p["stage"], p["name"], r["file"], r["method"])] = new
            tr[spell(None, p["name"], r["file"], r["method"])] = new
        order = sorted(tr, key=len, reverse=True)

        def f(s):
            for o in order:
                s = s.replace(o, tr[o])
            return s
        return f(args), [f(d) for d in decl]
    n = cnt[ci]
    tm: Dict[str, List[str]] = {}
    seq = []
    for ri, r in repl:
        p = comps[r["p"]]
        a = spell(p["stage"], p["name"], r["file"], r["method"])
        s = spell(None, p["name"], r["file"], r["method"])
        seq.append((a, s))
        for j in range(n):
            new = spell(p["stage"], "%s%d" % (p["name"], j), r["file"], r["method"])
            tm.setdefault(a, []).append(new)
            tm.setdefault(s, []).append(new)

    def g(s):
        for (a, sh) in seq:
            for ref in (a, sh):
                o = s
                if ref in s:
                    s = s.replace(ref, " ".join(tm[ref]))
                if s != o:
                    break
        return s
    out_decl: List[str] = []
    for d in decl:
        out_decl.extend(g(d).split())
    return g(args), out_decl


def overlap_kinds(model) -> List[str]:
    """Textual relations between the producer names of the document (for the distinct-class key)."""
    names = sorted({c["name"] for c in model["comps"]})
    kinds = set()
    for a in names:
        for b in names:
            if a == b or a not in b:
                continue
            if b.startswith(a):
                kinds.add("prefix")
            elif b.endswith(a):
                kinds.add("suffix")
            else:
                kinds.add("infix")
    seen = {}
    for c in model["comps"]:
        seen.setdefault(c["name"], set()).add(c["stage"])
    if any(len(v) > 1 for v in seen.values()):
        kinds.add("same-name-other-stage")
    return sorted(kinds)
