"""C16 – Memoization hashes identify equivalent work and nothing else.

Metamorphic pairs: a base experiment E (chain of 1..4 producers -> target, materialised through
Experiment.experimentFromPackage, producer outputs written into their working directories) and E' that differs from E
in exactly ONE aspect.  Observed: ComponentSpecification.memoization_hash / memoization_hash_fuzzy of the target (and
of every component of the chain).  The relation demanded for each edit is taken from the property statement only:

  strong must DIFFER : executable, an argument literal, content of a referenced input file (incl. swapping the contents
                       of two files named on the command line), reference method, container image, content of the file
                       written by the direct producer
  strong must be EQUAL: instance location, component names, stage indices, time stamps, a twin definition in the same
                       experiment, and ('exactly when') an upstream change that leaves every consumed content equal
  strong must be None : a referenced input file / producer output is missing
  fuzzy must be EQUAL : content written by a direct or indirect producer (+ the irrelevant aspects above)
  fuzzy must DIFFER   : whenever the fuzzy hash of a producer is observed to differ (judged on every producer->consumer
                       pair of the experiment, incl. side consumers using every reference form)
  no hash downstream  : in EVERY materialised E': a component whose producer has no fuzzy hash has no fuzzy hash (all
                       reference forms); a component that references a hash-less producer as a bare directory has no
                       strong hash.  Edits H1/H2 make a producer 1..4 links above the target unhashable (its private input
                       file, or the upstream file only it reads, is removed) while every file read further down exists;
                       components naming only FILES must then keep their strong hash (content-based, 'exactly when').
Edits the statement does not name (variable renamed to the same text, order of the references field, fuzzy under a
change of the target's own definition) are recorded as informational counters only.

Fields spelled through %(variables)s (family V in checks/_c16_fam.py; `exe_via` + edit X3 in the chain workload): what a
component runs is the text AFTER its variables got their values, so a changed value of the variable behind the executable /
an argument / the image (component, stage, global or platform definition; the same package on another platform; a
sibling with the same template and another value) must change the strong hash, while the same text spelled literally, a
shadowed or unrelated definition, or a platform that leaves the variable alone must not.

Contents are BYTES (family B in checks/_c16_fam.py; the content edits R3/R6/U2 of the chain workload): a referenced file
whose bytes change minimally in a way a text-mode / decoding / normalising reader would not see (LF/CRLF/CR, one 0x0D in
front of a 0x0A in a binary file, trailing newline, BOM, NUL, invalid UTF-8 inserted / replaced by another invalid byte,
NFC vs NFD, trailing space, case of one byte, one byte appended at exactly 4/8/64 KiB, one byte changed after 64 KiB),
consumed as data / external / producer file, on and off the command line, ref/copy/link/output, must change the strong
hash (and leave the fuzzy hash equal when another component produced it); the same bytes under another file name, or a
sibling naming another file with the same bytes, must give the same strong hash.
"""
from __future__ import annotations

import json
import os
import re
import shutil
import sys
from typing import Any, Dict, List, Optional

import vlib

vlib.bootstrap()

from checks import _c16_gen as gen  # noqa: E402
from checks import _c16_fam as fam  # noqa: E402

KEY_ABS = "C16:absolute-path-reference-not-replaced-in-arguments"
KEY_ORDER = "C16:stage-less-reference-replaced-inside-equally-long-reference"

KEY_DIROFF = "C16:bare-producer-reference-off-the-command-line-ignored"
KEY_DIGIT = "C16:trailing-digits-stripped-from-component-name"


# ----------------------------------------------------------------------------- materialise + observe

def _bytes(content: str) -> bytes:
    """file contents are byte-strings (code points 0..255) so that specs stay JSON-able while files may be binary"""
    return content.encode("latin-1")


def materialise(spec: Dict[str, Any], root: str) -> Dict[str, Any]:
    import yaml
    import experiment.model.data
    import experiment.model.storage
    base = os.path.join(root, *spec["where"].split("/"))
    os.makedirs(base, exist_ok=True)
    pkg = os.path.join(base, "the.package")
    os.makedirs(os.path.join(pkg, "conf"))
    with open(os.path.join(pkg, "conf", "flowir_package.yaml"), "w") as f:
        yaml.safe_dump(gen.render(spec), f, sort_keys=False)
    for rel, text in spec["data"].items():
        p = os.path.join(pkg, rel)
        os.makedirs(os.path.dirname(p), exist_ok=True)
        with open(p, "wb") as f:
            f.write(_bytes(text))
    package = experiment.model.storage.ExperimentPackage.packageFromLocation(pkg)
    exp = experiment.model.data.Experiment.experimentFromPackage(package, location=base)
    inst = exp.instanceDirectory
    g = exp.experimentGraph
    touched = []
    for n in g.graph.nodes:
        cs = g.graph.nodes[n]["componentSpecification"]
        name = cs.identification.componentName
        wd = inst.workingDirectoryForComponent(cs.identification.stageIndex, name)
        os.makedirs(wd, exist_ok=True)
        for fn, text in (spec["outputs"].get(name) or {}).items():
            with open(os.path.join(wd, fn), "wb") as f:
                f.write(_bytes(text))
            touched.append(os.path.join(wd, fn))
    for rel in spec.get("missing_data") or []:
        os.remove(os.path.join(inst.location, rel))
    for rel in spec["data"]:
        p = os.path.join(inst.location, rel)
        if os.path.exists(p):
            touched.append(p)
    for p in touched:
        os.utime(p, (spec["mtime"], spec["mtime"]))
    out = {}
    for n in g.graph.nodes:
        g.graph.nodes[n]["componentSpecification"].memoization_reset()
    for n in sorted(g.graph.nodes):
        cs = g.graph.nodes[n]["componentSpecification"]
        out[cs.identification.componentName] = [cs.memoization_hash, cs.memoization_hash_fuzzy]
    shutil.rmtree(base, ignore_errors=True)
    return out


def materialise_case(case: Dict[str, Any], root: str) -> Dict[str, Any]:
    """Family cases (checks/_c16_fam.py): the document is given; `@EXT@` stands for the absolute path of the external
    directory of THIS materialisation.  Returns {'stageN.name': [strong, fuzzy]}."""
    import yaml
    import experiment.model.data
    import experiment.model.storage
    base = os.path.join(root, *case["where"].split("/"))
    os.makedirs(base, exist_ok=True)
    ext = os.path.join(base, *case["extdir"].split("/"))
    touched = []
    for rel, text in case["external"].items():
        os.makedirs(ext, exist_ok=True)
        with open(os.path.join(ext, rel), "wb") as f:
            f.write(_bytes(text))
        touched.append(os.path.join(ext, rel))
    pkg = os.path.join(base, "the.package")
    os.makedirs(os.path.join(pkg, "conf"))
    doc = json.loads(json.dumps(case["doc"]))
    for pv in (doc.get("variables") or {}).values():      # JSON turned the stage indices into strings
        if isinstance(pv, dict) and isinstance(pv.get("stages"), dict):
            pv["stages"] = {int(k): v for k, v in pv["stages"].items()}
    text = yaml.safe_dump(doc, sort_keys=False).replace("@EXT@", ext)
    with open(os.path.join(pkg, "conf", "flowir_package.yaml"), "w") as f:
        f.write(text)
    for rel, content in case["data"].items():
        p = os.path.join(pkg, rel)
        os.makedirs(os.path.dirname(p), exist_ok=True)
        with open(p, "wb") as f:
            f.write(_bytes(content))
    platform = case.get("platform")     # None: the default platform
    package = experiment.model.storage.ExperimentPackage.packageFromLocation(pkg, platform=platform)
    exp = experiment.model.data.Experiment.experimentFromPackage(package, location=base, platform=platform)
    inst = exp.instanceDirectory
    g = exp.experimentGraph
    for n in g.graph.nodes:
        cs = g.graph.nodes[n]["componentSpecification"]
        wd = inst.workingDirectoryForComponent(cs.identification.stageIndex, cs.identification.componentName)
        os.makedirs(wd, exist_ok=True)
        for fn, content in (case["outputs"].get(n) or {}).items():
            with open(os.path.join(wd, fn), "wb") as f:
                f.write(_bytes(content))
            touched.append(os.path.join(wd, fn))
    for rel in case.get("missing_external") or []:
        os.remove(os.path.join(ext, rel))
        touched.remove(os.path.join(ext, rel))
    for p in touched:
        os.utime(p, (case["mtime"], case["mtime"]))
    for n in g.graph.nodes:
        g.graph.nodes[n]["componentSpecification"].memoization_reset()
    out = {}
    for n in sorted(g.graph.nodes):
        cs = g.graph.nodes[n]["componentSpecification"]
        out[n] = [cs.memoization_hash, cs.memoization_hash_fuzzy]
    shutil.rmtree(base, ignore_errors=True)
    return out


def run_family_case(w, fc: Dict[str, Any], root: str):
    try:
        hb = materialise_case(fc["E"], os.path.join(root, "f%d" % fc["index"], "E"))
    except Exception as exc:
        w.count("family_base_did_not_load")
        w.note_inconclusive("family case %s %d does not load: %s" % (fc["fam"], fc["index"], str(exc)[-300:]))
        return
    j = fc["judged"]
    if hb[j][0] is None or hb[j][1] is None:
        w.count("family_base_without_hash")
        w.note_inconclusive("family case %s %d has no hash for %s: %s" % (fc["fam"], fc["index"], j, hb))
        return
    w.count("family_bases")
    w.count("family_bases_" + fc["fam"])
    if fc.get("tie"):
        w.count("family_O_bases_with_equally_long_same_name_references")
    for k, v in enumerate(fc["variants"]):
        jp = v.get("judged_prime") or j        # the component of E' that is compared with `j` of E
        if v.get("within"):
            he = hb                            # two components of ONE experiment
        else:
            try:
                he = materialise_case(v["case"], os.path.join(root, "f%d" % fc["index"], "v%d" % k))
            except Exception as exc:
                w.count("edited_experiment_did_not_load")
                w.count("edited_experiment_did_not_load_" + v["id"])
                if os.environ.get("VERIF_DEBUG"):
                    print("LOADFAIL", v["id"], repr(exc)[:500])
                continue
        w.evaluated()
        w.count("pairs")
        w.count("pairs_" + v["id"])
        if fc["fam"] == "V":
            w.count("family_V_pairs_field_" + v["detail"]["field"])
            w.count("family_V_pairs_defined_by_" + v["detail"]["defined_by"])
        if fc["fam"] == "B":
            w.count("family_B_pairs_kind_" + v["detail"]["kind"])
            w.count("family_B_pairs_route_" + v["detail"]["route"])
        w.distinct("%s|%s" % (v["id"], fc["klass"]))
        who = j if jp == j else "%s vs %s" % (j, jp)
        for which, want, a, b in (("strong", v["strong"], hb[j][0], he[jp][0]), ("fuzzy", v["fuzzy"], hb[j][1], he[jp][1])):
            if want is None:
                w.count("info_%s_%s_%s" % (v["id"], which, "same" if a == b else ("none" if b is None else "changed")))
                continue
            wit = {"family_case": fc, "variant": v["id"], "variant_index": k, "which": which, "demanded": want,
                   "hash_E": a, "hash_E_prime": b, "hashes_E": hb, "hashes_E_prime": he}
            if want == gen.EQUAL:
                w.count("%s_must_be_equal_judged" % which)
                w.count("family_%s_must_be_equal_judged_%s" % (which, v["id"]))
                if a != b:
                    key = None
                    # structural classifiers of the two known mechanisms (both: how references are found again in the
                    # argument string when they are replaced by hashes)
                    if v["id"] == "A1-external-files-live-elsewhere" and b is not None and \
                            fam.names_absolute_reference_on_cmdline(fc["E"], j):
                        key = KEY_ABS
                    if v["id"] == "O1-references-field-permuted" and b is not None and \
                            fam.has_suffix_spelling_tie(fc["E"], j):
                        key = KEY_ORDER
                    w.violation("%s hash of %s changed under a hash-irrelevant edit (%s: %s): %s -> %s" % (
                        which, who, v["id"], json.dumps(v["detail"])[:200], a, b), wit, finding_key=key)
            elif want == gen.DIFFER:
                if b is None:
                    w.count("%s_differ_edit_gave_no_hash_not_judged" % which)
                    continue
                w.count("%s_must_differ_judged" % which)
                w.count("family_%s_must_differ_judged_%s" % (which, v["id"]))
                if fc["fam"] == "B":
                    w.count("family_B_%s_must_differ_judged_kind_%s" % (which, v["detail"]["kind"]))
                    w.count("family_B_%s_must_differ_judged_route_%s" % (which, v["detail"]["route"]))
                if a == b:
                    w.violation("%s hash of %s unchanged under a hash-relevant edit (%s: %s): %s" % (
                        which, who, v["id"], json.dumps(v["detail"])[:200], a), wit)
            elif want == gen.NONE:
                w.count("%s_must_be_none_judged" % which)
                if b is not None:
                    w.violation("%s hash %s of %s produced while a referenced input is missing (%s: %s)" % (
                        which, b, j, v["id"], json.dumps(v["detail"])[:160]), wit)
        if v.get("chain"):
            # fuzzy clause 2: the producer's fuzzy hash is OBSERVED to change => the consumer's fuzzy hash changes
            cons, prod = v["chain"]
            fp, fp2, fc1, fc2 = hb[prod][1], he[prod][1], hb[cons][1], he[cons][1]
            if fp is None or fp2 is None or fp == fp2:
                w.count("family_chain_links_producer_fuzzy_unchanged")
            else:
                w.count("family_chain_links_producer_fuzzy_changed_judged")
                if fc1 == fc2:
                    w.violation("fuzzy hash of %s did not change although the fuzzy hash of its producer %s changed "
                                "(%s -> %s; %s)" % (cons, prod, fp, fp2, v["id"]),
                                {"family_case": fc, "variant": v["id"], "variant_index": k, "which": "fuzzy-chain",
                                 "demanded": "differ", "hash_E": fc1, "hash_E_prime": fc2, "hashes_E": hb,
                                 "hashes_E_prime": he})
        if len(w.samples) < w.max_samples + 2 and k == 0 and fc["index"] < 4:
            w.sample({"family": fc["fam"], "variant": v["id"], "detail": v["detail"], "flowir_E": fc["E"]["doc"],
                      "judged": j, "judged_in_E_prime": jp, "hashes_E": hb[j], "hashes_E_prime": he[jp]}, force=True)


# ----------------------------------------------------------------------------- oracle

def judge(w, base: Dict[str, Any], hb: Dict[str, Any], e: Dict[str, Any], he: Dict[str, Any]):
    """hb / he: {component name: [strong, fuzzy]} of E and E'."""
    tb, te = base["target"], e["spec"]["target"]
    S, F = hb[tb]
    S2, F2 = he[te]
    eid = e["id"]
    w.evaluated()
    w.count("pairs")
    w.count("pairs_" + eid)
    w.distinct("%s|%s" % (eid, base["klass"]))
    if e.get("content_edit"):
        w.count("chain_content_edit_kind_" + e["content_edit"])
        if e["content_edit"] in gen.BYTE_KINDS:
            w.count("chain_content_edits_byte_minimal")
            if "lf" in e["content_edit"]:
                w.count("chain_content_edits_line_terminators")
    via = next(c_ for c_ in base["comps"] if c_["name"] == tb).get("exe_via")
    if via:
        w.count("pairs_target_executable_spelled_through_%s_variable" % via)
        if eid == "R1-executable":
            w.count("R1_pairs_executable_spelled_through_a_variable")
    if eid == "U1-upstream-definition-changes-contents-equal" and \
            next(c_ for c_ in base["comps"] if c_["name"] == e["upstream"]).get("exe_via"):
        w.count("U1_pairs_upstream_executable_spelled_through_a_variable")

    def witness(which, want, got_a, got_b):
        return {"base": base, "edit": e, "which": which, "demanded": want, "hash_E": got_a, "hash_E_prime": got_b,
                "hashes_E": hb, "hashes_E_prime": he}

    def finding_key(which):
        # Structural classifier of the one known mechanism (all trailing digits are stripped from the component name
        # to find "its blueprint"): the renamed component's name ends in a decimal digit AND either
        #  (a) the stripped name is no component of that stage, the renamed component has no hash at all in E' although
        #      nothing it consumes is missing, and the judged hash is None; or
        #  (b) the stripped name IS another component of the same stage (whose definition is then hashed instead) and
        #      the renamed component's own hashes differ from those it had in E.
        if eid != "I2-name-ending-in-digit":
            return None
        new = e.get("renamed_to")
        old = e.get("renamed_from") or str(e.get("detail", "")).split(" -> ")[0]
        if not new or not re.search(r"[0-9]$", new) or new not in he or old not in hb:
            return None
        stage = next(c_["stage"] for c_ in e["spec"]["comps"] if c_["name"] == new)
        stripped = new.rstrip("0123456789")
        other = any(c_["name"] == stripped and c_["stage"] == stage for c_ in e["spec"]["comps"])
        judged = he[te][0 if which == "strong" else 1]
        if not other and he[new] == [None, None] and judged is None:
            return KEY_DIGIT
        if other and he[new] != hb[old]:
            return KEY_DIGIT
        return None

    for which, want, a, b in (("strong", e["strong"], S, S2), ("fuzzy", e["fuzzy"], F, F2)):
        if want is None:
            w.count("info_%s_%s_%s" % (eid, which, "same" if a == b else ("none" if b is None else "changed")))
            continue
        if want == gen.EQUAL:
            w.count("%s_must_be_equal_judged" % which)
            if a != b:
                w.violation("%s hash changed under a hash-irrelevant edit (%s: %s): %s -> %s" % (
                    which, eid, json.dumps(e["detail"])[:80], a, b), witness(which, want, a, b),
                    finding_key=finding_key(which))
        elif want == gen.DIFFER:
            if b is None:
                w.count("%s_differ_edit_gave_no_hash_not_judged" % which)
                continue
            w.count("%s_must_differ_judged" % which)
            if a == b:
                w.violation("%s hash unchanged under a hash-relevant edit (%s: %s): %s" % (
                    which, eid, json.dumps(e["detail"])[:80], a), witness(which, want, a, b))
        elif want == gen.NONE:
            w.count("%s_must_be_none_judged" % which)
            if b is not None:
                w.violation("%s hash %s produced while a referenced input is missing (%s: %s)" % (
                    which, b, eid, json.dumps(e["detail"])[:80]), witness(which, want, a, b))
    if e.get("chain_rule"):
        bforms = gen.pair_forms(base)
        for (cons, prod), fs in sorted(bforms.items()):
            fp, fp2 = hb[prod][1], he[prod][1]
            fc, fc2 = hb[cons][1], he[cons][1]
            if fp is None or fp2 is None or fp == fp2:
                w.count("chain_links_producer_fuzzy_unchanged")
                continue
            w.count("chain_links_producer_fuzzy_changed_judged")
            if fc == fc2:
                w.violation("fuzzy hash of %s did not change although the fuzzy hash of its producer %s changed "
                            "(%s -> %s; reference form %s)" % (cons, prod, fp, fp2, sorted(fs)),
                            witness("fuzzy-chain", "differ", fc, fc2),
                            finding_key=KEY_DIROFF if fs <= {"dir-off-cmdline"} else None)
    # ---- a component whose producer has no hash has no hash itself (every materialised E', every reference form)
    forms = gen.pair_forms(e["spec"])
    for (cons, prod), fs in sorted(forms.items()):
        if cons not in he or prod not in he:
            continue
        off_only = fs <= {"dir-off-cmdline"}
        # fuzzy: all forms
        if he[prod][1] is None:
            w.count("links_producer_without_fuzzy_hash_judged")
            w.count("links_producer_without_fuzzy_hash_judged_form_" + "+".join(sorted(fs)))
            if he[cons][1] is not None:
                w.violation("%s has fuzzy hash %s although its producer %s has none (reference form %s, edit %s)" % (
                    cons, he[cons][1], prod, sorted(fs), eid),
                    witness("fuzzy-of-%s" % cons, "none", hb.get(cons, [None, None])[1], he[cons][1]),
                    finding_key=KEY_DIROFF if off_only else None)
        # strong: only where the statement lets the producer's hash stand in for content (bare producer reference)
        if he[prod][0] is None and not (fs <= {"file"}):
            w.count("links_producer_without_strong_hash_judged")
            if he[cons][0] is not None and ("dir-on-cmdline" in fs or off_only):
                w.violation("%s has strong hash %s although the producer %s it references as a directory has none "
                            "(reference form %s, edit %s)" % (cons, he[cons][0], prod, sorted(fs), eid),
                            witness("strong-of-%s" % cons, "none", hb.get(cons, [None, None])[0], he[cons][0]),
                            finding_key=KEY_DIROFF if off_only else None)
    if e.get("h_edit"):
        root = e["unhashable_root"]
        w.count("H_pairs")
        w.count("H_pairs_distance_%d" % e.get("distance", 0))
        if he[root][0] is not None:
            w.violation("%s has strong hash %s while an input it references is missing (%s)" % (
                root, he[root][0], json.dumps(e["detail"])[:100]), witness("strong-of-root", "none", hb[root][0], he[root][0]))
        if he[root] == [None, None]:
            w.count("H_root_without_any_hash")
        else:
            w.count("info_H_root_fuzzy_%s" % ("none" if he[root][1] is None else "present"))
        # every other component reads only files that still exist with the same content: a component that names only
        # FILES keeps its strong hash ('exactly when'); one that references a directory makes no such claim
        dirty = {c_ for (c_, p_), fs in forms.items() if not (fs <= {"file"})}
        for c_ in e["spec"]["comps"]:
            n = c_["name"]
            if n == root or n in dirty or n not in hb or hb[n][0] is None:
                continue
            w.count("H_strong_of_file_only_component_must_be_equal_judged")
            if he[n][0] != hb[n][0]:
                w.violation("strong hash of %s changed (%s -> %s) although every file it references exists unchanged; "
                            "only the upstream component %s lost an input" % (n, hb[n][0], he[n][0], root),
                            witness("strong-of-%s" % n, "equal", hb[n][0], he[n][0]))
    if e.get("twin"):
        w.count("twin_judged")
        if he[e["twin"]] != he[te]:
            w.violation("two components of one experiment with the same definition have different hashes: %s %s vs %s %s"
                        % (te, he[te], e["twin"], he[e["twin"]]), witness("twin", "equal", he[te], he[e["twin"]]))


def run_base(w, spec: Dict[str, Any], root: str, index: int, only_edit: Optional[Dict[str, Any]] = None):
    hb = materialise(spec, os.path.join(root, "b%d" % index, "E"))
    S, F = hb[spec["target"]]
    if S is None or F is None:
        w.count("base_without_hash")
        w.note_inconclusive("base experiment %d has no hash for its target: %s" % (index, hb))
        return
    w.count("bases")
    for n in spec["chain"]:
        if hb[n][0] is None or hb[n][1] is None:
            w.count("base_chain_member_without_hash")
    es = [only_edit] if only_edit else gen.edits(spec, vlib.rng("edits", index))
    for j, e in enumerate(es):
        try:
            he = materialise(e["spec"], os.path.join(root, "b%d" % index, "e%d" % j))
        except Exception as exc:   # an edited experiment that does not load is not a verdict about hashes
            w.count("edited_experiment_did_not_load")
            w.count("edited_experiment_did_not_load_" + e["id"])
            if os.environ.get("VERIF_DEBUG"):
                print("LOADFAIL", e["id"], repr(exc)[:500])
            continue
        judge(w, spec, hb, e, he)
        if len(w.samples) < w.max_samples and j in (0, 5, 9):
            w.sample({"edit": e["id"], "detail": e["detail"], "demanded": {"strong": e["strong"], "fuzzy": e["fuzzy"]},
                      "flowir_E": gen.render(spec), "target": spec["target"],
                      "hashes_E": hb[spec["target"]], "hashes_E_prime": he[e["spec"]["target"]]})


def run_job(job: Dict[str, Any], w: vlib.Worker):
    root = vlib.mkscratch("c16")
    if job.get("replay"):
        run_base(w, job["replay"]["base"], root, 0, only_edit=job["replay"]["edit"])
        return
    if job.get("replay_family"):
        fc = job["replay_family"]["case"]
        fc = dict(fc, variants=[fc["variants"][job["replay_family"]["variant_index"]]])
        run_family_case(w, fc, root)
        return
    for i in job.get("family", []):
        fc = json.loads(json.dumps(fam.gen_family_case(vlib.rng("family", i), i)))
        run_family_case(w, fc, root)
    for i in job.get("family_b", []):
        fc = json.loads(json.dumps(fam.gen_bytes(vlib.rng("family-b", i), i)))
        run_family_case(w, fc, root)
    for i in job.get("family_v", []):
        fc = json.loads(json.dumps(fam.gen_var(vlib.rng("family-v", i), i)))
        run_family_case(w, fc, root)
    for i in job.get("bases", []):
        spec = gen.gen_spec(vlib.rng("base", i))
        spec = json.loads(json.dumps(spec))
        run_base(w, spec, root, i)
    shutil.rmtree(root, ignore_errors=True)


if "--worker" in sys.argv:
    vlib.worker_main(run_job)


def main():
    c = vlib.Check(
        "C16", "exploration",
        rule="pairs (E, E') of materialised experiments (chain of 1-4 producers -> target; collision-prone names, files "
             "of 1 B .. >64 KiB, equal-content files, references repeated on the command line, lsf/kubernetes images) "
             "differing in exactly one aspect, plus three families of small documents (absolute-path references, order "
             "of the references field, executable/arguments/image spelled through component/stage/global/platform "
             "variables, byte-minimal content differences per kind and consumption route); a pair is non-trivial when E has both hashes and E' loaded; distinct = "
             "distinct (edit kind, structural class of E: chain length, directory reference, image backend, #data "
             "files named on the command line)",
        assumptions=[
            "Only relations the property statement names are judged; edits it does not name (variable renamed to the "
            "same text, order of the references field, the fuzzy hash under a change of the target's own "
            "definition, the fuzzy hash under a missing input) are informational counters.",
            "'Must differ' is judged only when E' has a hash (an edit that merely removes the hash is counted, not judged).",
            "For an upstream definition change with equal contents the strong hash of the target is demanded equal "
            "only when the target has no directory reference (a directory has no content hash; the producer's hash "
            "stands in for it).",
            "Variables behind an executable / argument / image: only the uncontroversial layering is used as ground truth "
            "(component and stage definitions shadow global ones, the selected platform's globals shadow default's); "
            "variable names contain no '.' (such a %(a.b)s is left uninterpolated in what is executed as well); the "
            "fuzzy hash is informational under these edits.",
            "Producer outputs are written by the harness into the working directories (nothing is executed).",
            "Dynamic check: held on the pairs explored, not a proof.",
        ])
    if not os.path.isfile(os.path.join(vlib.REPO_PY, "experiment", "model", "graph.py")):
        # never let a missing VERIF_REPO fall back silently to whatever `experiment` is installed
        c.note_inconclusive("VERIF_REPO=%s does not contain python/experiment/model/graph.py" % vlib.REPO)
        sys.exit(c.finish())
    rp = vlib.load_replay(sys.argv)
    if rp is not None:
        wit = rp["witness"]
        if "family_case" in wit:
            job = {"replay_family": {"case": wit["family_case"], "variant_index": wit["variant_index"]}}
        else:
            job = {"replay": {"base": wit["base"], "edit": wit["edit"]}}
        vlib.fanout("checks.C16", [job], c, timeout=300)
        sys.exit(c.finish())
    nbases = 640 if c.tier == "thorough" else 48
    per = 10 if c.tier == "thorough" else 3
    jobs = [{"bases": list(range(i, min(i + per, nbases)))} for i in range(0, nbases, per)]
    nfam = 600 if c.tier == "thorough" else 48          # absolute-path / reference-order document families (tiny)
    perf = 30 if c.tier == "thorough" else 12
    jobs += [{"family": list(range(i, min(i + perf, nfam)))} for i in range(0, nfam, perf)]
    # hash-relevant fields spelled through %(variables)s (component / stage / global / platform definitions)
    # byte-minimal content differences (line terminators, BOM, NUL, invalid UTF-8, NFC/NFD, ...) through every route
    nbyt = 720 if c.tier == "thorough" else 72
    perb = 36 if c.tier == "thorough" else 9
    jobs = [{"family_b": list(range(i, min(i + perb, nbyt)))} for i in range(0, nbyt, perb)] + jobs
    nvar = 480 if c.tier == "thorough" else 36
    perv = 24 if c.tier == "thorough" else 6
    jobs = [{"family_v": list(range(i, min(i + perv, nvar)))} for i in range(0, nvar, perv)] + jobs
    vlib.fanout("checks.C16", jobs, c, timeout=900)
    c.extra["plan"] = {"bases": nbases, "bases_per_worker": per}
    c.floor("bases", int(nbases * 0.95))
    c.floor("pairs", nbases * 12)
    c.floor("strong_must_differ_judged", nbases * 5)
    c.floor("strong_must_be_equal_judged", nbases * 6)
    c.floor("strong_must_be_none_judged", nbases)
    c.floor("fuzzy_must_be_equal_judged", nbases * 6)
    c.floor("chain_links_producer_fuzzy_changed_judged", nbases)
    c.floor("twin_judged", int(nbases * 0.9))
    c.floor("family_bases_A", int(nfam * 0.45))
    c.floor("family_bases_O", int(nfam * 0.45))
    c.floor("family_O_bases_with_equally_long_same_name_references", nfam // 6)
    c.floor("pairs_A1-external-files-live-elsewhere", int(nfam * 0.45))
    c.floor("pairs_O1-references-field-permuted", int(nfam * 0.45))
    c.floor("pairs_A2-external-file-content", int(nfam * 0.4))
    c.floor("family_bases_B", int(nbyt * 0.95))
    c.floor("pairs_B1-bytes-of-a-referenced-file-changed", int(nbyt * 0.95))
    c.floor("pairs_B2-same-bytes-under-another-file-name", int(nbyt * 0.75))
    c.floor("pairs_B5-sibling-names-a-file-with-other-bytes", int(nbyt * 0.35))
    c.floor("pairs_B6-sibling-names-a-file-with-the-same-bytes", int(nbyt * 0.35))
    for kind in gen.BYTE_KINDS:      # every kind of byte-minimal difference was JUDGED (E' had a hash)
        c.floor("family_B_strong_must_differ_judged_kind_" + kind, max(3, nbyt // len(gen.BYTE_KINDS) - 1))
    for route in fam.B_ROUTES:
        c.floor("family_B_strong_must_differ_judged_route_" + route, nbyt // 36)
    c.floor("chain_content_edits_byte_minimal", nbases)
    c.floor("chain_content_edits_line_terminators", nbases // 6)
    c.floor("family_bases_V", int(nvar * 0.9))
    c.floor("pairs_V1-value-of-the-variable-changed", int(nvar * 0.85))
    c.floor("pairs_V2-same-text-spelled-literally", int(nvar * 0.85))
    c.floor("pairs_V5-sibling-same-template-other-value", int(nvar * 0.9))
    c.floor("pairs_V6-sibling-spells-the-same-text-literally", int(nvar * 0.9))
    c.floor("family_strong_must_differ_judged_V1-value-of-the-variable-changed", int(nvar * 0.85))
    c.floor("family_strong_must_differ_judged_V4-platform-gives-the-variable-another-value", nvar // 18)
    c.floor("family_strong_must_be_equal_judged_V4-platform-leaves-the-variable-alone", nvar // 8)
    c.floor("family_V_pairs_field_executable", nvar * 2)
    for src in fam.V_SOURCES:
        c.floor("family_V_pairs_defined_by_" + src, nvar // 4)
    c.floor("family_chain_links_producer_fuzzy_changed_judged", nvar // 2)
    c.floor("H_pairs", nbases)
    c.floor("H_root_without_any_hash", nbases)
    c.floor("H_pairs_distance_2", nbases // 6)
    c.floor("H_pairs_distance_3", nbases // 12)
    c.floor("links_producer_without_fuzzy_hash_judged_form_file", nbases * 2)
    c.floor("links_producer_without_fuzzy_hash_judged_form_dir-on-cmdline", nbases // 3)
    c.floor("links_producer_without_strong_hash_judged", nbases // 2)
    c.floor("H_strong_of_file_only_component_must_be_equal_judged", nbases * 2)
    for eid in ("R1-executable", "R2-argument-literal", "R3-input-file-content", "R6-content-produced-by-direct-producer",
                "I1-instance-location", "I2-target-name", "I2-producer-names", "I3-stage-indices", "I4-time",
                "U1-upstream-definition-changes-contents-equal", "N2-missing-producer-output"):
        c.floor("pairs_" + eid, int(nbases * 0.9))
    c.floor("pairs_U2-content-produced-by-indirect-producer", nbases // 4)
    c.floor("pairs_R4-reference-method", nbases // 8)
    c.floor("pairs_X3-executable-spelling", int(nbases * 0.9))
    c.floor("R1_pairs_executable_spelled_through_a_variable", nbases // 6)
    sys.exit(c.finish())


if __name__ == "__main__":
    main()
