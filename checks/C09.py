"""C09 - Data references parse, print and classify consistently.

Workload: a grammar-based generator emits *contexts* (stage of the consumer, known components
per stage, a manifest with plain and nested keys, application dependencies) and, for each
context, reference strings whose parts (stage prefix, producer, file path, method) are known BY
CONSTRUCTION.  Every string is judged under three context variants (as generated / consumer moved
to another stage / package without manifest and application dependencies).

Oracle (from the property statement, not from the code):
  c1  compile_reference(parts of ParseDataReferenceFull(r)) == r
  c2  expanding a reference to its absolute form is idempotent
  c3  DataReference(r, stage): absolute and relative spellings re-parse to the same
      (stage, producer, file, method) - which are the generated ones for component references
  c4  classification: first path segment in reserved folders U application-dependency names U
      first segments of manifest keys, absolute path, or a variable  => never a component
      reference; otherwise producer known in its stage => component reference
  c5  FlowIRConcrete.validate() on a small document using the reference agrees (no "unknown
      component" for folder references and for references to known components)
plus  Manifest.top_level_folders == the set of left-most segments of the manifest keys.

The top-level folders are fed to the code twice: as returned by the real
`Manifest(manifest).top_level_folders` (feed "manifest", what conf.py does) and as computed by
construction (feed "reference"), so parser breakages stay visible independently of the manifest
helper.
"""
import os
import re
import sys
import time

import vlib
from checks._c09c19c20_util import quiet, finish_replay

quiet()
vlib.bootstrap()

PROP = "C09"
METHODS = ['copy', 'link', 'ref', 'copyout', 'extract', 'output', 'loopref', 'loopoutput']
RESERVED = ['input', 'data', 'bin', 'conf']
KEY_NESTED = "C09:manifest-nested-key-not-split-on-path-separator"
KEY_STAGE_RE = "C09:stage-prefix-regex-not-anchored-name-starting-with-stageN-misparsed"
KEY_ROOT_SLASH = "C09:compile-reference-doubles-slash-for-file-directly-under-root"

# ----------------------------------------------------------------------------- generator

_WORDS = ['gen', 'Sim', 'post-proc', 'a.b', 'k.l.m', 'comp2', 'x-1.y', 'Data', 'BIN', 'Conf', 'INPUT',
          'Input', 'data2', 'input-1', 'bin.x', 'conf.d', 'data.x', 'stage', 'stagex', 'mystage1', 'st.age0',
          'stage7', 'a_b', 'A', 'lammps2', 'Stage1.x', 'x.stage2.y', '7zip', 'v1.0.2', 'a-', '_', 'z9-.q',
          'stageX', 'stage1x', 'stage12abc', 'stage.y', 'stageX.y', 'stage1x.y', 'stage2-b.c', 'stage10x.v1.2',
          'stage3_.out', 'stage0data.csv']
_FOLDER_WORDS = ['hooks', 'data2', 'lib', 'a', 'Data', 'examples', 'src-1', 'my.dir', 'tools_2', 'x', 'Bin',
                 'python3.9', 'A', 'inputs', 'stage', 'stageX', 'stage1x', 'stage7', 'stage1x.d', 'stage22data.v2',
                 'stageX.d']
_ALPHA = 'abcdefghijklmnopqrstuvwxyzABCDEFGHIJKLMNOPQRSTUVWXYZ'
_ALNUM = _ALPHA + '0123456789'
_STAGE_EXACT = re.compile(r'^stage[0-9]+$')
_STAGE_START = re.compile(r'^stage([0-9]+)')


def is_absolute_spelling(name):
    """'stage<digits>.<something>' IS the absolute spelling of <something>: inherent ambiguity, never a name here."""
    return '.' in name and bool(_STAGE_EXACT.match(name.split('.', 1)[0]))


def stage_like_unanchored(name):
    """A name such as 'stage1x.y' / 'stage2-b.c': the text before the first dot STARTS with stage<digits> but is
    not a stage prefix.  Returns (digits as int, text after the first dot) or None.  Only used to classify."""
    if '.' not in name:
        return None
    head, rest = name.split('.', 1)
    m = _STAGE_START.match(head)
    if m and not _STAGE_EXACT.match(head):
        return int(m.group(1)), rest
    return None


def _rand_token(r, lo=1, hi=6, extra='_-'):
    n = r.randint(lo, hi)
    return ''.join(r.choice(_ALNUM + extra) for _ in range(n))


def _name_ok(name):
    """Producer names the check restricts itself to (see assumptions)."""
    if not name or name in RESERVED:
        return False
    if any(ch in name for ch in '/:%[]() \t&'):
        return False
    if name.startswith('.') or name.endswith('.'):
        return False
    # 'stage<digits>.x' IS an absolute spelling (inherent ambiguity of the syntax): excluded.  Names that merely
    # start like one ('stage1x.y', 'stageX', 'stage') are legal component / folder names and are generated.
    if is_absolute_spelling(name):
        return False
    return True


def gen_name(r):
    for _ in range(50):
        k = r.random()
        if k < 0.45:
            name = r.choice(_WORDS)
        elif k < 0.52:
            name = 'stage' + r.choice(['', 'X', '%d' % r.randint(0, 12), '%d%s' % (r.randint(0, 12), r.choice('xab_-'))])
            name += r.choice(['', '', _rand_token(r, 1, 3)])
            if r.random() < 0.6:
                name += '.' + _rand_token(r, 1, 3)
        elif k < 0.75:
            name = _rand_token(r)
            if r.random() < 0.4:
                name += '.' + _rand_token(r, 1, 3)
            if r.random() < 0.15:
                name += '.' + _rand_token(r, 1, 3)
        else:
            name = r.choice(RESERVED)
            name = r.choice([name.upper(), name.capitalize(), name + str(r.randint(0, 9)),
                             name + '-' + _rand_token(r, 1, 2), name + '.' + _rand_token(r, 1, 2),
                             'x' + name])
        if r.random() < 0.18:
            name = '%d#%s' % (r.choice([0, 1, 2, 9, 10, 11, 123]), name)
        if _name_ok(name):
            return name
    return 'fallback'


def gen_path(r):
    """A nested file path (no empty segments) or None."""
    k = r.random()
    if k < 0.25:
        return None
    depth = 1 if k < 0.6 else r.randint(2, 4)
    segs = []
    for _ in range(depth):
        s = r.choice(['out.txt', 'dir', 'a.b', '*.xyz', 'HISTORY', 'stage1.x', 'data', 'f-1_2', 'conf', 'x',
                      _rand_token(r, 1, 5, '._-')])
        if s in ('.', '..') or not s.strip('.'):
            s = 'f'
        segs.append(s)
    return '/'.join(segs)


def gen_context(r):
    nstages = r.randint(1, 5)
    stages = sorted(r.sample(range(0, 13), nstages))
    known = {}
    for s in stages:
        names = []
        for _ in range(r.randint(1, 4)):
            n = gen_name(r)
            if n not in names:
                names.append(n)
        known[str(s)] = names
    manifest = {}
    for _ in range(r.choice([0, 1, 2, 2, 3, 4])):
        first = r.choice(_FOLDER_WORDS) if r.random() < 0.7 else _rand_token(r, 1, 5, '._-')
        if first.strip('.') == '' or is_absolute_spelling(first):
            first = 'fld'
        key = first
        if r.random() < 0.45:
            key = first + '/' + '/'.join(r.choice(['b', 'sub', 'lib.d', 'x-1', 'data', 'c']) for _ in range(r.randint(1, 3)))
        src = r.choice(['/src/%s' % first, 'rel/%s' % first, '/abs/path/to/%s' % first])
        src += r.choice(['', ':copy', ':link'])
        manifest[key] = src
    appdeps = []
    for _ in range(r.choice([0, 0, 1, 2])):
        base = r.choice(['Foo', 'bar', 'Baz-2', 'qux_tools', 'DPD', 'lammps'])
        if r.random() < 0.45:
            # a folder name with dots besides the extension ('md.tools.application', 'CAF2.1.application'): only the
            # LAST suffix is the extension
            base = r.choice(['md.tools', 'CAF2.1', 'viz.v1.2', 'Open.MM', 'a.b.c', 'x-1.y_2',
                             _rand_token(r, 1, 4) + '.' + _rand_token(r, 1, 3),
                             _rand_token(r, 1, 3) + '.' + _rand_token(r, 1, 2) + '.' + _rand_token(r, 1, 2)])
            if is_absolute_spelling(base) or not _name_ok(base.lower()):
                base = 'md.tools'
        appdeps.append(r.choice(['/opt/apps/%s.application', '%s.package', '%s', '/a/b/%s.d/', '/x/%s',
                                 '/opt/apps/%s.application/', '%s.application']) % base)
    # a component that shares its name with a (non reserved) folder, living in its own stage: only its
    # explicit-stage spelling is unambiguous (the relative spelling is skipped by the judge)
    if r.random() < 0.35:
        folders = sorted(ref_folders({'manifest': manifest, 'appdeps': appdeps}) - set(RESERVED))
        folders = [f for f in folders if _name_ok(f)]
        if folders:
            free = [s for s in range(0, 14) if str(s) not in known]
            known[str(r.choice(free))] = [r.choice(folders)]
    ctx = {'stage': int(r.choice(stages)), 'known': known, 'manifest': manifest, 'appdeps': appdeps}
    # a component (in the consumer's stage, so that its relative spelling is judged) whose name is a proper
    # dot-prefix of an application-dependency folder name ('md' next to 'md.tools.application'): it is a component
    # like any other, 'md' is not the name of that application dependency
    prefixes = sorted(p for p in dot_prefixes(ctx) if _name_ok(p))
    if prefixes and r.random() < 0.8:
        p = r.choice(prefixes)
        mine = known[str(ctx['stage'])]
        if p not in mine:
            mine.insert(r.randint(0, len(mine)), p)
    return ctx


def dot_prefixes(ctx):
    """Proper dot-prefixes of the application-dependency folder names of a context ('viz', 'viz.v1' for
    'viz.v1.2') that are not themselves folders of the context."""
    out = set()
    for a in ctx['appdeps']:
        parts = appdep_name(a).split('.')
        for i in range(1, len(parts)):
            out.add('.'.join(parts[:i]))
    return out - ref_folders(ctx)


def appdep_name(app_dep):
    """Folder name of an application dependency, from its documentation: leading path and trailing
    extension removed, lower-cased."""
    p = app_dep.rstrip('/')
    if p.startswith('/'):
        p = p.rsplit('/', 1)[1]
    if '.' in p and not p.startswith('.'):
        p = p.rsplit('.', 1)[0] if p.rsplit('.', 1)[0] else p
    return p.lower()


def ref_top_level(manifest):
    out = []
    for k in manifest:
        f = k.split('/', 1)[0]
        if f not in out:
            out.append(f)
    return out


def ref_folders(ctx):
    return set(RESERVED) | set(appdep_name(a) for a in ctx['appdeps']) | set(ref_top_level(ctx['manifest']))


def mk_text(ref):
    kind = ref['kind']
    if kind in ('comp', 'var'):
        head = ref['name'] if ref['explicit_stage'] is None else 'stage%d.%s' % (ref['explicit_stage'], ref['name'])
    else:
        head = ref['name']
    if ref['rest'] is not None:
        head = head + '/' + ref['rest']
    return '%s:%s' % (head, ref['method'])


def mk_path_of(ref):
    return ref['name'] if ref['rest'] is None else ref['name'] + '/' + ref['rest']


def gen_ref(r, ctx):
    """One reference with by-construction parts."""
    k = r.random()
    method = r.choice(METHODS)
    known = ctx['known']
    ref = {'kind': 'comp', 'explicit_stage': None, 'name': None, 'rest': None, 'method': method}
    if k < 0.50:
        # reference to a (mostly known) component
        st = r.choice(sorted(known, key=int))
        if r.random() < 0.85:
            name = r.choice(known[st])
        else:
            name = gen_name(r)
        near = sorted(set(known[str(ctx['stage'])]) & dot_prefixes(ctx))
        if near and r.random() < 0.2:
            # the component named like the head of a dotted application-dependency name, from its own stage
            st, name = str(ctx['stage']), r.choice(near)
        ref['name'] = name
        if r.random() < 0.55 or int(st) != ctx['stage']:
            ref['explicit_stage'] = int(st)
        ref['rest'] = gen_path(r)
    elif k < 0.62:
        ref['kind'] = 'reserved'
        ref['name'] = r.choice(RESERVED)
        ref['rest'] = gen_path(r)
    elif k < 0.80 and ctx['manifest']:
        ref['kind'] = 'manifest'
        key = r.choice(sorted(ctx['manifest']))
        segs = key.split('/')
        ref['name'] = segs[0]
        # the reference goes into the declared folder, next to it, or names the top folder itself
        c = r.random()
        if c < 0.5:
            tail = segs[1:] + ([gen_path(r)] if r.random() < 0.8 else [])
        elif c < 0.85:
            tail = [gen_path(r)]
        else:
            tail = []
        tail = [t for t in tail if t]
        ref['rest'] = '/'.join(tail) if tail else None
    elif k < 0.88 and ctx['appdeps']:
        ref['kind'] = 'appdep'
        ref['name'] = appdep_name(r.choice(ctx['appdeps']))
        ref['rest'] = gen_path(r)
    elif k < 0.94:
        ref['kind'] = 'abs'
        nseg = r.choice([1, 1, 2, 2, 3, 4])
        segs = [r.choice(['tmp', 'gpfs', 'a.b', 'data', 'stage0.x', 'u-1', 'opt', 'stage1x.y']) for _ in range(nseg)]
        # written as <directory>/<last segment>; a single segment has no directory part ('/tmp:link');
        # a trailing slash is an empty last segment ('/tmp/dir/:ref')
        if nseg == 1:
            ref['name'], ref['rest'] = '/' + segs[0], None
        else:
            ref['name'], ref['rest'] = '/' + '/'.join(segs[:-1]), segs[-1]
        if r.random() < 0.2:
            ref['name'], ref['rest'] = mk_path_of(ref), ''
    else:
        ref['kind'] = 'var'
        # the producer is, or contains, a variable: '%(p)s', 'pre%(p)s', '%(p)s-suf', '%(a)s.%(b)s' ...
        v = lambda: '%%(%s)s' % r.choice(['v', 'p', 'producer', 'input-dir', 'my.var', 'a.b', 'DATA_ROOT', 'x1'])
        ref['name'] = r.choice([v(), v(), 'pre' + v(), 'prefix-' + v(), v() + '-suf', v() + '2', v() + '.' + v(),
                                'a.' + v(), v() + '_' + v()])
        ref['rest'] = gen_path(r)
        # ... written relatively or qualified with a stage: it is never a reference to a component either way
        if r.random() < 0.5:
            ref['explicit_stage'] = r.randint(0, 13)
    if ref['name'] is None:
        ref['name'] = r.choice(known[sorted(known, key=int)[0]])
        ref['rest'] = gen_path(r)
    ref['text'] = mk_text(ref)
    return ref


def variants(r, ctx):
    out = [('as-generated', ctx)]
    others = [int(s) for s in ctx['known'] if int(s) != ctx['stage']]
    c2 = dict(ctx)
    c2['stage'] = r.choice(others) if others and r.random() < 0.8 else r.randint(0, 13)
    out.append(('other-stage', c2))
    c3 = dict(ctx)
    c3['manifest'] = {}
    c3['appdeps'] = []
    out.append(('no-folders', c3))
    return out


# ----------------------------------------------------------------------------- reference classifier

def classify(ref, ctx):
    """-> ('noncomp',) | ('comp', stage, name) | ('unknown',) | ('ambiguous',)   (from the statement)"""
    if ref['kind'] in ('abs', 'var'):
        return ('noncomp',)
    folders = ref_folders(ctx)
    known = ctx['known']
    if ref['kind'] == 'comp' and ref['explicit_stage'] is not None:
        st = ref['explicit_stage']
        # first path segment is "stageN.name": not a folder name (folders never look like that here)
        if ref['name'] in known.get(str(st), []):
            return ('comp', st, ref['name'])
        return ('unknown',)
    first = ref['name']
    if first in folders:
        if first in known.get(str(ctx['stage']), []):
            # a component named like a folder, referenced relatively: the code base documents this
            # as unsupported; the statement would say "never a component" - not judged
            return ('ambiguous',)
        return ('noncomp',)
    if first in known.get(str(ctx['stage']), []):
        return ('comp', ctx['stage'], first)
    return ('unknown',)


def name_shape(name):
    low = name.lower()
    return ''.join([
        'D' if '.' in name else '-', 'H' if '-' in name else '-', 'N' if any(c.isdigit() for c in name) else '-',
        'L' if '#' in name else '-',
        'R' if any(low.startswith(x) or low.endswith(x) for x in RESERVED) else '-',
        'S' if low.startswith('stage') else '-'])


# ----------------------------------------------------------------------------- judge

_mods = {}


def mods():
    if not _mods:
        from experiment.model.frontends.flowir import FlowIR, Manifest, FlowIRConcrete
        import experiment.model.graph as graph
        import experiment.model.errors as errors
        _mods.update(FlowIR=FlowIR, Manifest=Manifest, FlowIRConcrete=FlowIRConcrete, graph=graph, errors=errors)
    return _mods


def canon(stage, name, file, method, absolute=True):
    head = 'stage%d.%s' % (stage, name) if absolute else name
    if file is not None:
        head += '/' + file
    return '%s:%s' % (head, method)


def judge(ref, ctx, do_validate=False):
    """Run every clause on one (reference, context). Returns (failures, clause_counts, truth).
    A failure is {'clause', 'feed', 'detail'}."""
    m = mods()
    FlowIR, Manifest, graph = m['FlowIR'], m['Manifest'], m['graph']
    r = ref['text']
    stage = ctx['stage']
    known = {int(k): list(v) for k, v in ctx['known'].items()}
    appdeps = list(ctx['appdeps'])
    adnames = [appdep_name(a) for a in appdeps]
    fails, hits = [], {}

    def hit(c):
        hits[c] = hits.get(c, 0) + 1

    def fail(clause, feed, detail):
        fails.append({'clause': clause, 'feed': feed, 'detail': detail})

    truth = classify(ref, ctx)

    want_tlf = ref_top_level(ctx['manifest'])
    got_tlf = list(Manifest(dict(ctx['manifest'])).top_level_folders)

    # --- c1 parse -> print (context free)
    s, p, f, me = FlowIR.ParseDataReferenceFull(r)
    back = FlowIR.compile_reference(p, f, me, s)
    if ref['kind'] == 'var' and ref['explicit_stage'] is not None:
        # ParseDataReferenceFull signals "not a component" by stage None, so its 4-tuple cannot carry the stage
        # prefix of a stage-qualified variable reference: the printed form is the relative spelling.  The exact
        # round trip of these strings is judged on ParseDataReference below (c1_plain) and on DataReference (c3).
        hit('c1_stage_qualified_variable')
        if s is not None or back != mk_text(dict(ref, explicit_stage=None)):
            fail('c1_stage_qualified_variable', '-', {'parts': [s, p, f, me], 'printed': back})
    else:
        hit('c1_roundtrip')
        if back != r:
            fail('c1_roundtrip', '-', {'parts': [s, p, f, me], 'printed': back})
    if me != ref['method']:
        fail('c1_method', '-', {'got': me})
    pr, pf, pm = FlowIR.ParseDataReference(r)
    hit('c1_plain')
    if FlowIR.compile_reference(pr, pf, pm) != r:
        fail('c1_plain', '-', {'parts': [pr, pf, pm], 'printed': FlowIR.compile_reference(pr, pf, pm)})

    # --- c3 DataReference spellings (by-construction parts for component-shaped references)
    if ref['kind'] == 'comp':
        st = ref['explicit_stage'] if ref['explicit_stage'] is not None else stage
        want = (st, ref['name'], ref['rest'], ref['method'])
        d = graph.DataReference(r, stage)
        got = (d.stageIndex, d.producerName, d.path, d.method)
        hit('c3_parts')
        if got != want:
            fail('c3_parts', '-', {'got': list(got), 'want': list(want)})
        a, rel = d.absoluteReference, d.relativeReference
        if a != canon(*want) or rel != canon(*want, absolute=False):
            fail('c3_spelling', '-', {'absolute': a, 'relative': rel})
        for spelled, ix in ((a, None), (a, (st + 1) % 14), (rel, st)):
            d2 = graph.DataReference(spelled, ix)
            hit('c3_respell')
            got2 = (d2.stageIndex, d2.producerName, d2.path, d2.method)
            if got2 != want:
                fail('c3_respell', '-', {'spelled': spelled, 'index': ix, 'got': list(got2), 'want': list(want)})
        cid = graph.ComponentIdentifier(d.producerIdentifier.identifier)
        if (cid.stageIndex, cid.componentName) != want[:2]:
            fail('c3_identifier', '-', {'identifier': d.producerIdentifier.identifier})
    else:
        d = graph.DataReference(r, None)
        hit('c3_direct')
        # (DataReference is context free: a stage prefix in the text is kept as written)
        if d.stageIndex != ref.get('explicit_stage') or (d.namespace is None) != (ref.get('explicit_stage') is None):
            fail('c3_direct', '-', {'stageIndex': d.stageIndex})
        d2 = graph.DataReference(d.absoluteReference, None)
        d3 = graph.DataReference(d.relativeReference, d.stageIndex)
        t = (d.stageIndex, d.producerName, d.path, d.method)
        if (d2.stageIndex, d2.producerName, d2.path, d2.method) != t \
                or (d3.stageIndex, d3.producerName, d3.path, d3.method) != t or d.absoluteReference != r:
            fail('c3_direct', '-', {'absolute': d.absoluteReference, 'relative': d.relativeReference})
        if ref['kind'] == 'var':
            # agreement of the parsers on the by-construction parts of a variable reference
            hit('c6_variable_parts_agree')
            fullp = FlowIR.ParseDataReferenceFull(r, stage)
            want = (ref['name'], ref['rest'], ref['method'])
            if tuple(fullp[1:]) != want or (d.producerName, d.path, d.method) != want:
                fail('c6_variable_parts_agree', '-', {'full': list(fullp), 'datareference': list(t), 'want': list(want)})

    # --- context dependent clauses, once per feed of top-level folders
    feeds = [('reference', list(want_tlf))]
    if ctx['manifest']:
        feeds.insert(0, ('manifest', got_tlf))
    for feed, tlf in feeds:
        # c2 idempotence (all references, also of unknown producers)
        for kc, label in ((known, 'known'), (None, 'none')):
            e1 = FlowIR.expand_component_references([r], stage, kc, appdeps, list(tlf))[0]
            e2 = FlowIR.expand_component_references([e1], stage, kc, appdeps, list(tlf))[0]
            hit('c2_idempotent')
            if e1 != e2:
                fail('c2_idempotent', feed, {'components': label, 'once': e1, 'twice': e2})
            if truth[0] == 'comp':
                hit('c4_expand_comp')
                if e1 != canon(truth[1], truth[2], ref['rest'], ref['method']):
                    fail('c4_expand_comp', feed, {'components': label, 'got': e1})
            elif truth[0] == 'noncomp':
                hit('c4_expand_noncomp')
                if e1 != r:
                    fail('c4_expand_noncomp', feed, {'components': label, 'got': e1})
        if truth[0] in ('comp', 'noncomp'):
            full = FlowIR.ParseDataReferenceFull(r, stage, application_dependencies=appdeps, special_folders=list(tlf))
            isc = FlowIR.is_datareference_to_component(r, list(tlf) + adnames)
            # validate_references: nothing may be reported as an unknown component (folder / path / variable
            # references are not components; known components are known)
            comp_ids = [(int(st), n) for st, names in ctx['known'].items() for n in names]
            missing = FlowIR.validate_references([r], comp_ids, stage, list(tlf) + adnames)
            hit('c4_validate_references')
            if missing:
                fail('c4_validate_references', feed, {'reported_unknown': list(missing)})
            if truth[0] == 'noncomp':
                pot = FlowIR.expand_potential_component_reference(r, stage, known, None)
                hit('c4_expand_potential_noncomp')
                if pot != r and ref['kind'] in ('abs', 'var'):
                    # (without folder information only paths and variables are recognisable)
                    fail('c4_expand_potential_noncomp', feed, {'got': pot})
            if truth[0] == 'comp':
                hit('c4_full_comp')
                if ref['explicit_stage'] is None and truth[2] in dot_prefixes(ctx):
                    hit('c4_appdep_prefix_comp_relative')
                want = (truth[1], truth[2], ref['rest'], ref['method'])
                if tuple(full) != want:
                    fail('c4_full_comp', feed, {'got': list(full), 'want': list(want)})
                elif FlowIR.compile_reference(full[1], full[2], full[3], full[0]) != canon(*want):
                    fail('c4_full_comp', feed, {'printed': FlowIR.compile_reference(full[1], full[2], full[3], full[0])})
                if isc is not True:
                    fail('c4_is_component', feed, {'got': isc, 'want': True})
            else:
                hit('c4_full_noncomp')
                if ref['kind'] == 'appdep' and '.' in ref['name']:
                    hit('c4_dotted_appdep_noncomp')
                if full[0] is not None:
                    fail('c4_full_noncomp', feed, {'got': list(full)})
                if isc is not False:
                    fail('c4_is_component', feed, {'got': isc, 'want': False})
            if do_validate and ref['kind'] != 'var':
                errs = run_validate(ref, ctx, tlf)
                hit('c5_validate_' + truth[0])
                if errs:
                    fail('c5_validate', feed, {'errors': errs[:3]})
    return fails, hits, truth


def run_validate(ref, ctx, tlf):
    m = mods()
    comps = []
    for st, names in ctx['known'].items():
        for n in names:
            comps.append({'stage': int(st), 'name': n, 'command': {'executable': 'echo'}})
    comps.append({'stage': ctx['stage'], 'name': 'zz-consumer', 'command': {'executable': 'echo', 'arguments': 'hi'},
                  'references': [ref['text']]})
    doc = {'components': comps}
    if ctx['appdeps']:
        doc['application-dependencies'] = {'default': list(ctx['appdeps'])}
    concrete = m['FlowIRConcrete'](doc, 'default', {})
    errs = concrete.validate(top_level_folders=list(tlf))
    return ['%s: %s' % (type(e).__name__, str(e)[:200]) for e in errs]


def classify_known(ref, ctx, failure):
    """Structural classifier of the one recorded mechanism: a manifest key with a nested target
    ('a/b') is returned whole by Manifest.top_level_folders, so its left-most folder is not known as a
    top-level folder and a relative reference into it is taken for a component reference.  Requires:
    the failure arose ONLY with the folders obtained from the real Manifest (the same clause holds
    with the by-construction folder list), the first segment of the reference is the left-most
    segment of a nested key and of no plain key / reserved folder / application dependency, and the
    real helper returned that nested key unsplit."""
    if failure['feed'] != 'manifest':
        return None
    man = ctx['manifest']
    nested_firsts = {k.split('/', 1)[0] for k in man if '/' in k}
    plain = {k for k in man if '/' not in k}
    got = list(mods()['Manifest'](dict(man)).top_level_folders)
    unsplit = [k for k in man if '/' in k and k in got and k.split('/', 1)[0] not in got]
    if failure['clause'] == 'top_level_folders':
        missing = set(failure['detail']['missing'])
        # exactly the left-most folders of nested keys that came back unsplit are missing
        if unsplit and missing and missing == {k.split('/', 1)[0] for k in unsplit}:
            return KEY_NESTED
        return None
    if failure['clause'] not in ('c4_full_noncomp', 'c4_is_component', 'c4_expand_noncomp', 'c5_validate',
                                 'c4_validate_references'):
        return None
    if ref['kind'] != 'manifest' and not (ref['kind'] == 'comp' and ref['explicit_stage'] is None):
        return None
    first = ref['name']
    if first in nested_firsts and first not in plain and first not in RESERVED \
            and first not in [appdep_name(a) for a in ctx['appdeps']] \
            and any(k.split('/', 1)[0] == first for k in unsplit):
        return KEY_NESTED
    return None


def classify_stage_regex(ref, failure):
    """Recorded mechanism: ParseProducerReference tests the text before the first dot with
    re.match(r"stage([0-9]+)") - no end anchor - so a producer / folder name that merely STARTS with
    stage<digits> and contains a dot ('stage1x.y') is read as component 'y' of stage 1.  Requires that
    shape in the first path segment of the reference (relative spelling of it is involved in every failing
    clause) and that the real parser returns exactly (digits, text after the first dot, hasIndex=True)."""
    if ref['kind'] not in ('comp', 'manifest', 'appdep'):
        return None
    shape = stage_like_unanchored(ref['name'])
    if shape is None:
        return None
    if tuple(mods()['FlowIR'].ParseProducerReference(ref['name'], 99)) != (shape[0], shape[1], True):
        return None
    if failure['clause'] == 'c1_roundtrip' and ref['explicit_stage'] is None:
        if not str(failure['detail'].get('printed', '')).startswith('stage%d.%s' % shape):
            return None
    if failure['clause'] in ('c2_idempotent', 'top_level_folders', 'c1_method'):
        return None
    return KEY_STAGE_RE


def classify_root_slash(ref, failure):
    """Recorded mechanism: a file directly under '/' parses as (producer '/', file 'tmp') and
    compile_reference joins them with another '/': '/tmp:link' prints as '//tmp:link'."""
    if failure['clause'] != 'c1_roundtrip' or ref['kind'] != 'abs':
        return None
    path = ref['text'].rsplit(':', 1)[0]
    if os.path.dirname(path) == '/' and failure['detail'].get('printed') == '/' + ref['text'] \
            and failure['detail'].get('parts', [None, None])[1] == '/':
        return KEY_ROOT_SLASH
    return None


def judge_and_report(ref, ctx, vname, w, do_validate=False):
    fails, hits, truth = judge(ref, ctx, do_validate)
    w.evaluated()
    for k, v in hits.items():
        w.count(k, v)
    w.count('truth_' + truth[0])
    w.count('kind_' + ref['kind'])
    depth = 0 if ref['rest'] is None else min(3, ref['rest'].count('/') + 1)
    if truth[0] != 'unknown' or ref['kind'] == 'comp':
        w.distinct('|'.join([ref['kind'], 'E' if ref['explicit_stage'] is not None else 'R', name_shape(ref['name']),
                             str(depth), ref['method'], truth[0], vname,
                             'N' if any('/' in k for k in ctx['manifest']) else 'P',
                             'X' if ref['kind'] == 'comp' and ref['name'] in dot_prefixes(ctx) else '-']))
    if w.evaluations % 997 == 1:
        w.sample({'reference': ref['text'],
                  'parts': {k: ref[k] for k in ('kind', 'explicit_stage', 'name', 'rest', 'method')},
                  'context': ctx, 'variant': vname, 'truth': list(truth)})
    if not fails:
        return
    # the same clause under the by-construction folder list decides whether the manifest helper is to blame
    ref_feed_failed = {f['clause'] for f in fails if f['feed'] in ('reference', '-')}
    for f in fails:
        key = None
        if f['clause'] not in ref_feed_failed or f['clause'] == 'top_level_folders':
            key = classify_known(ref, ctx, f)
        if key is None:
            key = classify_stage_regex(ref, f) or classify_root_slash(ref, f)
        if key is not None:
            # one mechanism re-observed thousands of times: list the first few per worker, count the rest
            _keyed[key] = _keyed.get(key, 0) + 1
            w.count('reobserved_' + key.split(':', 1)[1])
            if _keyed[key] > 15:
                continue
        w.violation('%s [%s feed, %s] reference %r in stage %d: %s' % (
            f['clause'], f['feed'], vname, ref['text'], ctx['stage'], vlib.jsonable(f['detail'])),
            {'reference': ref, 'context': ctx, 'variant': vname, 'validate': do_validate, 'failure': f,
             'truth': list(truth)}, finding_key=key)


_keyed = {}


def judge_manifest(ctx, w):
    """Manifest.top_level_folders must contain the left-most folder of every manifest key (judged
    once per context; extra entries do not affect classification and are not judged)."""
    want = ref_top_level(ctx['manifest'])
    got = list(mods()['Manifest'](dict(ctx['manifest'])).top_level_folders)
    w.count('top_level_folders')
    missing = [x for x in want if x not in got]
    if missing:
        f = {'clause': 'top_level_folders', 'feed': 'manifest', 'detail': {'got': got, 'want': want, 'missing': missing}}
        key = classify_known(None, ctx, f)
        if key is not None:
            _keyed[key] = _keyed.get(key, 0) + 1
            w.count('reobserved_' + key.split(':', 1)[1])
            if _keyed[key] > 15:
                return
        w.violation('top_level_folders of manifest %r lacks %r (returned %r)' % (ctx['manifest'], missing, got),
                    {'manifest_helper': True, 'context': ctx, 'failure': f}, finding_key=key)


def run_job(job, w):
    r = vlib.rng(PROP, 'job', job['id'])
    n_ctx, per_ctx = job['contexts'], job['refs']
    every = job['validate_every']
    for ci in range(n_ctx):
        ctx = gen_context(r)
        refs = [gen_ref(r, ctx) for _ in range(per_ctx)]
        vs = variants(r, ctx)
        if ctx['manifest']:
            judge_manifest(ctx, w)
        for ri, ref in enumerate(refs):
            for vname, vctx in vs:
                dv = (ci % every == 0) and ri < job['validate_refs'] and vname != 'no-folders'
                judge_and_report(ref, vctx, vname, w, do_validate=dv)


if "--worker" in sys.argv:
    vlib.worker_main(run_job)


def main():
    c = vlib.Check(PROP, "exploration",
                   rule="grammar-generated reference strings (by-construction parts) x 3 context variants; one evaluation = "
                        "one (string, context) pair through every clause; distinct = distinct structural classes "
                        "(reference kind, explicit/relative stage, producer-name shape [dot,dash,digit,loop prefix,"
                        "reserved-word-like,stage-like], file depth, method, expected class, context variant, manifest "
                        "has nested key) among pairs whose class the statement decides",
                   assumptions=[
                       "producer names: no '/', ':', '%', brackets or blanks; not exactly a reserved folder name; a name "
                       "of the form 'stage<digits>.<rest>' is not generated (it IS the absolute spelling of <rest>); names "
                       "that merely start like a stage prefix ('stage1x.y', 'stageX', 'stage') are generated",
                       "a component named like a non-reserved top-level folder is only referenced with an explicit "
                       "stage prefix (the relative spelling is documented as unsupported and is not judged)",
                       "absolute paths have 1-4 segments, optionally a trailing slash ('/' alone is not generated); file "
                       "paths of component references have no empty, '.' or '..' segments",
                       "variable references: the producer is or contains %(name)s, with or without a stageN. prefix; they are "
                       "never component references; ParseDataReferenceFull cannot carry their stage prefix (stage None is "
                       "its non-component signal) so their exact round trip is judged on ParseDataReference + "
                       "compile_reference and on DataReference",
                       "manifest keys are never of the form 'stage<digits>.<rest>'; application-dependency folder name = basename "
                       "without extension, lower-cased (documentation of application_dependency_to_name); for a folder name with several "
                       "dots ('md.tools.application', 'CAF2.1.package') only the last suffix is the extension; a component named "
                       "like a proper dot-prefix of such a name ('md') is a component like any other",
                       "for references to folders only classification and self-consistency are judged, not how the "
                       "path is split between producer and file",
                   ])
    rp = vlib.load_replay(sys.argv)
    if rp is not None:
        wit = rp['witness']
        w = vlib.Worker()
        if wit.get('manifest_helper'):
            judge_manifest(wit['context'], w)
            label = 'manifest %r' % (wit['context']['manifest'],)
        else:
            judge_and_report(wit['reference'], wit['context'], wit['variant'], w, do_validate=wit.get('validate', False))
            label = '%r in stage %d' % (wit['reference']['text'], wit['context']['stage'])
        c.merge_worker(w.summary())
        sys.exit(finish_replay(c, label))

    if c.tier == 'quick':
        n_jobs, contexts, refs, every, vrefs = 16, 720, 30, 6, 6
    else:
        n_jobs, contexts, refs, every, vrefs = 64, 11500, 30, 8, 6
    jobs = []
    for i, rg in enumerate(vlib.split(contexts, n_jobs)):
        jobs.append({'id': i, 'contexts': len(rg), 'refs': refs, 'validate_every': every, 'validate_refs': vrefs})
    vlib.fanout("checks.C09", jobs, c, timeout=1500)
    if c.tier == 'quick':
        c.floor('evaluations', 60000)
        c.floor('c4_full_comp', 15000)
        c.floor('c4_full_noncomp', 15000)
        c.floor('c3_parts', 25000)
        c.floor('c5_validate_comp', 400)
        c.floor('c5_validate_noncomp', 400)
    else:
        c.floor('evaluations', 1000000)
        c.floor('c4_full_comp', 250000)
        c.floor('c4_full_noncomp', 250000)
        c.floor('c3_parts', 400000)
        c.floor('c5_validate_comp', 5000)
        c.floor('c5_validate_noncomp', 5000)
    c.floor('c1_plain', c.floors['evaluations'])
    c.floor('c1_stage_qualified_variable', 1000 if c.tier == 'quick' else 15000)
    c.floor('c6_variable_parts_agree', 2500 if c.tier == 'quick' else 40000)
    c.floor('c4_validate_references', 60000 if c.tier == 'quick' else 900000)
    c.floor('c2_idempotent', c.floors['evaluations'])
    c.floor('c4_dotted_appdep_noncomp', 400 if c.tier == 'quick' else 6000)
    c.floor('c4_appdep_prefix_comp_relative', 120 if c.tier == 'quick' else 2000)
    sys.exit(c.finish())


if __name__ == "__main__":
    main()
