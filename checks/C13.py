"""C13 — A repeating observer sees its producers' final output and then stops.

Direct drive of a real RepeatingEngine (rt.repeating): the harness plays the producers (writes their
output files) and delivers the producers-finished notification at a chosen suspension point of a chosen
kernel pass (points the kernel itself reaches) or at a virtual time.  Oracle over sequence numbers:
(a) no launch before every same-stage producer has output; (b) a self-stopped engine that was able to
consume launched an execution after the last output; (c) it stops after the first successful execution
of a pass that began after the notification, within repeatRetries + 3 kernel passes.
A second slice runs producer + observer through the real Controller / ComponentState notification path.
"""
from __future__ import annotations

import os
import shutil
import sys

import vlib

vlib.bootstrap()

PROP = "C13"


def run_job(job, w):
    from rt import harness, repeating
    harness.setup_process(job["K"])
    ty = None
    if job.get("ty_which"):
        # sleeps at line boundaries inside the engine life-cycle functions / controller callbacks (see rt.harness)
        ty = harness.install_targeted_yield(p=0.15, max_sleep=0.004, seed=job.get("ty_seed", 0), which=job["ty_which"])
    for sc in job["scenarios"]:
        if "wf" in sc:
            run_controller_scenario(sc, w, job)
            continue
        loc = vlib.mkscratch("c13")
        try:
            r = repeating.run_direct(sc, loc, watchdog_s=job.get("watchdog_s", 60.0))
        finally:
            shutil.rmtree(loc, ignore_errors=True)
        w.evaluated()
        if r["build_error"]:
            w.count("build_errors")
            w.note_inconclusive("scenario did not load: %s" % r["build_error"])
            continue
        viol, cnt = repeating.judge(sc, r)
        for k, v in cnt.items():
            w.count(k, v)
        w.count("verdict_" + str(r["verdict"]))
        if r["verdict"] == "watchdog":
            w.count("watchdog_inconclusive")
        ev = r["events"]
        w.distinct(harness.signature(ev, kinds=("launch", "exit", "output", "notify_all_producers_finished",
                                                "kernel.enter", "engine.kill", "inject")))
        slim = [{k: e[k] for k in e if k not in ("thread", "preds", "graph_preds", "comp")} | {"c": e["comp"]}
                for e in ev if e["kind"] not in ("storm.wake",)][:160]
        for v in viol:
            w.violation("%s %s" % (v["clause"], {k: v[k] for k in v if k != "clause"}),
                        {"scenario": sc, "violation": v, "verdict": r["verdict"], "trace": slim},
                        finding_key=classify(v, sc))
        if len(w.samples) < 1:
            w.sample({"scenario": sc, "verdict": r["verdict"], "events": slim[:40]})


def run_controller_scenario(sc, w, job):
    """Second slice: producers + observers through the real Controller / ComponentState notification path."""
    from rt import harness, repeating, wfgen
    wf, script = sc["wf"], sc["script"]
    nodes = wfgen.expand(wf)
    loc = vlib.mkscratch("c13c")
    try:
        r = harness.run_scenario(wfgen.to_flowir(wf), script, loc, perturb_seed=sc["pseed"], jitter_p=sc["jitter_p"],
                                 jitter_max=0.02, storm=sc["storm"], watchdog_s=job.get("watchdog_s", 90.0))
    finally:
        shutil.rmtree(loc, ignore_errors=True)
    w.evaluated()
    w.count("ctl_runs")
    if r["build_error"]:
        w.count("build_errors")
        w.note_inconclusive("controller-slice workflow did not load: %s" % r["build_error"])
        return
    viol, cnt = repeating.judge_controller(nodes, r)
    for k, v in cnt.items():
        w.count(k, v)
    ev = r["events"]
    w.distinct("ctl-" + harness.signature(ev, kinds=("launch", "exit", "notify_all_producers_finished", "engine.kill")))
    for v in viol:
        w.violation("controller-slice %s %s" % (v["clause"], {k: v[k] for k in v if k != "clause"}),
                    {"scenario": sc, "violation": v,
                     "trace": [{k: e[k] for k in e if k not in ("thread", "preds", "graph_preds")} for e in ev
                               if e["kind"] in ("launch", "exit", "output", "notify_all_producers_finished",
                                                "engine.kill", "cs.finish", "kernel.enter")][:200]},
                    finding_key=classify(v, sc))


def classify(v, sc):
    return None


if "--worker" in sys.argv:
    vlib.worker_main(run_job)


def gen_scenario(rng):
    from rt import repeating
    reasons = ["Success", "Success", "KnownIssue", "ResourceExhausted"]
    n_exec = rng.randint(0, 5)
    sc = {
        "interval": rng.choice([2.0, 5.0, 8.0]), "retries": rng.choice([0, 0, 1, 3, None]),
        "check_output": rng.random() < 0.7, "kill_delay": rng.choice([None, None, None, 3.0, 12.0]),
        "producer_repeat": rng.random() < 0.6, "n_producers": rng.choice([1, 1, 2]),
        "obs_script": [({"reason": rng.choice(reasons), "duration": rng.choice([0.5, 1.0, 2.0, 4.0])} if rng.random() < 0.9
                        else {"launch_error": rng.choice(["OSError", "JobLaunchError"])}) for _ in range(n_exec)],
        "obs_tail": rng.choice([{"reason": "Success", "duration": 1.0}] * 6 + [{"reason": "KnownIssue", "duration": 1.0},
                                {"launch_error": "JobLaunchError"}]) | {"duration": rng.choice([0.5, 1.0, 3.0])},
    }
    if rng.random() < 0.2:
        # failed submissions interleaved with successful executions: whichever attempt is the first one after the
        # producers finished is often a failed launch that directly follows an execution that succeeded (before T)
        phase = rng.randint(0, 1)
        sc["obs_script"] = [({"launch_error": rng.choice(["OSError", "JobLaunchError"])} if (i + phase) % 2
                             else {"reason": "Success", "duration": rng.choice([0.5, 1.0, 2.0])}) for i in range(rng.randint(4, 10))]
        sc["obs_tail"] = {"reason": "Success", "duration": 1.0}
        sc["retries"] = rng.choice([1, 3, None])
        sc["kill_delay"] = None
    fo = rng.choice(["at", "at", "point", "initial"])
    if fo == "initial":
        # output that already exists when the observer starts (e.g. producers of an earlier stage, restarts)
        sc["first_output"] = "initial"
    elif fo == "at":
        # producers write their first output only after the observer has been started (the controller submits an
        # observer right after its subject has been staged, before the subject's task launches)
        sc["first_output"] = {"at": rng.choice([0.3, 1.0, 4.0, 9.0])}
    else:
        sc["first_output"] = {"point": rng.choice(["pass.enter", "outputSince.enter", "canConsume.enter", "pass.exit"]),
                              "nth": rng.randint(1, 3)}
    mode = rng.choice(["point", "point", "point", "at"])
    do = rng.choice([["output", "notify"], ["output", "notify"], ["notify"]])
    if mode == "at":
        sc["final"] = {"at": rng.choice([0.5, 3.0, 8.0, 15.0, 25.0]), "do": do}
    else:
        sc["final"] = {"point": rng.choice(repeating.POINTS), "nth": rng.randint(1, 4), "do": do}
    if rng.random() < 0.15:
        # the producers' LAST output and their finished-notification land inside the window in which the observer's
        # task is being created / has just been created (the reference date of "new output since my last launch"
        # is taken around there), with few retries so that no later fallback execution masks a skipped one
        sc.update({"check_output": True, "producer_repeat": True, "retries": rng.choice([0, 0, 1, 2]), "kill_delay": None,
                   "obs_script": [{"reason": "Success", "duration": rng.choice([0.5, 1.0])} for _ in range(6)],
                   "obs_tail": {"reason": "Success", "duration": 1.0},
                   "final": {"point": rng.choice(["factory", "factory", "wait.exit", "outputSince.exit", "canConsume.exit"]),
                             "nth": rng.randint(1, 3), "do": ["output", "notify"]}})
        sc["first_output"] = {"at": 0.3}
    if sc["n_producers"] == 2 and rng.random() < 0.5:
        # two same-stage producers of which only the first-listed one has output for 6-14 virtual s
        sc["first_only_producer0"] = rng.choice([6.0, 9.0, 14.0])
    if rng.random() < 0.3:
        sc["extra_outputs"] = [{"at": rng.choice([2.0, 6.0, 11.0])} for _ in range(rng.randint(1, 2))]
    if rng.random() < 0.1:
        sc["ext_kill_at"] = rng.choice([5.0, 15.0])
    if sc["kill_delay"] is not None and rng.random() < 0.6:
        # the kill delay expires while an execution is still running, on a backend whose kill() returns slowly
        lat = rng.choice([0.0, 0.5, 1.0])
        sc["obs_script"] = [dict(e, duration=rng.choice([6.0, 9.0, 15.0]), kill_latency=lat) if "reason" in e else e
                            for e in sc["obs_script"]]
        sc["obs_tail"] = dict(sc["obs_tail"], duration=rng.choice([6.0, 9.0]), kill_latency=lat) \
            if "reason" in sc["obs_tail"] else sc["obs_tail"]
        sc["first_output"] = {"at": 0.3}
    return sc


def main():
    c = vlib.Check(PROP, "exploration",
                   rule="one evaluation = one real RepeatingEngine driven to its end with the producers-finished "
                        "notification injected at a chosen suspension point of a chosen kernel pass (or virtual time); "
                        "distinct = distinct sequence of (launch, exit, output, notification, kernel pass, kill, inject) events",
                   assumptions=["the harness plays the producers (files + notification); the engine, its monitor loop "
                                "and the task API calls are the repository's code",
                                "'execution began after T' is judged at kernel-pass granularity",
                                "not stopping is decided by counting kernel passes; a wall-clock watchdog only yields inconclusive"])
    thorough = c.tier == "thorough"
    K = float(os.environ.get("VERIF_K", "20"))
    rp = vlib.load_replay(sys.argv)
    if rp is not None:
        vlib.fanout("checks.C13", [{"K": K, "scenarios": [rp["witness"]["scenario"]] * 3}], c, 600)
        c.floor("kernel_passes", 1)
        sys.exit(c.finish())
    budget = float(os.environ.get("VERIF_BUDGET_S", "780" if thorough else "55"))
    floor_runs = 4000 if thorough else 200
    per_child = 14
    rnd = 0
    while True:
        rng = vlib.rng(PROP, rnd)
        scs = [gen_scenario(rng) for _ in range(vlib.NPROC * per_child)]
        jobs = [{"K": K if not (thorough and rnd % 5 == 4) else 5.0, "scenarios": scs[i:i + per_child]}
                for i in range(0, len(scs), per_child)]
        # controller slice: a quarter of the children run observers through the real notification path
        from rt import scenarios as _scn
        for j in jobs[::4]:
            ctl = []
            for _ in range(6):
                pair = _scn.gen_pair(rng, max_stages=2, max_comps=5, p_repeat=0.6, allow_replicate=False)
                # producers succeed so that observers are expected to stop on their own
                pair["script"] = _scn.gen_script(rng, __import__("rt.wfgen", fromlist=["x"]).expand(pair["wf"]), p_bad=0.15,
                                                 allow_unrecoverable=False)
                ctl.append({**pair, "pseed": rng.randrange(1 << 30), "jitter_p": rng.choice([0.0, 0.4]),
                            "storm": rng.random() < 0.5})
            j["scenarios"] = ctl
        for i, j in enumerate(jobs):
            # every second child: yield injection inside the (repeating) engine life cycle / controller callbacks
            if (i + rnd) % 2 == 1:
                j["ty_which"] = ("lifecycle", "controller", "all")[((i + rnd) // 2) % 3]
                j["ty_seed"] = rnd * 1000 + i
        vlib.fanout("checks.C13", jobs, c, timeout=1500)
        rnd += 1
        if c.violations or c.evaluations >= floor_runs or c.elapsed() > budget:
            break
    c.extra["dilation_K"] = K
    if c.counters.get("watchdog_inconclusive", 0) > max(3, c.evaluations // 20):
        c.note_inconclusive("%d runs hit the wall-clock watchdog" % c.counters["watchdog_inconclusive"])
    c.floor("clause_a_checked", 150)
    c.floor("clause_b_checked", 40)
    c.floor("clause_c_checked", 60)
    c.floor("stopped_on_its_own", 60)
    c.floor("ctl_clause_c_checked", 10)
    sys.exit(c.finish())


if __name__ == "__main__":
    main()
