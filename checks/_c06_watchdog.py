"""Per-case watchdog shared by C06 and C11 (identical copy: _c11_watchdog.py).

Hang criterion (robust against a loaded machine - wall-clock alone is never the verdict):
  stage 1  in the worker process: the case runs under ITIMER_PROF (process CPU time) and a generous
           ITIMER_REAL; a normal case needs ~0.03 CPU-s, the CPU alarm fires after CPU_ALARM_S CPU-s.
           Both timers re-fire every second in case a bare `except:` of the code under test swallows the
           exception.
  stage 2  the case is re-run in up to 3 FRESH processes (`python -m checks.<ID> --one case out`), each
           watched from outside: killed when its own CPU time (/proc/<pid>/stat) exceeds CHILD_CPU_S, or
           after CHILD_WALL_S of wall-clock.  Only if all three were killed for CPU (a deterministic busy
           hang: a normal run needs ~3 CPU-s including imports) the case is a 'hang'.
           If any run finishes, its outcome is the outcome of the case.  Anything else is 'unknown'
           (inconclusive, never a violation).
"""
from __future__ import annotations

import json
import os
import re
import shutil
import signal
import subprocess
import time
import traceback

import vlib

CPU_ALARM_S = float(os.environ.get("VERIF_CASE_CPU_S", "4"))
WALL_ALARM_S = float(os.environ.get("VERIF_CASE_WALL_S", "120"))
CHILD_CPU_S = float(os.environ.get("VERIF_CONFIRM_CPU_S", "8"))
CHILD_WALL_S = float(os.environ.get("VERIF_CONFIRM_WALL_S", "300"))


class CaseTimeout(BaseException):
    pass


def _on_alarm(signum, frame):
    raise CaseTimeout()


def _disarm():
    signal.setitimer(signal.ITIMER_PROF, 0)
    signal.setitimer(signal.ITIMER_REAL, 0)


def _child_cpu(pid: int) -> float:
    try:
        with open("/proc/%d/stat" % pid) as f:
            rest = f.read().rsplit(")", 1)[1].split()
        return (int(rest[11]) + int(rest[12])) / float(os.sysconf("SC_CLK_TCK"))
    except (OSError, IndexError, ValueError):
        return 0.0


def guarded(module: str, case, fn, w=None):
    """fn(case) under the watchdog -> outcome dict; {'status':'hang',...} or {'status':'unknown'} per the
    criterion above."""
    signal.signal(signal.SIGPROF, _on_alarm)
    signal.signal(signal.SIGALRM, _on_alarm)
    stack = ""
    try:
        signal.setitimer(signal.ITIMER_PROF, CPU_ALARM_S, 1.0)
        signal.setitimer(signal.ITIMER_REAL, WALL_ALARM_S, 1.0)
        out = fn(case)
        _disarm()
        return out
    except CaseTimeout:
        _disarm()
        stack = traceback.format_exc()
    finally:
        _disarm()
    if w is not None:
        w.count("watchdog_alarm")
    d = vlib.mkscratch("case")
    cp = os.path.join(d, "case.json")
    with open(cp, "w") as f:
        json.dump(case, f)
    verdicts = []
    try:
        for attempt in range(3):
            op = os.path.join(d, "out%d.json" % attempt)
            p = subprocess.Popen([vlib.PYTHON, "-W", "ignore", "-m", module, "--one", cp, op], cwd=vlib.VERIF_ROOT,
                                 env=vlib.child_env(), stdout=subprocess.DEVNULL, stderr=subprocess.DEVNULL)
            t0 = time.time()
            verdict = None
            while True:
                if p.poll() is not None:
                    break
                cpu = _child_cpu(p.pid)
                if cpu >= CHILD_CPU_S:
                    verdict = "cpu"
                elif time.time() - t0 >= CHILD_WALL_S:
                    # starved of CPU on a loaded machine, or blocked: wall-clock alone is never a verdict
                    verdict = "wall"
                if verdict:
                    p.kill()
                    p.wait()
                    break
                time.sleep(0.1)
            if verdict is None and os.path.exists(op):
                with open(op) as f:
                    out = json.load(f)
                if w is not None:
                    w.count("watchdog_alarm_not_reproduced")
                return out
            verdicts.append(verdict or "died")
    finally:
        shutil.rmtree(d, ignore_errors=True)
    if verdicts == ["cpu"] * 3:
        m = re.findall(r'File "[^"]*/([^/"]+)", line (\d+), in (\w+)', stack)
        return {"status": "hang", "reproduced": 3, "criterion": "3 fresh processes each burnt >= %.0f CPU-s without finishing" % CHILD_CPU_S,
                "where": ["%s:%s %s" % x for x in m][-5:]}
    return {"status": "unknown", "verdicts": verdicts}
