"""C02 — Stage outcome does not depend on the ordering of notifications.

For a fixed (workflow, exit script) pair the real controller is executed under several different
perturbation seeds (sleeps around the controller callbacks, scheduler storm).  Every run is judged
against the documented final-state rules (rt.oracles.c02_judge), runs of the same pair are compared
with each other, and a run that does not terminate is a stuck-candidate that is only reported as a
violation after it reproduces at K=1 with unmodified timers.
"""
from __future__ import annotations

import json
import os
import shutil
import subprocess
import sys
import time

import vlib

vlib.bootstrap()

PROP = "C02"


def run_job(job, w):
    from rt import harness, wfgen, oracles
    harness.setup_process(job["K"])
    ty = None
    if job.get("targeted_yield", True):
        # sleeps at line boundaries inside the snapshot hand-off functions (engine.emit_now / drain, ComponentState's
        # update and filter closures, finish): widens the windows in which notifications can overtake each other
        ty = harness.install_targeted_yield(p=0.3 if job.get("ty_which", "emission") == "emission" else 0.15,
                                            max_sleep=0.004, seed=job.get("ty_seed", 0),
                                            which=job.get("ty_which", "emission"))
    for sc in job["scenarios"]:
        wf, script = sc["wf"], sc["script"]
        nodes = wfgen.expand(wf)
        loc = vlib.mkscratch("c02")
        try:
            r = harness.run_scenario(wfgen.to_flowir(wf), script, loc, perturb_seed=sc["pseed"],
                                     jitter_p=sc["jitter_p"], jitter_max=sc["jitter_max"], storm=sc["storm"],
                                     watchdog_s=job.get("watchdog_s", 90.0), continue_on_error=False,
                                     # half of the runs with an unrecoverable exit are observed for 32 virtual
                                     # seconds past the stage loop (post-mortem checks still in flight complete)
                                     linger_v=32.0 if (sc["pseed"] % 2 == 0 and
                                                       oracles.c02_expected(nodes, script)["unrecoverable"]) else 0.0)
        finally:
            shutil.rmtree(loc, ignore_errors=True)
        w.evaluated()
        rec = {"pair": sc["pair"], "pseed": sc["pseed"]}
        if r["build_error"]:
            w.count("build_errors")
            w.note_inconclusive("generated workflow did not load: %s" % r["build_error"])
            continue
        ev = r["events"]
        sig = harness.signature(ev)
        w.distinct(sig)
        rec["sig"] = sig
        if r["watchdog_fired"]:
            w.count("watchdog_fired")
            rec["stuck"] = {"scenario": sc, "diag": r.get("stuck_diag"),
                            "ty": ({"which": job.get("ty_which", "emission"), "seed": job.get("ty_seed", 0)}
                                   if job.get("targeted_yield", True) else None),
                            "observable_errors": [{k: e[k] for k in ("seq", "comp", "which", "err")} for e in ev
                                                  if e["kind"] == "observable.error"]}
            w.records.append(rec)
            continue
        viol, cnt = oracles.c02_judge(nodes, script, r, wf["stages"])
        if viol:
            # known mechanism (see known_findings): observers that were already running when their same-stage
            # subject shut down end FINISHED.  Decide it structurally on the history, report it under its key and
            # re-judge the run with those observers' states taken as given, so that anything else still fails.
            ov = oracles.c02_running_observers_of_shutdown_subjects(nodes, script, r)
            if ov:
                for x in ov:
                    w.violation("final-state-differs-from-rule: running observer %s of a subject that shut down ended "
                                "finished" % x, {"scenario": sc, "observer": x},
                                finding_key="C02:running-observer-of-subject-that-shuts-down-ends-finished")
                viol, _ = oracles.c02_judge(nodes, script, r, wf["stages"], override=ov)
                w.count("runs_rejudged_with_known_observer_states")
        v1, c1 = oracles.single_final_state(r)
        viol = list(viol) + v1
        cnt = dict(cnt, **c1)
        for k, v in cnt.items():
            w.count(k, v)
        w.count("terminated_runs")
        rec["outcome"] = [s["outcome"] for s in r["stages"]]
        rec["states"] = {n: st for s in r["stages"] for n, st in s.get("states", {}).items()
                         if nodes.get(n, {}).get("stage") == s["stage"]}
        rec["stage_states"] = [s.get("stage_state") for s in r["stages"]]
        w.records.append(rec)
        for v in viol:
            w.violation("%s %s" % (v["clause"], {k: v[k] for k in v if k != "clause"}),
                        {"scenario": sc, "violation": v, "outcomes": rec["outcome"], "states": rec["states"],
                         "expected": oracles.c02_expected(nodes, script),
                         "trace": [e for e in ev if e["kind"] in ("launch", "exit", "cs.run", "cs.finish", "fakeFinish",
                                                                  "finishedCheck.enter", "finishedCheck.exit",
                                                                  "postMortem.enter", "engine.kill",
                                                                  "restartComponent.exit")][:250]},
                        finding_key=classify(v, nodes, script, ev))
        if len(w.samples) < 1:
            w.sample({"workflow": wf, "script_components": script["components"], "outcomes": rec["outcome"],
                      "final_states": rec["states"], "expected": oracles.c02_expected(nodes, script)["rule"]})
    if ty:
        w.count("targeted_yield_lines", ty["lines"])
        w.count("targeted_yields_injected", ty["yields"])
        w.count("targeted_yield_code_objects_%s" % ty.get("which", "emission"), ty["code_objects"])
        w.count("targeted_yield_unresolved_targets", ty.get("unresolved", 0))


def classify(v, nodes, script, events):
    """Structural classifier for known findings (mechanism keys, never hashes)."""
    return None


def confirm_stuck_at_k1(candidates, cap_s=200.0, plain_attempts=1, ty_attempts=8):
    """Re-run stuck-candidates with unmodified timers (K=1), no jitter, no storm; all re-runs of all candidates run
    in parallel.  If the run that got stuck had yield injection on (ty = {"which", "seed"}), some of the K=1 re-runs
    also use it (several injection seeds): a pause of a few milliseconds at a line boundary is something a pre-empted
    thread experiences with unmodified timers too, so a hang reproduced this way is not an artefact of time dilation.
    -> list of verdicts (True: reproduced, False: every re-run terminated, None: undecided)"""
    d = vlib.mkscratch("k1")
    runs = []          # (candidate index, Popen, output path)
    for ci, cand in enumerate(candidates):
        sc = dict(cand["scenario"])
        sc.update({"jitter_p": 0.0, "storm": False, "watchdog_s": cap_s, "linger_v": 0.0})
        p = os.path.join(d, "sc%d.json" % ci)
        with open(p, "w") as f:
            json.dump(sc, f)
        envs = [None] * plain_attempts
        ty = cand.get("ty")
        if ty and ty.get("which"):
            envs += [{"VERIF_TY": "%s:%d" % (ty["which"], int(ty.get("seed", 0)) * 100 + i)} for i in range(ty_attempts)]
        else:
            envs += [None] * 7        # no injection in the stuck run: several re-runs, every second one with jitter
        # the stuck run had scheduling noise of a few real milliseconds, i.e. tenths of a virtual second at K=20; with
        # unmodified timers the same relative noise is hook-point jitter of the same VIRTUAL size (<= 1 s, what a loaded
        # node does to a thread): every second re-run gets it, with its own perturbation seed
        pj = os.path.join(d, "sc%d-jitter.json" % ci)
        scj = dict(sc)
        scj.update({"jitter_p": max(0.3, float(cand["scenario"].get("jitter_p", 0.3))),
                    "jitter_max": 0.6})
        for i, extra in enumerate(envs):
            out_p = os.path.join(d, "out%d-%d.txt" % (ci, i))
            use = p
            if i % 2 == 1:
                with open(pj + str(i), "w") as f:
                    json.dump(dict(scj, pseed=int(sc.get("pseed", 0)) + i), f)
                use = pj + str(i)
            pr = subprocess.Popen([vlib.PYTHON, "-m", "rt.debug", use, "1"], cwd=vlib.VERIF_ROOT,
                                  env=vlib.child_env(extra), stdout=open(out_p, "w"), stderr=subprocess.DEVNULL)
            runs.append((ci, pr, out_p))
    t_end = time.time() + cap_s + 240
    per = {ci: [] for ci in range(len(candidates))}
    for ci, pr, out_p in runs:
        try:
            pr.wait(timeout=max(1.0, t_end - time.time()))
        except subprocess.TimeoutExpired:
            pr.kill()
        try:
            out = open(out_p).read()
        except OSError:
            out = ""
        per[ci].append(True if "watchdog True" in out else (False if "watchdog False" in out else None))
    verdicts = []
    for ci in range(len(candidates)):
        v = per[ci]
        verdicts.append(True if any(x is True for x in v) else (False if v and all(x is False for x in v) else None))
    return verdicts


def _run_job_outer(job, w):
    run_job(job, w)


if "--worker" in sys.argv:
    vlib.worker_main(run_job)


def make_pairs(n, salt, thorough):
    from rt import scenarios
    rng = vlib.rng(PROP, salt)
    out = []
    for i in range(n):
        pair = scenarios.gen_pair(rng, max_stages=3, max_comps=6, p_repeat=rng.choice([0.0, 0.15, 0.3]))
        pair["id"] = "%s-%d" % (salt, i)
        if i % 5 == 4:
            multi_failure(rng, pair)
        out.append(pair)
    return out


def multi_failure(rng, pair):
    """Several components of ONE stage end badly within the same 25 s window: the post-mortem analysis of one
    unrecoverable exit (Controller._restartComponent sleeps 25 s) overlaps the post-mortem checks, restarts and
    shutdowns of its neighbours, so notifications about one component arrive while another is being stopped."""
    from rt import wfgen
    nodes = wfgen.expand(pair["wf"])
    st = rng.choice(sorted({nd["stage"] for nd in nodes.values()}))
    comps = pair["script"]["components"]
    dur = lambda: rng.choice([0.5, 1.0, 2.0, 3.0, 5.0, 8.0])
    for ref, nd in nodes.items():
        if nd["stage"] != st or nd.get("repeat") or rng.random() < 0.25:
            continue
        kind = rng.choice(["fail", "fail", "fail", "re", "re4", "sf6"])
        if kind == "fail":
            # "Killed" (the task was killed from outside the runtime, e.g. by the scheduler): unrecoverable like the
            # others, but handled at once - no 25 s stability wait - so the stop of the neighbours lands right after
            # whatever they were doing at that moment (e.g. a restart that has just been initiated)
            comps[ref] = [{"reason": rng.choice(["KnownIssue", "SystemIssue", "UnknownIssue", "Killed", "Killed"]),
                           "duration": rng.choice([0.5, 1.0, 1.5, 2.0, 3.0, 5.0, 8.0])}]
        elif kind == "re":
            comps[ref] = [{"reason": "ResourceExhausted", "duration": rng.choice([0.0, 0.2, 0.5, 1.0, 2.0])},
                          {"reason": "Success", "duration": rng.choice([5.0, 20.0, 60.0])}]
        elif kind == "re4":
            comps[ref] = [{"reason": "ResourceExhausted", "duration": rng.choice([0.5, 1.0])} for _ in range(4)]
        else:
            comps[ref] = [{"launch_error": "JobLaunchError"} for _ in range(6)]
    pair["multi_failure_stage"] = st


def structured_pairs(thorough):
    """Aggregation slice: replicate -> [follower] -> aggregate shapes with EVERY assignment of
    {Success, shutdown-reason} to the replicas (and to a non-replicated co-producer)."""
    import itertools
    out = []
    for n in ((2, 3) if thorough else (2,)):
        for shape in ("direct", "follower", "mixed"):
            comps = [{"name": "Alpha", "stage": 0, "refs": [], "jobtype": "simulator", "replicate": n,
                      "shutdownOn": ["KnownIssue"]}]
            last = "Alpha"
            if shape == "follower":
                comps.append({"name": "Beta", "stage": 0, "refs": ["Alpha"], "jobtype": "simulator"})
                last = "Beta"
            refs = [last]
            if shape == "mixed":
                comps.append({"name": "Gamma", "stage": 0, "refs": [], "jobtype": "simulator", "shutdownOn": ["KnownIssue"]})
                refs.append("Gamma")
            comps.append({"name": "Delta", "stage": 1, "refs": refs, "jobtype": "simulator", "aggregate": True})
            comps.append({"name": "Eps", "stage": 1, "refs": ["Delta"], "jobtype": "simulator"})
            wf = {"stages": 2, "components": comps}
            letters = ["Success", "KnownIssue"]
            n_vars = n + (1 if shape == "mixed" else 0)
            for assign in itertools.product(letters, repeat=n_vars):
                sc = {"default": {"reason": "Success", "duration": 1.0, "files": ["out.dat"]}, "components": {}}
                for i in range(n):
                    sc["components"]["stage0.Alpha%d" % i] = [{"reason": assign[i], "duration": 0.5 + 0.5 * i}]
                if shape == "mixed":
                    sc["components"]["stage0.Gamma"] = [{"reason": assign[n], "duration": 1.0}]
                out.append({"wf": wf, "script": sc, "id": "agg-%s-%d-%s" % (shape, n, "".join(a[0] for a in assign))})
    return out


def exhaustive_small_pairs():
    """Exhaustive slice (thorough): three small DAG shapes x EVERY assignment of
    {Success, shutdown-reason, unrecoverable, ResourceExhausted-then-Success} to their components."""
    import itertools
    shapes = {
        "chain3": [("Alpha", 0, []), ("Beta", 0, ["Alpha"]), ("Gamma", 1, ["Beta"])],
        "join3": [("Alpha", 0, []), ("Beta", 0, []), ("Gamma", 1, ["Alpha", "Beta"])],
        "diamond4": [("Alpha", 0, []), ("Beta", 0, ["Alpha"]), ("Gamma", 0, ["Alpha"]), ("Delta", 1, ["Beta", "Gamma"])],
    }
    letters = {"S": [{"reason": "Success", "duration": 0.5}], "H": [{"reason": "SystemIssue", "duration": 0.5}],
               "F": [{"reason": "KnownIssue", "duration": 0.5}],
               "R": [{"reason": "ResourceExhausted", "duration": 0.5}, {"reason": "Success", "duration": 0.5}]}
    out = []
    for sname, comps in shapes.items():
        wf = {"stages": 2, "components": [{"name": n, "stage": st, "refs": list(r), "jobtype": "simulator",
                                           "shutdownOn": ["SystemIssue"]} for n, st, r in comps]}
        for assign in itertools.product("SHFR", repeat=len(comps)):
            sc = {"default": {"reason": "Success", "duration": 0.5, "files": ["out.dat"]},
                  "components": {"stage%d.%s" % (st, n): [dict(e) for e in letters[a]]
                                 for (n, st, _), a in zip(comps, assign)}}
            out.append({"wf": wf, "script": sc, "id": "ex-%s-%s" % (sname, "".join(assign))})
    return out


def main():
    c = vlib.Check(PROP, "exploration",
                   rule="one evaluation = one controller execution of a (workflow, exit script) pair under one "
                        "perturbation seed; every pair runs under several seeds; distinct = distinct interleaving "
                        "signature; every terminated run is judged against the rule-given final states and runs "
                        "of one pair must agree",
                   assumptions=["scripted backend is faithful to the Task API",
                                "exit scripts stay inside the documented restart policy domain (restart and "
                                "resubmission caps not mixed), repeating components always exit 0",
                                "non-termination is only reported after it reproduces at K=1 with unmodified timers"])
    thorough = c.tier == "thorough"
    K = float(os.environ.get("VERIF_K", "20"))
    rp = vlib.load_replay(sys.argv)
    if rp is not None and "diag" in rp["witness"]:
        # witness of a run that did not terminate: re-run it at K=1 (with the yield injection it was found under)
        wt = rp["witness"]
        v = confirm_stuck_at_k1([{"scenario": wt["scenario"], "ty": wt.get("ty")}])[0]
        c.evaluated()
        c.count("terminated_runs", 0 if v else 1)
        if v is True:
            c.violation("stage loop does not terminate (reproduced at K=1 with unmodified timers)", wt, finding_key=None)
        elif v is None:
            c.note_inconclusive("the K=1 re-runs of the stuck witness were undecided")
        sys.exit(c.finish())
    if rp is not None:
        sc = rp["witness"]["scenario"]
        vlib.fanout("checks.C02", [{"K": K, "scenarios": [dict(sc, pseed=sc["pseed"] + i) for i in range(3)]}], c, 600)
        c.floor("terminated_runs", 1)
        sys.exit(c.finish())
    budget = float(os.environ.get("VERIF_BUDGET_S", "780" if thorough else "55"))
    schedules = 25 if thorough else 8
    floor_pairs = 300 if thorough else 16
    pairs_per_round = vlib.NPROC if not thorough else 4 * vlib.NPROC
    rnd = 0
    all_records = []
    n_pairs = 0
    stuck = []
    while True:
        rng = vlib.rng(PROP, "sched", rnd)
        pairs = make_pairs(pairs_per_round, rnd, thorough)
        sched_of = {}
        if rnd == 0:
            sp = structured_pairs(thorough)
            if not thorough:
                sp = rng.sample(sp, 8)
            for p in sp:
                sched_of[p["id"]] = 3 if not thorough else 6
            pairs = sp + pairs
            c.count("aggregation_slice_pairs", len(sp))
            if thorough:
                ex = exhaustive_small_pairs()
                for p in ex:
                    sched_of[p["id"]] = 2
                pairs = ex + pairs
                c.count("exhaustive_small_graph_pairs", len(ex))
                c.extra["exhaustive_small_graph_slice"] = {
                    "pairs": len(ex), "exhaustive": True,
                    "space": "shapes {chain3, join3, diamond4} x all assignments of {Success, shutdown reason, "
                             "unrecoverable, ResourceExhausted-then-Success} to every component"}
            if thorough:
                c.extra["aggregation_slice"] = {"pairs": len(sp), "exhaustive": True,
                                                "space": "shapes {direct, follower, mixed} x N in {2,3} x all {Success, shutdown} assignments"}
        scs = []
        for p in pairs:
            for j in range(sched_of.get(p["id"], schedules)):
                scs.append({"wf": p["wf"], "script": p["script"], "pair": p["id"], "pseed": rng.randrange(1 << 30),
                            "jitter_p": rng.choice([0.0, 0.2, 0.5, 0.8]),
                            "jitter_max": rng.choice([0.005, 0.02, 0.05]), "storm": rng.random() < 0.7})
        rng.shuffle(scs)
        per_child = 12
        jobs = [{"K": K, "scenarios": scs[i:i + per_child], "targeted_yield": (i // per_child) % 4 != 3,
                 "ty_which": ("emission", "controller", "both", "emission", "lifecycle", "controller", "all",
                              "emission")[(i // per_child) % 8],
                 "ty_seed": rnd * 1000 + i} for i in range(0, len(scs), per_child)]
        res = vlib.fanout("checks.C02", jobs, c, timeout=1200)
        for r in res:
            all_records.extend(r.get("records", []))
        n_pairs += len(pairs)
        rnd += 1
        if c.violations or n_pairs >= floor_pairs or c.elapsed() > budget:
            break
    # agreement between schedules of the same pair (only meaningful when no task exits unrecoverably:
    # then the outcome must be unique; c02_judge already pins it to the rules, this is the cross-check)
    by_pair = {}
    for r in all_records:
        if "stuck" in r:
            stuck.append(r["stuck"])
            continue
        by_pair.setdefault(r["pair"], []).append(r)
    agree = disagree = 0
    sigs_per_pair = []
    for pid, rs in by_pair.items():
        sigs_per_pair.append(len({r["sig"] for r in rs}))
        outs = {json.dumps([r["outcome"], r["stage_states"]], sort_keys=True) for r in rs}
        if len(outs) == 1:
            agree += 1
        else:
            disagree += 1
    c.count("pairs", len(by_pair))
    c.count("pairs_all_schedules_agree_on_outcome", agree)
    c.count("pairs_outcome_differs_between_schedules", disagree)
    c.extra["schedules_per_pair"] = schedules
    c.extra["mean_distinct_signatures_per_pair"] = round(sum(sigs_per_pair) / max(1, len(sigs_per_pair)), 2)
    c.extra["dilation_K"] = K
    # stuck candidates -> K=1 confirmation
    explained = []
    for s in list(stuck):
        # a stuck component whose state observable was terminated by an exception raised in repository code: the hang
        # is explained by that exception (time dilation cannot raise it), no K=1 reproduction is needed
        hung = set((s["diag"] or {}).get("components", {}))
        errs = [e for e in s.get("observable_errors", []) if e["comp"] in hung]
        if errs:
            explained.append(s)
            stuck.remove(s)
            c.violation("stage loop does not terminate: the state observable of %s was terminated by %s and the "
                        "component never learns that its engine exited" % (errs[0]["comp"], errs[0]["err"]),
                        {"scenario": s["scenario"], "diag": s["diag"], "observable_errors": errs},
                        finding_key=None)
    c.count("stuck_runs_explained_by_terminated_observable", len(explained))
    verdicts = confirm_stuck_at_k1(stuck[:3]) if stuck else []
    c.count("stuck_runs_rerun_at_K1", len(verdicts))
    for s, verdict in zip(stuck[:3], verdicts):
        if verdict is True:
            c.violation("stage loop does not terminate (reproduced at K=1 with unmodified timers): %s" % json.dumps(
                s["diag"].get("components", {}))[:300], {"scenario": s["scenario"], "diag": s["diag"], "ty": s.get("ty")},
                finding_key=None)
        else:
            os.makedirs(os.path.join(vlib.VERIF_ROOT, "replay", PROP), exist_ok=True)
            sp = os.path.join(vlib.VERIF_ROOT, "replay", PROP, "stuck-seed%d-%d.json" % (c.seed, stuck.index(s)))
            with open(sp, "w") as f:
                json.dump({"scenario": s["scenario"], "diag": s["diag"]}, f, indent=1)
            c.note_inconclusive("run hit the watchdog at K=%s but did not reproduce at K=1 (%s); scenario saved to %s" % (
                K, verdict, sp))
    # a watchdog firing that does not reproduce at K=1 is an inconclusive RUN: it is counted and listed in the
    # evidence; the check as a whole is only inconclusive when such runs are more than 1% of the executions
    c.extra["inconclusive_runs"] = list(c.inconclusive)
    c.count("runs_inconclusive_watchdog_not_reproduced_at_K1", len(stuck))
    if len(stuck) <= max(1, c.evaluations // 100) and not c.violations:
        c.inconclusive = []
    elif len(stuck) > 3:
        c.note_inconclusive("%d further watchdog firings not re-examined" % (len(stuck) - 3))
    c.floor("terminated_runs", 100)
    c.floor("case_A_runs", 20)
    c.floor("case_B_runs", 20)
    sys.exit(c.finish())


if __name__ == "__main__":
    main()
