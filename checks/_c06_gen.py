"""C06 helper: seeded generator of DSL 2.0 namespaces TOGETHER WITH their flat ground truth,
an independent reference flattener (structured evaluation, no textual substitution), and the
single-fault mutators for the negative half.

Nothing in here imports the repository.  The abstract model is a small AST:

  workflow template  {"kind":"W","name",params:[{"name","role",["default"]}],
                      "steps":[{"name","template","args":{param: EXPR}}], "exec_order":[...], "decl_order":[...]}
  component template {"kind":"C","name",params:[...],"args":[CPART...],"exe":CPARTS,"num":param|None,
                      "variables":{...},"env":param|None}

  EXPR  = list of parts   ["lit",text] | ["val",scalar] | ["p",param-of-the-calling-workflow]
                        | ["ref",[step,inner,...],file|None,method|None,spelling]
                        | ["cmp",[extra segments],method]        (completes the partial reference that the
                                                                  preceding ["p",..] part evaluates to)
  CPART = ["lit",text] | ["p",param] | ["v",variable] | ["pc",param,method]

The DSL document is *rendered* from the AST (choosing one of the documented spellings of every
reference); the expected flat result is *evaluated* from the AST with environments, i.e. with the
semantics of the language ("an argument may reference parameters of the calling workflow; an omitted
argument takes the declared default; <step/...> is relative to the calling workflow").
"""
from __future__ import annotations

import copy
import re
from typing import Any, Dict, List, Optional, Tuple

METHODS_ARG = ["ref", "output"]          # may appear in command.arguments
METHODS_SILENT = ["copy", "link"]        # dataflow only through the references list

COMP_NAMES = ["echo", "gen", "c-a", "c.b", "sum_", "Cat", "x-I", "tool-", "stage1.tmpl", "a0b"]
WF_NAMES = ["inner", "wf-b", "w.f", "sub-wf", "level-c", "W", "flow_", "x", "stage0.w"]
STEP_NAMES = ["x", "y", "a", "a-b", "p.q", "run_", "X", "cons", "prod", "b", "x_", "s-t", "q.r-"]
PARAM_NAMES = ["msg", "m", "m.x", "m-x", "a", "ab", "p_", "in", "val", "n", "x", "msg.txt", "A"]
REF_PARAM_NAMES = ["r", "src", "r.in", "from-", "up", "msg"]
ID_NAMES = ["id", "tag", "uid.x"]
SAFE_LITS = ["hello", "w0rld", "v=1", "a/b.txt", "--flag", "x_y", "42", "-n", "two words", "k.v"]
FILES = ["out.txt", "d/o.csv", "msg.txt", "a/b/c.dat", "x", "data_", "r-1.log"]
ROMAN = ["I", "II", "III", "IV", "V", "VI", "VII", "VIII", "IX", "X"]


class GenFail(Exception):
    pass


# --------------------------------------------------------------------------- generation

class Builder:
    def __init__(self, rnd, profile: Dict[str, Any]):
        self.r = rnd
        self.p = profile
        self.templates: Dict[str, Dict[str, Any]] = {}
        self.order: List[str] = []          # creation order of templates
        self.uid = 0
        self.flags = set()

    # -- names
    def fresh(self, pool: List[str], used) -> str:
        cands = [n for n in pool if n not in used]
        if cands:
            return self.r.choice(cands)
        self.uid += 1
        return self.r.choice(pool).rstrip("0123456789") + "z" * self.uid

    def k(self) -> str:
        self.uid += 1
        return "k%d" % self.uid if self.r.random() < 0.7 else "K%dq" % self.uid

    def lit(self) -> str:
        return self.r.choice(SAFE_LITS)

    # -- component templates
    def new_component(self, ref_kinds: List[str]) -> Dict[str, Any]:
        """ref_kinds: for every reference parameter the component must accept, one of
        'complete' (value arrives with :method, used bare in arguments), 'partial' (arrives without
        method, the component appends :method in its arguments), 'silent' (copy/link, not in arguments)."""
        r = self.r
        name = self.fresh(COMP_NAMES, self.templates)
        used = set()
        params = []
        idn = r.choice(ID_NAMES)
        used.add(idn)
        params.append({"name": idn, "role": "id"})
        args: List[List[Any]] = [["lit", "--id="], ["p", idn]]
        variables = {}
        nd = r.randint(0, 3)
        for _ in range(nd):
            pn = self.fresh(PARAM_NAMES, used)
            used.add(pn)
            p = {"name": pn, "role": "data"}
            if r.random() < 0.6:
                p["default"] = r.choice([self.lit(), "", 0, 17, "dflt-" + pn, 2.5])
                if p["default"] in ("", 0):
                    self.flags.add("falsy_default")
            params.append(p)
            glue = r.choice([" ", " -o=", " pre", " "])
            args.append(["lit", glue])
            args.append(["p", pn])
            if r.random() < 0.3:
                args.append(["lit", r.choice(["post", ".ext", "_"])])
            if r.random() < 0.2:       # same parameter used twice
                args.append(["lit", " again="])
                args.append(["p", pn])
        for i, rk in enumerate(ref_kinds):
            pn = self.fresh(REF_PARAM_NAMES, used)
            used.add(pn)
            params.append({"name": pn, "role": "ref", "refkind": rk})
            if rk == "complete":
                args.append(["lit", r.choice([" ", " -i ", " --in="])])
                args.append(["p", pn])
            elif rk == "partial":
                args.append(["lit", r.choice([" ", " -i ", " --in="])])
                args.append(["pc", pn, r.choice(METHODS_ARG)])
        if r.random() < 0.35:
            vn = self.fresh(["v", "msg", "greeting", "m.x", "opt-"], used)
            used.add(vn)
            variables[vn] = r.choice(["hi", "7", "v v"])
            args.append(["lit", " "])
            args.append(["v", vn])
            self.flags.add("variable")
        num = None
        if r.random() < 0.3:
            pn = self.fresh(["nt", "threads", "n"], used)
            used.add(pn)
            p = {"name": pn, "role": "num"}
            if r.random() < 0.6:
                p["default"] = r.choice([1, 2, 8])
            params.append(p)
            num = pn
        exe: List[List[Any]] = [["lit", r.choice(["echo", "sh", "bin/run.sh", "python"])]]
        if r.random() < 0.25:
            pn = self.fresh(["exe", "prog", "x"], used)
            used.add(pn)
            p = {"name": pn, "role": "exe"}
            if r.random() < 0.5:
                p["default"] = "cat"
            params.append(p)
            exe = [["p", pn]] if r.random() < 0.5 else [["lit", "bin/"], ["p", pn]]
        env = None
        if r.random() < 0.25:
            pn = self.fresh(["env", "environment"], used)
            used.add(pn)
            params.append({"name": pn, "role": "env", "default": {"FOO": "bar", "DEFAULTS": "PATH"}})
            env = pn
        r.shuffle(params)
        t = {"kind": "C", "name": name, "params": params, "args": args, "exe": exe, "num": num,
             "variables": variables, "env": env}
        self.templates[name] = t
        self.order.append(name)
        return t

    # -- what a workflow body can reference at a given point
    def leaf_paths(self, tname: str) -> List[List[str]]:
        """paths (lists of step names) from an instance of template `tname` to the component
        instances below it; [] for a component template itself."""
        t = self.templates[tname]
        if t["kind"] == "C":
            return [[]]
        out = []
        for s in t["steps"]:
            for p in self.leaf_paths(s["template"]):
                out.append([s["name"]] + p)
        return out

    def wf_paths(self, tname: str) -> List[Tuple[List[str], str]]:
        """paths to workflow instances at or below an instance of `tname` with their template names."""
        t = self.templates[tname]
        if t["kind"] == "C":
            return []
        out = [([], tname)]
        for s in t["steps"]:
            for p, tn in self.wf_paths(s["template"]):
                out.append(([s["name"]] + p, tn))
        return out

    def spelling(self, npath: int, has_file: bool, has_method: bool) -> Any:
        """how many leading path segments go inside <...>, quoted or not."""
        r = self.r
        quoted = r.random() < 0.4
        inside = r.randint(1, npath)                   # at least the sibling step name is inside
        file_inside = has_file and inside == npath and r.random() < 0.5
        return [bool(quoted), inside, bool(file_inside)]

    def make_ref(self, path: List[str], want_file: Optional[bool], method: Optional[str]) -> List[Any]:
        r = self.r
        f = None
        if want_file is None:
            want_file = r.random() < 0.6
        if want_file:
            f = r.choice(FILES)
        sp = self.spelling(len(path), f is not None, method is not None)
        return ["ref", list(path), f, method, sp]

    def ref_sources(self, wf_params, prior_steps, shape):
        """candidate sources inside a workflow body for a reference of `shape`
        ('comp' or ('wf', template)) : sibling paths and own reference parameters."""
        src = []
        for s in prior_steps:
            t = self.templates[s["template"]]
            if shape == "comp":
                for p in self.leaf_paths(s["template"]):
                    src.append(("sib", [s["name"]] + p))
            else:
                for p, tn in self.wf_paths(s["template"]):
                    if tn == shape[1]:
                        src.append(("sib", [s["name"]] + p))
        for p in wf_params:
            if p["role"] != "ref":
                continue
            if p["refkind"] == "partial" and p["shape"] == shape:
                src.append(("own-partial", p["name"]))
            if p["refkind"] == "partial" and p["shape"] != "comp" and p["shape"] != shape:
                # narrow a partial reference to workflow T down to something inside T
                tn = p["shape"][1]
                if shape == "comp":
                    for lp in self.leaf_paths(tn):
                        src.append(("own-narrow", p["name"], lp))
                else:
                    for wp, wtn in self.wf_paths(tn):
                        if wp and wtn == shape[1]:
                            src.append(("own-narrow", p["name"], wp))
            if p["refkind"] in ("complete", "silent") and shape == "comp":
                src.append(("own-complete", p["name"], p["refkind"]))
        return src

    def ref_arg(self, wf_params, prior_steps, callee_param) -> Optional[List[List[Any]]]:
        """build the argument EXPR for reference parameter `callee_param`; None if impossible here."""
        r = self.r
        kind = callee_param["refkind"]
        shape = callee_param.get("shape", "comp")
        src = self.ref_sources(wf_params, prior_steps, shape)
        if kind in ("complete", "silent"):
            # a complete reference is always to a component ('comp' shape)
            src = [s for s in src if s[0] != "own-complete" or s[2] == kind]
        else:
            src = [s for s in src if s[0] != "own-complete"]
        if not src:
            return None
        if kind in ("complete", "silent") and r.random() < self.p.get("p_multi", 0.0):
            return self.multi_ref_arg(src, kind)
        s = r.choice(src)
        meth = None
        if kind == "complete":
            meth = r.choice(METHODS_ARG)
        elif kind == "silent":
            meth = r.choice(METHODS_SILENT)
        pre: List[List[Any]] = []
        post: List[List[Any]] = []
        if kind == "complete" and r.random() < 0.25:
            pre = [["lit", r.choice(["-f ", "--x="])]]
            self.flags.add("ref_embedded")
        return self.one_ref(s, kind, meth, pre, post)

    def multi_ref_arg(self, src, kind) -> List[List[Any]]:
        """ONE parameter value that holds SEVERAL complete output references (a list of files to merge):
        '<a>/f:ref <b>/g:ref', '%(first)s/f:ref %(second)s/f:ref', a forwarded (possibly itself multiple) value
        next to a sibling reference, ...  Sources are drawn with replacement: the same producer may appear with
        another file / method, or the very same reference twice.  Each reference draws its own spelling, so the
        value mixes <a/f>:m, <a>/f:m, "<a>"/f:m at random; separators contain white space only (what follows a
        :method is free text for the language)."""
        r = self.r
        n = r.choice([2, 2, 2, 3, 3, 4])
        parts: List[List[Any]] = []
        if kind == "complete" and r.random() < 0.3:
            parts.append(["lit", r.choice(["-f ", "--x=", "cat "])])
        origins = []
        for i in range(n):
            s = r.choice(src)
            origins.append(s[0])
            meth = r.choice(METHODS_ARG if kind == "complete" else METHODS_SILENT)
            if i:
                parts.append(["lit", r.choice([" ", " ", "  ", " -i ", " --in="]) if kind == "complete" else " "])
            parts += self.one_ref(s, kind, meth, [], [])
        if kind == "complete" and r.random() < 0.2:
            parts.append(["lit", r.choice([" >all", " end"])])
        self.flags.add("multi_ref_value")
        if sum(1 for o in origins if o == "sib") >= 2:
            self.flags.add("multi_ref_direct")
        if sum(1 for o in origins if o != "sib") >= 2:
            self.flags.add("multi_ref_forwarded")
        if kind == "silent":
            self.flags.add("multi_ref_silent")
        return parts

    def one_ref(self, s, kind, meth, pre, post) -> Optional[List[List[Any]]]:
        """the EXPR parts of one reference taken from source `s` (see ref_sources)"""
        r = self.r
        if s[0] == "sib":
            if kind == "partial":
                self.flags.add("partial_passed_down")
                return [self.make_ref(s[1], False, None)]
            if len(s[1]) > 1:
                self.flags.add("ref_into_sibling_workflow")
            want_file = True if meth in METHODS_SILENT else None
            return pre + [self.make_ref(s[1], want_file, meth)] + post
        if s[0] == "own-partial":
            if kind == "partial":
                self.flags.add("partial_forwarded")
                return [["p", s[1]]]
            self.flags.add("partial_completed_by_workflow")
            extra = r.choice(FILES).split("/") if (r.random() < 0.6 or meth in METHODS_SILENT) else []
            return pre + [["p", s[1]], ["cmp", extra, meth]] + post
        if s[0] == "own-narrow":
            self.flags.add("partial_narrowed")
            if kind == "partial":
                return [["p", s[1]], ["cmp", list(s[2]), None]]
            extra = list(s[2]) + (r.choice(FILES).split("/") if (r.random() < 0.6 or meth in METHODS_SILENT) else [])
            return pre + [["p", s[1]], ["cmp", extra, meth]] + post
        if s[0] == "own-complete":
            self.flags.add("complete_forwarded")
            return pre + [["p", s[1]]] + post
        return None

    def data_arg(self, wf_params, callee_param, has_default: bool) -> Optional[List[List[Any]]]:
        """EXPR for a data / id-less parameter, or None to omit it (callee default applies)."""
        r = self.r
        own = [p for p in wf_params if p["role"] == "data"]
        if has_default and r.random() < 0.4:
            self.flags.add("defaulted")
            return None
        if has_default:
            self.flags.add("overridden")
        c = r.random()
        if own and c < 0.35:
            p = r.choice(own)
            if p["name"] == callee_param["name"]:
                self.flags.add("same_name_forward")
            self.flags.add("forwarded")
            return [["p", p["name"]]]
        if own and c < 0.6:
            p = r.choice(own)
            self.flags.add("forward_mixed")
            parts = [["lit", r.choice(["pre-", "a ", "("])], ["p", p["name"]]]
            if r.random() < 0.5:
                parts.append(["lit", r.choice(["-post", ")", " z"])])
            if len(own) > 1 and r.random() < 0.4:
                q = r.choice(own)
                parts += [["lit", r.choice(["", "+", " "])], ["p", q["name"]]]
                self.flags.add("two_params_in_one_value")
            return parts
        if c < 0.75:
            return [["val", r.choice([3, 0, 12, 1.5])]]
        return [["lit", self.lit()]]

    def num_arg(self, wf_params, has_default):
        r = self.r
        own = [p for p in wf_params if p["role"] == "num"]
        if has_default and r.random() < 0.4:
            return None
        if own and r.random() < 0.6:
            return [["p", r.choice(own)["name"]]]
        return [["val", r.choice([1, 2, 4, 16])]]

    def env_arg(self, wf_params):
        r = self.r
        if r.random() < 0.6:
            return None
        self.flags.add("env_overridden")
        return [["val", {"FOO": "other", "EXTRA": "1"}]]

    def id_arg(self, wf_params) -> List[List[Any]]:
        r = self.r
        own = [p for p in wf_params if p["role"] == "id"]
        k = self.k()
        if not own:
            return [["lit", k]]
        p = own[0]["name"]
        return [["p", p], ["lit", "." + k]] if r.random() < 0.6 else [["lit", k + "."], ["p", p]]

    # -- workflows
    def new_workflow(self, depth: int, caller_shapes: List[Any], is_entry=False) -> Dict[str, Any]:
        """Create a workflow template (recursively creating what it instantiates).
        caller_shapes: shapes of references the creating caller could supply ('comp' / ('wf',T))."""
        r = self.r
        name = "main" if is_entry and r.random() < 0.7 else self.fresh(WF_NAMES, self.templates)
        self.templates[name] = None      # reserve
        used = set()
        params: List[Dict[str, Any]] = []
        if not is_entry or r.random() < 0.3:
            if is_entry or r.random() < 0.8:
                idn = r.choice(ID_NAMES)
                used.add(idn)
                params.append({"name": idn, "role": "id"})
        for _ in range(r.randint(0, 3)):
            pn = self.fresh(PARAM_NAMES, used)
            used.add(pn)
            p = {"name": pn, "role": "data"}
            if r.random() < 0.5:
                p["default"] = r.choice([self.lit(), "", 0, 5, "wd-" + pn])
                if p["default"] in ("", 0):
                    self.flags.add("falsy_default")
            params.append(p)
        if r.random() < 0.3:
            pn = self.fresh(["nt", "threads", "n"], used)
            used.add(pn)
            p = {"name": pn, "role": "num"}
            if r.random() < 0.5:
                p["default"] = r.choice([2, 4])
            params.append(p)
        if not is_entry and caller_shapes:
            for _ in range(r.randint(0, 2)):
                sh = r.choice(caller_shapes)
                pn = self.fresh(REF_PARAM_NAMES, used)
                used.add(pn)
                if sh == "comp":
                    rk = r.choice(["partial", "partial", "complete", "silent"])
                else:
                    rk = "partial"
                params.append({"name": pn, "role": "ref", "refkind": rk, "shape": sh})
        r.shuffle(params)

        steps: List[Dict[str, Any]] = []
        step_names = set()
        nsteps = r.randint(1, self.p["max_steps"])
        for i in range(nsteps):
            # what references could this step's callee receive?
            avail = []
            if any(True for s in steps):
                avail.append("comp")
            for s in steps:
                for wp, tn in self.wf_paths(s["template"]):
                    avail.append(("wf", tn))
            for p in params:
                if p["role"] == "ref":
                    if p["refkind"] == "partial":
                        avail.append(p["shape"])
                        if p["shape"] != "comp":
                            avail.append("comp")
                            for wp, tn in self.wf_paths(p["shape"][1]):
                                if wp:
                                    avail.append(("wf", tn))
                    else:
                        avail.append("comp")
            avail_u = []
            for a in avail:
                if a not in avail_u:
                    avail_u.append(a)
            step = self.new_step(depth, params, steps, avail_u, step_names)
            steps.append(step)
            step_names.add(step["name"])
        decl = list(range(len(steps)))
        ex = list(range(len(steps)))
        r.shuffle(decl)
        r.shuffle(ex)
        t = {"kind": "W", "name": name, "params": params, "steps": steps, "exec_order": ex, "decl_order": decl}
        self.templates[name] = t
        self.order.append(name)
        return t

    def satisfiable(self, tname, wf_params, prior_steps) -> bool:
        t = self.templates[tname]
        if t is None:
            return False
        for p in t["params"]:
            if p["role"] == "ref":
                src = self.ref_sources(wf_params, prior_steps, p.get("shape", "comp"))
                if p["refkind"] == "partial":
                    src = [s for s in src if s[0] != "own-complete"]
                else:
                    src = [s for s in src if s[0] != "own-complete" or s[2] == p["refkind"]]
                if not src:
                    return False
            if p["role"] == "id":
                pass
        return True

    def new_step(self, depth, wf_params, prior_steps, avail, step_names) -> Dict[str, Any]:
        r = self.r
        # choose callee: reuse or create
        reusable = [n for n in self.order
                    if self.templates[n] is not None
                    and any(p["role"] == "id" for p in self.templates[n]["params"])
                    and self.satisfiable(n, wf_params, prior_steps)
                    and self.height(n) + depth <= self.p["max_depth"]]
        callee = None
        if reusable and r.random() < self.p["p_reuse"]:
            callee = self.templates[r.choice(reusable)]
            self.flags.add("template_reused")
        if callee is None:
            if depth < self.p["max_depth"] and r.random() < self.p["p_nest"]:
                callee = self.new_workflow(depth + 1, avail)
            else:
                nref = 0
                kinds = []
                if "comp" in avail:
                    nref = r.choice([0, 1, 1, 2])
                    kinds = [r.choice(["complete", "complete", "partial", "silent"]) for _ in range(nref)]
                callee = self.new_component(kinds)
        pool = STEP_NAMES
        if self.p.get("reuse_step_names"):
            name = r.choice(pool)
            if name in step_names:
                name = self.fresh(pool, step_names)
        else:
            name = self.fresh(pool, step_names | self.p.setdefault("_all_step_names", set()))
            self.p["_all_step_names"].add(name)
        args: Dict[str, Any] = {}
        for p in callee["params"]:
            has_default = "default" in p
            if p["role"] == "id":
                args[p["name"]] = self.id_arg(wf_params)
            elif p["role"] == "data":
                e = self.data_arg(wf_params, p, has_default)
                if e is not None:
                    args[p["name"]] = e
            elif p["role"] == "num":
                e = self.num_arg(wf_params, has_default)
                if e is not None:
                    args[p["name"]] = e
            elif p["role"] == "exe":
                if not has_default or r.random() < 0.5:
                    args[p["name"]] = [["lit", r.choice(["cat", "ls", "tool.sh"])]]
            elif p["role"] == "env":
                e = self.env_arg(wf_params)
                if e is not None:
                    args[p["name"]] = e
            elif p["role"] == "ref":
                e = self.ref_arg(wf_params, prior_steps, p)
                if e is None:
                    raise GenFail("no source for reference parameter")
                args[p["name"]] = e
        return {"name": name, "template": callee["name"], "args": args}

    def height(self, tname) -> int:
        t = self.templates[tname]
        if t is None:
            return 99
        if t["kind"] == "C":
            return 0
        return 1 + max([self.height(s["template"]) for s in t["steps"]] or [0])


def generate(rnd, profile: Dict[str, Any]) -> Dict[str, Any]:
    """-> abstract model {"templates":{}, "order":[], "entry": name, "entry_args": {...}, "flags":[...]}"""
    for _ in range(50):
        prof = dict(profile)
        prof.pop("_all_step_names", None)
        b = Builder(rnd, prof)
        try:
            entry = b.new_workflow(1, [], is_entry=True)
        except GenFail:
            continue
        # entry arguments: override some defaults, supply the ones without
        eargs = {}
        for p in entry["params"]:
            if p["role"] == "id":
                eargs[p["name"]] = "root"
            elif "default" not in p or rnd.random() < 0.5:
                if p["role"] == "num":
                    eargs[p["name"]] = rnd.choice([2, 3, 6])
                else:
                    eargs[p["name"]] = rnd.choice([b.lit(), 9, "ov-" + p["name"]])
                if "default" in p:
                    b.flags.add("entry_override")
            else:
                b.flags.add("entry_default")
        model = {"templates": {k: v for k, v in b.templates.items() if v is not None},
                 "order": [n for n in b.order], "entry": entry["name"], "entry_args": eargs,
                 "flags": sorted(b.flags), "outputs": []}
        truth = evaluate(model)
        if len(truth["leaves"]) > profile.get("max_leaves", 14):
            continue
        idents = [l["ident"] for l in truth["leaves"]]
        if len(set(idents)) != len(idents):
            continue
        # key outputs (entrypoint.output) on some documents
        if rnd.random() < 0.3 and truth["leaves"]:
            for i in range(rnd.randint(1, 2)):
                leaf = rnd.choice(truth["leaves"])
                f = rnd.choice(FILES) if rnd.random() < 0.7 else None
                model["outputs"].append({"name": "out%d" % i, "path": leaf["loc"][1:], "file": f,
                                         "method": rnd.choice(["ref", "output"]),
                                         "spelling": rnd.choice(["in", "out"])})
            truth = evaluate(model)
        return {"model": model, "truth": truth}
    raise GenFail("could not generate a namespace")


# --------------------------------------------------------------------------- rendering to DSL

def render_ref(path, f, method, sp) -> str:
    quoted, inside, file_inside = sp
    ins = list(path[:inside])
    outs = list(path[inside:])
    if f:
        if file_inside:
            ins += f.split("/")
        else:
            outs += f.split("/")
    s = "<" + "/".join(ins) + ">"
    if quoted:
        s = '"' + s + '"'
    if outs:
        s += "/" + "/".join(outs)
    if method:
        s += ":" + method
    return s


def render_expr(expr) -> Any:
    if len(expr) == 1 and expr[0][0] == "val":
        return copy.deepcopy(expr[0][1])
    out = ""
    for part in expr:
        k = part[0]
        if k == "lit":
            out += part[1]
        elif k == "val":
            out += str(part[1])
        elif k == "p":
            out += "%(" + part[1] + ")s"
        elif k == "ref":
            out += render_ref(part[1], part[2], part[3], part[4])
        elif k == "cmp":
            if part[1]:
                out += "/" + "/".join(part[1])
            if part[2]:
                out += ":" + part[2]
    return out


def render_cparts(parts) -> str:
    out = ""
    for part in parts:
        k = part[0]
        if k == "lit":
            out += part[1]
        elif k in ("p", "v"):
            out += "%(" + part[1] + ")s"
        elif k == "pc":
            out += "%(" + part[1] + ")s:" + part[2]
    return out


def render(model: Dict[str, Any]) -> Dict[str, Any]:
    wfs, comps = [], []
    for name in model["order"]:
        t = model["templates"][name]
        sig: Dict[str, Any] = {"name": t["name"]}
        ps = []
        for p in t["params"]:
            d = {"name": p["name"]}
            if "default" in p:
                d["default"] = copy.deepcopy(p["default"])
            ps.append(d)
        if ps or len(name) % 2:
            sig["parameters"] = ps
        if t["kind"] == "W":
            steps = {}
            for i in t["decl_order"]:
                s = t["steps"][i]
                steps[s["name"]] = s["template"]
            ex = []
            for i in t["exec_order"]:
                s = t["steps"][i]
                e: Dict[str, Any] = {"target": "<%s>" % s["name"]}
                a = {k: render_expr(v) for k, v in s["args"].items()}
                if a or len(s["name"]) % 2:
                    e["args"] = a
                ex.append(e)
            wfs.append({"signature": sig, "steps": steps, "execute": ex})
        else:
            c: Dict[str, Any] = {"signature": sig,
                                 "command": {"executable": render_cparts(t["exe"]),
                                             "arguments": render_cparts(t["args"])}}
            if t["num"]:
                c["resourceRequest"] = {"numberThreads": "%(" + t["num"] + ")s"}
            if t["variables"]:
                c["variables"] = dict(t["variables"])
            if t["env"]:
                c["command"]["environment"] = "%(" + t["env"] + ")s"
            comps.append(c)
    ep: Dict[str, Any] = {"entry-instance": model["entry"],
                          "execute": [{"target": "<entry-instance>", "args": copy.deepcopy(model["entry_args"])}]}
    if model.get("outputs"):
        outs = []
        for o in model["outputs"]:
            path = ["entry-instance"] + list(o["path"])
            if o["spelling"] == "in" or not o["file"]:
                segs = path + (o["file"].split("/") if o["file"] else [])
                s = "<" + "/".join(segs) + ">:" + o["method"]
            else:
                s = "<" + "/".join(path) + ">/" + o["file"] + ":" + o["method"]
            outs.append({"name": o["name"], "data-in": s})
        ep["output"] = outs
    return {"entrypoint": ep, "workflows": wfs, "components": comps}


# --------------------------------------------------------------------------- reference flattener

def _norm(parts: List[List[Any]]) -> List[List[Any]]:
    """a value is typed only when it is a single part; otherwise everything is text."""
    if len(parts) == 1:
        return [copy.deepcopy(parts[0])]
    out: List[List[Any]] = []
    for p in parts:
        if p[0] == "val":
            if isinstance(p[1], dict):
                raise GenFail("dictionary embedded in text")
            p = ["lit", str(p[1])]
        if p[0] == "lit" and out and out[-1][0] == "lit":
            out[-1] = ["lit", out[-1][1] + p[1]]
        else:
            out.append(copy.deepcopy(p))
    return out


def eval_expr(expr, env, parent_loc) -> List[List[Any]]:
    out: List[List[Any]] = []
    for part in expr:
        k = part[0]
        if k in ("lit", "val"):
            out.append([k, part[1]])
        elif k == "p":
            out.extend(copy.deepcopy(env[part[1]]))
        elif k == "ref":
            segs = list(parent_loc) + list(part[1]) + (part[2].split("/") if part[2] else [])
            out.append(["ref", segs, part[3]])
        elif k == "cmp":
            last = out[-1]
            if last[0] != "ref" or last[2] is not None:
                raise GenFail("completion of something that is not a partial reference")
            out[-1] = ["ref", last[1] + list(part[1]), part[2]]
    return _norm(out)


def _scalar(v):
    return [["val", v]] if not isinstance(v, str) else [["lit", v]]


def evaluate(model: Dict[str, Any]) -> Dict[str, Any]:
    """Flatten the abstract namespace: leaves with their fully bound fields and dataflow edges."""
    T = model["templates"]
    leaves: List[Dict[str, Any]] = []
    wf_instances = 0

    def bind(t, given: Dict[str, List[List[Any]]]):
        env = {}
        for p in t["params"]:
            if p["name"] in given:
                env[p["name"]] = given[p["name"]]
            elif "default" in p:
                env[p["name"]] = _scalar(copy.deepcopy(p["default"]))
            else:
                raise GenFail("parameter %s of %s without value" % (p["name"], t["name"]))
        return env

    def inst(t, loc, given):
        nonlocal wf_instances
        env = bind(t, given)
        if t["kind"] == "W":
            wf_instances += 1
            for s in t["steps"]:
                child = T[s["template"]]
                g = {k: eval_expr(v, env, loc) for k, v in s["args"].items()}
                inst(child, loc + [s["name"]], g)
            return
        cenv = dict(env)
        parts: List[List[Any]] = []
        for part in t["args"]:
            k = part[0]
            if k == "lit":
                parts.append(["lit", part[1]])
            elif k == "v":
                parts.append(["lit", "%(" + part[1] + ")s"])
            elif k == "p":
                parts.extend(copy.deepcopy(cenv[part[1]]))
            elif k == "pc":
                v = copy.deepcopy(cenv[part[1]])
                if len(v) != 1 or v[0][0] != "ref" or v[0][2] is not None:
                    raise GenFail("component completes a non partial value")
                parts.append(["ref", v[0][1], part[2]])
        if len(parts) == 1 and parts[0][0] == "val":
            parts = [["lit", str(parts[0][1])]]
        args = _norm(parts)
        exe_parts = []
        for part in t["exe"]:
            if part[0] == "lit":
                exe_parts.append(["lit", part[1]])
            else:
                exe_parts.extend(copy.deepcopy(cenv[part[1]]))
        exe = _norm(exe_parts)
        fields = {}
        if len(exe) == 1 and exe[0][0] == "val":
            fields["command.executable"] = exe[0][1]
        else:
            fields["command.executable"] = "".join(p[1] for p in exe)
        if t["num"]:
            v = cenv[t["num"]]
            fields["resourceRequest.numberThreads"] = v[0][1]
        envd = None
        if t["env"]:
            envd = cenv[t["env"]][0][1]
        edges = []
        for pname, v in cenv.items():
            for part in v:
                if part[0] == "ref" and part[2] is not None:
                    edges.append([part[1], part[2]])
        for part in args:
            if part[0] == "ref":
                if part[2] is None:
                    raise GenFail("partial reference reaches arguments")
                edges.append([part[1], part[2]])
        idp = [p["name"] for p in t["params"] if p["role"] == "id"][0]
        ident = "".join(str(x[1]) for x in cenv[idp])
        # the largest number of output references that ONE parameter value of this leaf holds
        max_refs = max([sum(1 for part in v if part[0] == "ref") for v in cenv.values()] or [0])
        leaves.append({"loc": list(loc), "step": loc[-1], "template": t["name"], "args": args, "fields": fields,
                       "env": envd, "raw_edges": edges, "ident": ident, "max_refs_in_one_value": max_refs,
                       "variables": dict(t["variables"]),
                       "params": sorted(p["name"] for p in t["params"])})

    entry = T[model["entry"]]
    given = {k: _scalar(copy.deepcopy(v)) for k, v in model["entry_args"].items()}
    inst(entry, ["entry-instance"], given)
    eenv = bind(entry, given)

    def resolve(segs):
        best = None
        for i, l in enumerate(leaves):
            if segs[:len(l["loc"])] == l["loc"]:
                if best is not None:
                    raise GenFail("ambiguous reference")
                best = i
        if best is None:
            raise GenFail("reference to nothing: %r" % (segs,))
        rest = segs[len(leaves[best]["loc"]):]
        return best, ("/".join(rest) if rest else None)

    for l in leaves:
        new_args = []
        for part in l["args"]:
            if part[0] == "ref":
                i, f = resolve(part[1])
                new_args.append(["ref", i, f, part[2]])
            else:
                new_args.append(part)
        l["args"] = new_args
        es = []
        for segs, m in l.pop("raw_edges"):
            i, f = resolve(segs)
            e = [i, f, m]
            if e not in es:
                es.append(e)
        l["edges"] = es
    glob = {}
    for k, v in eenv.items():
        if len(v) == 1 and v[0][0] in ("val", "lit"):
            if v[0][1] is None or isinstance(v[0][1], dict):
                continue
            glob[k] = v[0][1]
    outs = {}
    for o in model.get("outputs", []):
        segs = ["entry-instance"] + list(o["path"]) + (o["file"].split("/") if o["file"] else [])
        i, f = resolve(segs)
        outs[o["name"]] = [i, f, o["method"]]
    depth = max(len(l["loc"]) for l in leaves) - 1 if leaves else 0
    return {"leaves": leaves, "globals": glob, "outputs": outs, "depth": depth, "wf_instances": wf_instances}


# --------------------------------------------------------------------------- naming hazard classes

_STAGE = re.compile(r"^stage([0-9]+)\.(.+)$")


def split_stage(step: str) -> Tuple[int, str]:
    m = _STAGE.match(step)
    if m:
        return int(m.group(1)), m.group(2)
    return 0, step


def naming_hazards(step_names: List[str]) -> List[str]:
    """Structural classifier of leaf step names the '<step>[-<roman>]' naming scheme cannot keep apart
    or cannot express.  Empty list = plain."""
    hz = []
    for s in step_names:
        if s[-1].isdigit():
            hz.append("digit-suffix")
            break
    counts: Dict[str, int] = {}
    for s in step_names:
        counts[s] = counts.get(s, 0) + 1
    names = set(step_names)
    for s, c in counts.items():
        if c > 1:
            for k in range(c - 1):
                if "%s-%s" % (s, ROMAN[k] if k < len(ROMAN) else "X" * k) in names:
                    hz.append("literal-roman-suffix")
    keys: Dict[Tuple[int, str], set] = {}
    for s in names:
        keys.setdefault(split_stage(s), set()).add(s)
    if any(len(v) > 1 for v in keys.values()):
        hz.append("stage-prefix-alias")
    return sorted(set(hz))


# --------------------------------------------------------------------------- single-fault mutants

def _wf_indices(doc):
    return list(range(len(doc["workflows"])))


def mutants(rnd, model: Dict[str, Any], doc: Dict[str, Any], truth) -> List[Dict[str, Any]]:
    """All applicable single-fault mutants of a valid namespace.  Every one is invalid by the language
    rules quoted in `why`.  (All templates of a generated namespace are reachable from the entrypoint.)"""
    out: List[Dict[str, Any]] = []
    T = model["templates"]
    wfs = doc["workflows"]
    comps = doc["components"]
    tnames = set(T)

    def add(kind, why, d, **kw):
        out.append({"mutation": kind, "why": why, "doc": d, **kw})

    def clone():
        return copy.deepcopy(doc)

    for wi, w in enumerate(wfs):
        wname = w["signature"]["name"]
        wparams = {p["name"] for p in w["signature"].get("parameters", [])}
        step_names = list(w["steps"])
        for ei, ex in enumerate(w["execute"]):
            target = ex["target"][1:-1]
            callee = T[w["steps"][target]]
            # unknown argument
            d = clone()
            d["workflows"][wi]["execute"][ei].setdefault("args", {})["zz-unknown"] = "1"
            add("unknown-argument", "the step passes an argument the instantiated template does not declare", d,
                where=["workflows", wi, "execute", ei])
            # reference to an undefined parameter of the calling workflow
            if "nope" not in wparams:
                pn = [p["name"] for p in callee["params"] if p["role"] in ("data",)]
                if pn:
                    d = clone()
                    d["workflows"][wi]["execute"][ei].setdefault("args", {})[pn[0]] = "x %(nope)s"
                    add("undefined-parameter-in-argument",
                        "an argument references a parameter the calling workflow does not declare", d,
                        where=["workflows", wi, "execute", ei])
            # missing required argument
            req = [p["name"] for p in callee["params"] if "default" not in p and p["name"] in ex.get("args", {})]
            if req:
                d = clone()
                del d["workflows"][wi]["execute"][ei]["args"][rnd.choice(req)]
                add("missing-required-argument", "a parameter without default receives no value", d,
                    where=["workflows", wi, "execute", ei])
            # execute entry whose target is not a declared step
            d = clone()
            d["workflows"][wi]["execute"][ei]["target"] = "<ghost-step>"
            add("execute-undeclared-step", "execute entry targets a step that is not in steps", d,
                where=["workflows", wi, "execute", ei])
            # reference to something that is not a sibling step
            pn = [p["name"] for p in callee["params"] if p["role"] == "data"]
            if pn:
                for label, text in (("ghost", "<ghost-step>:ref"), ("self", "<%s>/f.txt:ref" % target),
                                    ("method-inside", "<%s:ref>" % (step_names[0]))):
                    if label == "method-inside" and step_names[0] == target:
                        continue
                    d = clone()
                    d["workflows"][wi]["execute"][ei].setdefault("args", {})[pn[0]] = text
                    add("bad-reference-" + label,
                        "output references must name a sibling step; the method goes outside <>", d,
                        where=["workflows", wi, "execute", ei])
                # one bad reference next to a good one in the SAME value (every reference of a value counts)
                good = [s for s in step_names if s != target and T[w["steps"][s]]["kind"] == "C"]
                if good:
                    for label, text in (("after-good", "<%s>/f.txt:ref <ghost-step>/g.txt:ref" % good[0]),
                                        ("before-good", "<ghost-step>:output -i <%s>/f.txt:ref" % good[-1])):
                        d = clone()
                        d["workflows"][wi]["execute"][ei].setdefault("args", {})[pn[0]] = text
                        add("bad-reference-ghost-" + label,
                            "every output reference in a value must name a sibling step", d,
                            where=["workflows", wi, "execute", ei])
                # cousin: a step that exists in another workflow only
                others = [s for w2 in wfs if w2 is not w for s in w2["steps"] if s not in w["steps"]]
                if others:
                    d = clone()
                    d["workflows"][wi]["execute"][ei].setdefault("args", {})[pn[0]] = "<%s>:ref" % others[0]
                    add("bad-reference-cousin", "a step of another workflow is not a sibling", d,
                        where=["workflows", wi, "execute", ei])
        # step declared but never executed
        d = clone()
        d["workflows"][wi]["steps"]["ghost-step"] = comps[0]["signature"]["name"]
        add("step-without-execute", "a declared step has no execute entry", d, where=["workflows", wi, "execute"])
        # step instantiating an unknown template
        sn = rnd.choice(step_names)
        d = clone()
        d["workflows"][wi]["steps"][sn] = "no-such-template"
        add("unknown-template", "a step instantiates a template that is not in the namespace", d,
            where=["workflows", wi])
        # step executed twice
        d = clone()
        d["workflows"][wi]["execute"].append(copy.deepcopy(d["workflows"][wi]["execute"][0]))
        add("step-executed-twice", "two execute entries for one step", d, where=["workflows", wi, "execute"])
        # cycle through templates: this workflow instantiates itself / its ancestor (the entry workflow)
        for label, tgt in (("self", wname), ("entry", model["entry"])):
            if label == "entry" and wname == model["entry"]:
                continue
            d = clone()
            d["workflows"][wi]["steps"]["again"] = tgt
            tt = T[tgt]
            a = {}
            for p in tt["params"]:
                if "default" not in p:
                    a[p["name"]] = "v"
            d["workflows"][wi]["execute"].append({"target": "<again>", "args": a})
            add("template-cycle-" + label, "a workflow (indirectly) instantiates itself", d, where=["workflows", wi])
        # duplicate parameter in the signature
        if w["signature"].get("parameters"):
            d = clone()
            ps = d["workflows"][wi]["signature"]["parameters"]
            ps.append(copy.deepcopy(ps[0]))
            add("duplicate-parameter", "two parameters with one name", d, where=["workflows", wi, "signature"])
        # reference into a sibling workflow naming a step that is not there
        for ei, ex in enumerate(w["execute"]):
            target = ex["target"][1:-1]
            callee = T[w["steps"][target]]
            pn = [p["name"] for p in callee["params"] if p["role"] == "data"]
            sib_wf = [s for s in step_names if s != target and T[w["steps"][s]]["kind"] == "W"]
            # only where the reference reaches a component (its command line uses every data parameter);
            # a bad reference parked in a workflow parameter that nothing uses is arguably harmless
            if pn and sib_wf and callee["kind"] == "C":
                d = clone()
                d["workflows"][wi]["execute"][ei].setdefault("args", {})[pn[0]] = "<%s/ghost-step>:ref" % sib_wf[0]
                add("reference-to-missing-inner-step",
                    "the reference names a step that the sibling workflow does not have", d,
                    where=["workflows", wi, "execute", ei], sibling=sib_wf[0])
                d = clone()
                d["workflows"][wi]["execute"][ei].setdefault("args", {})[pn[0]] = "<%s>:ref" % sib_wf[0]
                add("reference-to-workflow-step",
                    "a reference with a method must lead to a component; this one stops at a workflow step", d,
                    where=["workflows", wi, "execute", ei], sibling=sib_wf[0])
                break
    for ci, c in enumerate(comps):
        cname = c["signature"]["name"]
        t = T[cname]
        # undefined parameter in the command line
        d = clone()
        d["components"][ci]["command"]["arguments"] += " %(nope-c)s"
        add("undefined-parameter-in-component", "the command line references neither a parameter nor a variable", d,
            where=["components", ci, "command", "arguments"])
        # variable with the name of a parameter
        if c["signature"].get("parameters"):
            d = clone()
            d["components"][ci].setdefault("variables", {})[c["signature"]["parameters"][0]["name"]] = "v"
            add("variable-shadows-parameter", "a variable has the name of a parameter", d,
                where=["components", ci, "variables"])
        # a complete reference loses its method: partial reference reaches the command line
        for p in t["params"]:
            if p["role"] == "ref" and p["refkind"] == "partial":
                d = clone()
                a = d["components"][ci]["command"]["arguments"]
                for m in METHODS_ARG:
                    a = a.replace("%(" + p["name"] + ")s:" + m, "%(" + p["name"] + ")s")
                d["components"][ci]["command"]["arguments"] = a
                add("reference-without-method", "a reference in the command line must end with :method", d,
                    where=["components", ci, "command", "arguments"])
                break
    # duplicate template names
    d = clone()
    d["components"].append(copy.deepcopy(d["components"][0]))
    add("duplicate-component-template", "two templates with one name", d, where=["components", len(comps)])
    d = clone()
    d["workflows"].append(copy.deepcopy(d["workflows"][-1]))
    add("duplicate-workflow-template", "two templates with one name", d, where=["workflows", len(wfs)])
    d = clone()
    c = copy.deepcopy(d["components"][0])
    c["signature"]["name"] = d["workflows"][-1]["signature"]["name"]
    if re.fullmatch(r"(stage([0-9]+)\.)?([A-Za-z0-9._-]*[A-Za-z_-]+)", c["signature"]["name"]):
        d["components"].append(c)
        add("component-named-like-workflow", "two templates with one name", d, where=["components", len(comps)])
    # entrypoint problems
    d = clone()
    d["entrypoint"]["entry-instance"] = "no-such-template"
    add("entry-unknown-template", "the entrypoint names a template that does not exist", d, where=["entrypoint"])
    d = clone()
    d["entrypoint"]["execute"][0].setdefault("args", {})["zz-unknown"] = "1"
    add("entry-unknown-argument", "the entrypoint passes an argument the entry template does not declare", d,
        where=["entrypoint", "execute", 0])
    req = [p["name"] for p in T[model["entry"]]["params"] if "default" not in p]
    if req:
        d = clone()
        del d["entrypoint"]["execute"][0]["args"][req[0]]
        add("entry-missing-required-argument", "an entry parameter without default receives no value", d,
            where=["entrypoint", "execute", 0])
    if doc["entrypoint"].get("output"):
        d = clone()
        d["entrypoint"]["output"].append(copy.deepcopy(d["entrypoint"]["output"][0]))
        add("duplicate-key-output", "two key outputs with one name", d, where=["entrypoint", "output"])
    return out


def rename_leaf_steps(rnd, model, how: str) -> Optional[Dict[str, Any]]:
    """Naming-hazard variants of a valid namespace (still VALID by the language): returns a new model."""
    m = copy.deepcopy(model)
    T = m["templates"]
    # (workflow template, step index) of steps that instantiate components
    slots = [(w, i) for w in T.values() if w["kind"] == "W" for i, s in enumerate(w["steps"])
             if T[s["template"]]["kind"] == "C"]
    if not slots:
        return None

    def rename(w, i, new):
        old = w["steps"][i]["name"]
        if any(s["name"] == new for s in w["steps"]):
            return False
        w["steps"][i]["name"] = new
        # paths that other workflows use to reach into instances of w
        for w2 in T.values():
            if w2["kind"] != "W":
                continue
            for s in w2["steps"]:
                for e in s["args"].values():
                    for part in e:
                        if part[0] in ("ref",):
                            _rename_in_path(T, w2, part[1], w["name"], old, new)
                        if part[0] == "cmp" and part[1]:
                            pass
        for o in m.get("outputs", []):
            _rename_in_path(T, T[m["entry"]], o["path"], w["name"], old, new)
        return True

    if how == "digit":
        w, i = rnd.choice(slots)
        base = w["steps"][i]["name"]
        if not rename(w, i, base + rnd.choice(["1", "0", "42"])):
            return None
    elif how == "roman":
        # two leaves called N in different workflow templates and a third leaf literally called N-I
        by_wf: Dict[str, List[int]] = {}
        for w, i in slots:
            by_wf.setdefault(w["name"], []).append(i)
        if len(by_wf) < 2 and len(slots) < 3:
            return None
        names = list(by_wf)
        rnd.shuffle(names)
        n = rnd.choice(["x", "cons", "a-b"])
        done = 0
        for wn in names[:2]:
            if rename(T[wn], by_wf[wn][0], n):
                done += 1
        rest = [(w, i) for w, i in slots if w["steps"][i]["name"] != n]
        if done < 2 or not rest:
            return None
        w, i = rnd.choice(rest)
        if not rename(w, i, n + "-I"):
            return None
    elif how == "stage-alias":
        if len(slots) < 2:
            return None
        (w1, i1), (w2, i2) = rnd.sample(slots, 2)
        if w1 is w2:
            return None
        n = rnd.choice(["x", "prod"])
        if not (rename(w1, i1, n) and rename(w2, i2, "stage0." + n)):
            return None
    else:
        return None
    if any(part[0] == "cmp" and part[1] for w in T.values() if w["kind"] == "W" for s in w["steps"]
           for e in s["args"].values() for part in e):
        return None            # completions carry step names textually; keep those namespaces out
    return m


def _rename_in_path(T, start_wf, path, wf_template, old, new):
    """rename segment `old` in `path` (relative to an instance of start_wf) where the segment is a step of
    an instance of `wf_template`."""
    cur = start_wf
    for j, seg in enumerate(path):
        if cur is None or cur["kind"] != "W":
            return
        nxt = None
        for s in cur["steps"]:
            if s["name"] == seg or (cur["name"] == wf_template and seg == old and s["name"] == new):
                nxt = T[s["template"]]
                if cur["name"] == wf_template and seg == old and s["name"] == new:
                    path[j] = new
                break
        cur = nxt
