"""C15 – Loading a package is deterministic; user variable files are layered in the order given, last wins.

Workload: seeded FlowIR / DSL 2.0 / DOSINI packages with option sets (platform, 0..4 user variable files given in a
stated order).  Every package is loaded by K REAL child processes that differ in PYTHONHASHSEED, in the key order of
the (semantically equal) input documents and in the order in which os.listdir/os.scandir/glob answer (shim inside the
child), through four entry points (configuration factory, WorkflowGraph.graphFromPackage replicated and PRIMITIVE,
Experiment.experimentFromPackage).  Each child prints a canonical dump.

FlowIR / DOSINI packages may contain repeating components (repeatInterval) whose working directory holds the archived
streams/<i>.stdout files of several repetitions, consumed through `<component>:output`; the experiment dump carries,
per component, what every reference resolves to, the stdout path and the command line with references substituted.

Oracle:  (B) all dumps of one (package, options, entry point) are equal;
         (V) cross-stage shadowing (a global variable overridden in SOME stages, other stages deriving stage variables
             from it): besides (B), no component / stage-variable table of stage S carries the value that ANOTHER
             stage's variables give to the variable, derived variables hold the global value, and the number of
             replicas driven by such a variable is the global one - in every process;
         (S) a `:output` reference to a repeating component resolves to the same file, and its consumer gets the same
             memoization hash, in children that were shown the streams directory in different orders;
         (A) the user variables a child reports equal an independent fold of the given files (last wins) and no
             resolved configuration carries the value of a losing file.
"""
from __future__ import annotations

import json
import os
import random
import re
import sys
import time
from typing import Any, Dict, List, Optional

import vlib

vlib.bootstrap()

from checks import _c15_gen as gen  # noqa: E402

KNOWN_KEY = "C15:variable-files-order-lost-by-set-dedup"
ENTRIES = ("factory", "graph", "graph_primitive", "experiment")
INFO_KEYS = ("layering_order_seen", "info_stored_component_order")
HASH_PROBES = ("c15-probe", "stage0.a", "uv0")


# ----------------------------------------------------------------------------- child side

def restore_int_keys(o: Any, under_stages: bool = False) -> Any:
    """JSON turned the integer stage indices of `stages:` mappings into strings – undo that."""
    if isinstance(o, dict):
        out = {}
        for k, v in o.items():
            kk = int(k) if (under_stages and isinstance(k, str) and k.isdigit()) else k
            out[kk] = restore_int_keys(v, under_stages=(k == "stages"))
        return out
    if isinstance(o, list):
        return [restore_int_keys(x) for x in o]
    return o


def run_job(job: Dict[str, Any], w: vlib.Worker):
    os.environ.pop("PYTHONHASHSEED", None)  # the interpreter has consumed it; keep it out of built environments
    from checks import _c15_child as ch
    r = random.Random(job["child_seed"])
    ch.install_listing_shim(random.Random(job["child_seed"] + 1))
    root = vlib.mkscratch("c15-b%d-c%d" % (job["batch"], job["child"]))
    out = {"hash_probe": [hash(p) for p in HASH_PROBES], "hashseed": job["hashseed"], "child": job["child"],
           "child_seed": job["child_seed"],
           "flags_hash_randomization": sys.flags.hash_randomization, "dumps": {}}
    for case in job["cases"]:
        case = restore_int_keys(case)
        out["dumps"][str(case["index"])] = ch.load_and_dump(case, root, r)
        w.count("child_case_loads")
    out["shim"] = dict(ch.SHIM)
    with open(job["dump_path"], "w") as f:
        json.dump(out, f)


if "--worker" in sys.argv:
    vlib.worker_main(run_job)


# ----------------------------------------------------------------------------- parent side: oracle

def fold(case: Dict[str, Any], order: List[int]) -> Dict[str, Any]:
    c = dict(case)
    c["var_order"] = order
    return canon_uservars(gen.expected_user_variables(c))


def canon_uservars(u: Dict[str, Any]) -> Dict[str, Any]:
    out: Dict[str, Any] = {}
    if u.get("global"):
        out["global"] = dict(u["global"])
    st = {str(k): dict(v) for k, v in (u.get("stages") or {}).items() if v}
    if st:
        out["stages"] = st
    return out


def first_diff(a: Any, b: Any, path: str = "") -> Optional[List[Any]]:
    if type(a) is not type(b):
        return [path, a, b]
    if isinstance(a, dict):
        for k in sorted(set(a) | set(b)):
            if k not in a or k not in b:
                return ["%s/%s" % (path, k), a.get(k, "<absent>"), b.get(k, "<absent>")]
            d = first_diff(a[k], b[k], "%s/%s" % (path, k))
            if d:
                return d
        return None
    if isinstance(a, list):
        if len(a) != len(b):
            return [path + "/<len>", a, b]
        for i, (x, y) in enumerate(zip(a, b)):
            d = first_diff(x, y, "%s[%d]" % (path, i))
            if d:
                return d
        return None
    return None if a == b else [path, a, b]


def structural(d: Dict[str, Any]) -> Dict[str, Any]:
    """The part of a dump that user variables cannot influence (names, graph, environment names/definitions)."""
    comps = {}
    for n, c in (d.get("components") or {}).items():
        cfg = c.get("config") if isinstance(c.get("config"), dict) else {}
        comps[n] = {"producers": c.get("producers"), "datarefs": c.get("datarefs"),
                    "environment_name": (cfg.get("command") or {}).get("environment"),
                    "references": cfg.get("references")}
    return {"nodes": d.get("nodes"), "edges": d.get("edges"), "components": comps,
            "environments_defined": d.get("environments_defined"), "platform": d.get("platform")}


_TOKEN = re.compile(r"f\d-(?:s\d+-)?[A-Za-z0-9]+")


def loser_tokens(case: Dict[str, Any]):
    """For every variable defined by >= 2 given files with different values: (winner, losers) among the values that
    are unique tokens by construction ('f<file>-<var>' / 'f<file>-s<stage>-<var>')."""
    out = []
    for scope, name in gen.conflicting_variables(case):
        vals = []
        for i in case["var_order"]:
            f = case["varfiles"][i]
            v = (f.get("global") or {}).get(name) if scope == "global" else ((f.get("stages") or {}).get(scope) or {}).get(name)
            if v is not None:
                vals.append(v)
        winner = vals[-1]
        losers = sorted({v for v in vals if v != winner and isinstance(v, str) and _TOKEN.fullmatch(v)})
        out.append({"scope": scope, "name": name, "winner": winner, "losers": losers})
    return out


def judge_stream_refs(c: vlib.Check, case: Dict[str, Any], oks: List[Any], per_child: List[Dict[str, Any]]):
    """Clause S. `oks`: [(per-child record, experiment dump)] of the children that loaded the package.  For every
    `<repeating component>:output` reference (known by construction) compare, across children, the file the reference
    resolves to, the value substituted and the strong memoization hash of the consumer.  Which stream is the right one
    is NOT judged (the statement only says: the same in every process, whatever the listing order)."""
    streams = case.get("streams") or {}
    for consumer, ref, producer in case.get("stream_refs") or []:
        first, count = streams[producer]
        seen = []
        for pc, d in oks:
            comp = (d.get("components") or {}).get(consumer) or {}
            row = next((x for x in (comp.get("resolved") or []) if x and x[0] == ref), None)
            if row is None:
                continue
            suffix = "/%s/streams/*.stdout" % producer.replace(".", "/", 1)  # .../stages/stage<i>/<name>/streams
            orders = [names for pat, names in ((pc.get("info") or {}).get("stream_listings") or []) if pat.endswith(suffix)]
            seen.append({"child": pc["child"], "hashseed": pc["hashseed"], "location": row[1], "value": row[2],
                         "hash": comp.get("hash"), "arguments": comp.get("resolved_arguments"),
                         "listing_orders_shown": orders[:3]})
        if len(seen) < 2:
            continue
        c.count("stream_output_refs_compared")
        c.count("stream_output_refs_compared_children", len(seen))
        if count >= 2 and len({json.dumps(x["listing_orders_shown"][:1]) for x in seen}) >= 2:
            c.count("stream_dirs_listed_in_2plus_orders")
        if first + count - 1 >= 10:
            c.count("stream_output_refs_with_two_digit_indices")
        if all(isinstance(x["location"], str) and "/streams/" in x["location"] for x in seen):
            c.count("stream_output_refs_resolved_to_an_archived_stream")
        if all(x["hash"] for x in seen):
            c.count("stream_consumer_strong_hashes_compared")
        for what, label in (("location", "resolves to different files"), ("value", "is substituted by different values"),
                            ("hash", "gives its consumer different memoization hashes")):
            vals = sorted({json.dumps(x[what]) for x in seen})
            if len(vals) > 1:
                a = seen[0]
                b = next(x for x in seen if x[what] != a[what])
                c.violation(
                    "reference %s of %s (stdout of the repeating component %s, archived streams %d..%d) %s in "
                    "processes that were shown the streams directory in different orders: %s (listing %s) vs %s "
                    "(listing %s)" % (ref, consumer, producer, first, first + count - 1, label,
                                      json.dumps(a[what])[:120], json.dumps(a["listing_orders_shown"][:1])[:120],
                                      json.dumps(b[what])[:120], json.dumps(b["listing_orders_shown"][:1])[:120]),
                    {"case": case, "entry": "experiment", "consumer": consumer, "reference": ref, "producer": producer,
                     "streams": [first, count], "differs": what, "per_child": seen,
                     "hashseeds": [p["hashseed"] for p in per_child],
                     "child_seeds": [p["child_seed"] for p in per_child]})
                break
        else:
            c.count("stream_output_refs_equal_in_all_children")


_XTOK = re.compile(r"(?<![A-Za-z0-9])(?:oa?\d+|ga?)-xv\d+")


def judge_shadow(c: vlib.Check, case: Dict[str, Any], entry: str, pc: Dict[str, Any], d: Dict[str, Any],
                 per_child: List[Dict[str, Any]]) -> List[Any]:
    """Clause V, one loaded dump.  Values are unique tokens naming the scope they were written in:
    g-xv<k> / ga-xv<k> (global, default / platform section), o<A>-xv<k> / oa<A>-xv<k> (stage A's variables).
    Stage variables are visible inside their stage only, so a token of stage A must not surface in anything that
    belongs to a stage S != A, whatever order the loader visits the stages in."""
    sh = case.get("shadow")
    problems: List[Any] = []   # [(message, witness)] - the caller reports ONE violation per (package, entry point)
    if not sh:
        return problems
    wit = {"case": case, "entry": entry, "child": pc["child"], "hashseed": pc["hashseed"],
           "stage_order_of_an_identifier_set": (pc.get("info") or {}).get("stage_order_of_an_identifier_set"),
           "hashseeds": [p["hashseed"] for p in per_child], "child_seeds": [p["child_seed"] for p in per_child]}
    alt = case.get("platform") == "alt"

    def scan(owner: str, stage: int, text: str):
        for tok in sorted(set(_XTOK.findall(text))):
            a = gen.shadow_token_stage(tok)
            c.count("shadow_value_scope_checks")
            if a is None:
                c.count("shadow_global_values_seen")
            elif a == stage:
                c.count("shadow_own_stage_overrides_seen")
            else:
                x = tok.split("-", 1)[1]
                problems.append((
                    "%s (stage %d) carries %r, the value that the variables of stage %d give to %s; stage %d does "
                    "not define %s, only the global value is visible there (entry=%s, hash seed %s, an identifier "
                    "set lists the stages as %s in that process)" % (
                        owner, stage, tok, a, x, stage, x, entry, pc["hashseed"],
                        wit["stage_order_of_an_identifier_set"]),
                    dict(wit, owner=owner, stage=stage, foreign_value=tok, foreign_stage=a)))

    for n, cc in (d.get("components") or {}).items():
        m = re.match(r"stage(\d+)\.", n)
        if not m:
            continue
        scan("component %s" % n, int(m.group(1)),
             json.dumps([cc.get("config"), cc.get("environment"), cc.get("resolved_arguments")], default=repr))
    vd = d.get("variables_defined") or {}
    tables = {}
    for plat, sec in vd.items():
        for st, tab in ((sec or {}).get("stages") or {}).items():
            if str(st).isdigit() and isinstance(tab, dict):
                tables[(plat, int(st))] = tab
                scan("stage-variable table %s/%s" % (plat, st), int(st), json.dumps(tab, default=repr))
    # derived variables: %(X)s seen from a stage that does not define X is the global X
    plat_loaded = d.get("platform") or "default"
    for b, dname, x in sh["derived"]:
        xi = sh["vars"][x]
        exp = xi["alt_global"] if (alt and xi["alt_global"]) else xi["global"]
        tab = tables.get((plat_loaded, int(b)))
        if tab is None or dname not in tab:
            continue
        c.count("shadow_derived_values_checked")
        if tab[dname] == exp:
            c.count("shadow_derived_values_equal_global")
        elif isinstance(tab[dname], str) and "%(" in tab[dname]:
            c.count("shadow_derived_values_left_unresolved")
        else:
            problems.append(("stage variable %s of stage %s is defined as %%(%s)s; stage %s does not define %s, so it is the "
                        "global value %r - got %r (entry=%s, hash seed %s)" % (dname, b, x, b, x, exp, tab[dname], entry,
                                                                              pc["hashseed"]),
                        dict(wit, variable=dname, stage=b, expected=exp, observed=tab[dname])))
    rp = sh.get("replicate")
    if rp and entry != "graph_primitive":
        exp_n = rp["alt_global"] if (alt and rp["alt_global"]) else rp["global"]
        pat = re.compile(r"stage%d\.%s(\d+)$" % (rp["stage"], re.escape(rp["source"])))
        got = sorted(int(pat.match(n).group(1)) for n in (d.get("nodes") or []) if pat.match(n))
        c.count("shadow_replicate_counts_checked")
        if got != list(range(exp_n)):
            problems.append(("replicate count of stage%d.%s comes from %%(dvr)s = %%(xvr)s; stage %d does not define xvr, the "
                        "global value is %d, stage %d overrides it with %d: expected replicas %s, got %s (entry=%s, hash "
                        "seed %s)" % (rp["stage"], rp["source"], rp["stage"], exp_n, rp["over_stage"], rp["override"],
                                      list(range(exp_n)), got, entry, pc["hashseed"]),
                        dict(wit, expected_replicas=exp_n, observed_replicas=got)))
        else:
            c.count("shadow_replicate_counts_equal_global")
    return problems


def judge_case(c: vlib.Check, case: Dict[str, Any], per_child: List[Dict[str, Any]]):
    """per_child: [{'child':i,'hashseed':s,'dumps':{entry:dump}}]"""
    expected = canon_uservars(gen.expected_user_variables(case))
    conflicts = loser_tokens(case)
    uniq_given = sorted(set(case["var_order"]))
    light = {"index": case["index"], "kind": case["kind"], "klass": case["klass"], "platform": case["platform"],
             "var_order": case["var_order"], "varfiles": case["varfiles"]}
    nontrivial = False
    for entry in ENTRIES:
        oks, tainted = [], []
        shadow_bad: List[Any] = []
        outcomes = set()
        for pc in per_child:
            d = pc["dumps"].get(entry)
            if d is None:
                continue
            c.evaluated()
            outcomes.add((d.get("outcome"), d.get("type")))
            if d.get("outcome") != "ok":
                c.count("loads_exc")
                continue
            c.count("loads_ok")
            sp = judge_shadow(c, case, entry, pc, d, per_child)
            if sp:
                shadow_bad.append((pc, sp))
            seen = d.get("layering_order_seen")
            uv = canon_uservars(d.get("user_variables") or {})
            # ---- oracle A: last file wins
            if len(case["var_order"]) >= 1:
                c.count("lastwins_children_judged")
                if conflicts:
                    c.count("lastwins_children_judged_with_conflicting_files")
            is_tainted = False
            if uv != expected:
                key = None
                # structural classifier of the known mechanism: the configuration holds the SAME set of files in an
                # order that is not the given one, and what it reports is exactly the fold in that other order.
                if (entry in ("factory", "graph", "graph_primitive") and isinstance(seen, list) and sorted(seen) == uniq_given
                        and len(uniq_given) >= 2 and fold(case, seen) == uv and fold(case, seen) != expected):
                    key = KNOWN_KEY
                    is_tainted = True
                c.violation(
                    "user variables are not the given files layered in order (last wins): entry=%s expected=%s got=%s"
                    % (entry, json.dumps(expected, sort_keys=True)[:200], json.dumps(uv, sort_keys=True)[:200]),
                    {"case": case, "entry": entry, "child": pc["child"], "hashseed": pc["hashseed"],
                     "layering_order_seen": seen, "given_order": case["var_order"],
                     "expected_user_variables": expected, "observed_user_variables": uv,
                     "hashseeds": [p["hashseed"] for p in per_child],
                         "child_seeds": [p["child_seed"] for p in per_child]},
                    finding_key=key)
            else:
                c.count("lastwins_ok")
            # losing values must not surface in any resolved configuration
            if conflicts and not is_tainted:
                text_by_comp = {n: json.dumps((cc.get("config") or {}), sort_keys=True) if isinstance(cc.get("config"), dict) else ""
                                for n, cc in (d.get("components") or {}).items()}
                for cf in conflicts:
                    for n, text in text_by_comp.items():
                        toks = set(_TOKEN.findall(text))
                        if isinstance(cf["winner"], str) and cf["winner"] in toks:
                            c.count("winner_value_seen_in_resolved_config")
                        bad = [t for t in cf["losers"] if t in toks]
                        if bad:
                            c.violation(
                                "resolved configuration of %s carries %s, the value of a file that is not the last one "
                                "defining %s (winner %r)" % (n, bad, cf["name"], cf["winner"]),
                                {"case": case, "entry": entry, "child": pc["child"], "hashseed": pc["hashseed"],
                                 "component": n, "conflict": cf, "layering_order_seen": seen,
                                 "hashseeds": [p["hashseed"] for p in per_child],
                         "child_seeds": [p["child_seed"] for p in per_child]})
                        else:
                            c.count("no_loser_value_checks")
            (tainted if is_tainted else oks).append((pc, d))
        if shadow_bad:
            pc0, sp0 = shadow_bad[0]
            w0 = dict(sp0[0][1])
            w0["other_problems_in_this_child"] = [m_ for m_, _ in sp0[1:6]]
            w0["children_affected"] = [[p_["child"], p_["hashseed"], len(x_)] for p_, x_ in shadow_bad]
            c.count("shadow_scope_problems_found", sum(len(x_) for _, x_ in shadow_bad))
            c.violation("%s [%d such problem(s) in this process; %d of %d processes affected]" % (
                sp0[0][0], len(sp0), len(shadow_bad), len(per_child)), w0)
        if len(outcomes) > 1:
            c.violation("load outcome differs between processes: %s" % sorted(map(str, outcomes)),
                        {"case": case, "entry": entry, "outcomes": sorted(map(str, outcomes)),
                         "hashseeds": [p["hashseed"] for p in per_child],
                         "child_seeds": [p["child_seed"] for p in per_child]})
        # ---- oracle B: all dumps equal
        if len(oks) >= 2:
            c.count("groups_compared")
            nontrivial = True
            ref_pc, ref = oks[0]
            if entry == "experiment":
                judge_stream_refs(c, case, oks, per_child)  # clause S first: its message names the mechanism
            ref_cmp = {k: v for k, v in ref.items() if k not in INFO_KEYS}
            if len({json.dumps(d_.get("info_stored_component_order")) for _, d_ in oks}) > 1:
                c.count("info_groups_where_stored_component_list_order_differs")
            all_eq = True
            for pc, d in oks[1:]:
                c.count("pairwise_dump_comparisons")
                dd = {k: v for k, v in d.items() if k not in INFO_KEYS}
                diff = first_diff(ref_cmp, dd)
                if diff:
                    all_eq = False
                    c.violation(
                        "dumps of the same package differ between processes at %s: %s vs %s (entry=%s, hash seeds %s/%s)"
                        % (diff[0], json.dumps(diff[1], default=repr)[:160], json.dumps(diff[2], default=repr)[:160],
                           entry, ref_pc["hashseed"], pc["hashseed"]),
                        {"case": case, "entry": entry, "diff_at": diff[0], "a": diff[1], "b": diff[2],
                         "child_a": ref_pc["child"], "child_b": pc["child"],
                         "hashseed_a": ref_pc["hashseed"], "hashseed_b": pc["hashseed"],
                         "hashseeds": [p["hashseed"] for p in per_child],
                         "child_seeds": [p["child_seed"] for p in per_child]})
            if all_eq:
                c.count("groups_all_equal")
            if entry == "graph_primitive":
                c.count("primitive_graphs_compared")
                nd = sum(1 for e_ in (ref.get("edges") or []) if re.search(r"[0-9]$", e_[0]))
                if nd:
                    c.count("primitive_graphs_with_edges_from_producers_named_with_trailing_digit")
                    c.count("primitive_edges_from_producers_named_with_trailing_digit", nd)
            if case["kind"] == "dsl" and any(re.search(r"-[IVX]+$", n) for n in ref.get("nodes") or []):
                c.count("dsl_groups_with_duplicated_step_names")
            if case["kind"] == "dsl" and len((ref.get("environments_defined") or {}).get("default", {})) >= 1:
                c.count("dsl_groups_with_generated_environments")
            if entry == "experiment":
                c.count("reference_resolutions_compared",
                        sum(len(cc.get("resolved") or []) for cc in (ref.get("components") or {}).values()))
                hs = [cc.get("hash") for cc in (ref.get("components") or {}).values()]
                c.count("strong_hashes_compared", sum(1 for h in hs if h))
                c.count("fuzzy_hashes_compared", sum(1 for cc in (ref.get("components") or {}).values() if cc.get("hash_fuzzy")))
        elif len(oks) < 2 and not tainted and len(outcomes) == 1 and ("ok", None) not in outcomes:
            c.count("groups_all_failed_to_load")
        # children showing the known mechanism: still compare everything user variables cannot influence
        if tainted and oks:
            ref_s = structural(oks[0][1])
            for pc, d in tainted:
                c.count("tainted_children_structurally_compared")
                diff = first_diff(ref_s, structural(d))
                if diff:
                    c.violation("names/graph/environments differ between processes at %s: %s vs %s (entry=%s)" % (
                        diff[0], json.dumps(diff[1], default=repr)[:160], json.dumps(diff[2], default=repr)[:160], entry),
                        {"case": case, "entry": entry, "diff_at": diff[0], "a": diff[1], "b": diff[2],
                         "hashseed_a": oks[0][0]["hashseed"], "hashseed_b": pc["hashseed"],
                         "hashseeds": [p["hashseed"] for p in per_child],
                         "child_seeds": [p["child_seed"] for p in per_child]})
    if nontrivial and case.get("shadow"):
        c.count("shadow_packages_judged")
        seeds = {pc["hashseed"] for pc in per_child if (pc["dumps"].get("factory") or {}).get("outcome") == "ok"}
        c.count("shadow_package_loads_under_distinct_hashseeds", len(seeds))
        if len(seeds) >= 8:
            c.count("shadow_packages_loaded_under_8plus_hashseeds")
        orders = {json.dumps((pc.get("info") or {}).get("stage_order_of_an_identifier_set")) for pc in per_child}
        if len(orders) >= 2:
            c.count("shadow_packages_whose_children_list_stages_in_2plus_orders")
        if case["shadow"]["stages"] >= 3:
            c.count("shadow_packages_with_3plus_stages")
    if nontrivial:
        c.distinct(case["klass"])
        c.count("packages_judged")
        c.count("packages_judged_" + case["kind"])
        if len(c.samples) < c.max_samples and (case["index"] % 5 in (0, 1, 4)):
            ex = per_child[0]["dumps"].get("experiment") or {}
            c.sample({"case": light, "children_hashseeds": [p["hashseed"] for p in per_child],
                      "nodes": ex.get("nodes"), "edges": ex.get("edges"),
                      "hashes": {n: [cc.get("hash"), cc.get("hash_fuzzy")] for n, cc in (ex.get("components") or {}).items()},
                      "user_variables": ex.get("user_variables"), "expected_user_variables": expected})


# ----------------------------------------------------------------------------- driver

def plan(tier: str):
    if tier == "thorough":
        return {"packages": 240, "children": 16, "batch": 20}
    return {"packages": 24, "children": 8, "batch": 8}


def hashseeds_for(batch: int, k: int, fixed: Optional[List[int]] = None) -> List[int]:
    if fixed:
        return list(fixed)
    r = vlib.rng("hashseeds", batch)
    out = [0]
    while len(out) < k:
        s = r.randrange(1, 2 ** 32 - 1)
        if s not in out:
            out.append(s)
    return out


def run(c: vlib.Check, cases: List[Dict[str, Any]], k: int, batch_size: int, fixed_seeds: Optional[List[int]] = None,
        timeout: float = 900.0, fixed_child_seeds: Optional[List[int]] = None):
    ddir = vlib.mkscratch("c15-dumps")
    batches = [cases[i:i + batch_size] for i in range(0, len(cases), batch_size)]
    jobs = []
    for b, bc in enumerate(batches):
        hs = hashseeds_for(b, k, fixed_seeds)
        for ci in range(len(hs)):
            jobs.append({"batch": b, "child": ci, "hashseed": hs[ci], "cases": bc,
                         "child_seed": (fixed_child_seeds[ci] if fixed_child_seeds and ci < len(fixed_child_seeds)
                                        else vlib.rng("child", b, ci).randrange(2 ** 31)),
                         "dump_path": os.path.join(ddir, "b%d-c%d.json" % (b, ci))})
    vlib.fanout("checks.C15", jobs, c, timeout=timeout,
                per_job_env=lambda job: {"PYTHONHASHSEED": str(job["hashseed"])})
    by_batch: Dict[int, List[Dict[str, Any]]] = {}
    for j in jobs:
        try:
            with open(j["dump_path"]) as f:
                rec = json.load(f)
        except (OSError, ValueError):
            continue  # fanout has already recorded the worker as inconclusive
        by_batch.setdefault(j["batch"], []).append(rec)
        c.count("children_total")
        c.count("listing_calls", rec["shim"]["calls"])
        c.count("listing_calls_reordered", rec["shim"]["reordered"])
    for b, bc in enumerate(batches):
        recs = sorted(by_batch.get(b, []), key=lambda x: x["child"])
        probes = {tuple(r_["hash_probe"]) for r_ in recs}
        c.count("distinct_string_hash_functions_observed", len(probes))
        if len(recs) >= 2 and len(probes) < len(recs):
            c.note_inconclusive("batch %d: %d children but only %d distinct str-hash functions – PYTHONHASHSEED "
                                "did not take effect" % (b, len(recs), len(probes)))
        for case in bc:
            case = restore_int_keys(json.loads(json.dumps(case)))
            per_child = [{"child": r_["child"], "hashseed": r_["hashseed"], "child_seed": r_["child_seed"],
                          "dumps": r_["dumps"].get(str(case["index"]), {}),
                          "info": r_["dumps"].get(str(case["index"]), {}).get("_info") or {}} for r_ in recs]
            judge_case(c, case, per_child)


def main():
    c = vlib.Check(
        "C15", "exploration",
        rule="seeded FlowIR / DSL 2.0 / DOSINI packages x option sets (platform, 0-4 user variable files in a given "
             "order, a path possibly given twice; FlowIR/DOSINI: repeating components with 2-5 archived stdout streams "
             "consumed through :output; FlowIR: cross-stage variable shadowing over >= 3 stages - globals overridden in "
             "some stages, other stages deriving stage variables from them, feeding arguments / references / "
             "environment values / replicate counts), each loaded through 4 entry points (incl. the primitive graph; FlowIR/DOSINI components may have names ending in digits) by K real child processes with "
             "distinct PYTHONHASHSEED, re-shuffled mapping key order of every input document and shuffled "
             "listdir/scandir/glob answers; a package counts as non-trivial when >= 2 children with different string "
             "hash functions produced a dump for it; distinct = distinct structural classes (kind, #stages, "
             "replication, platform option, #variable files, duplicated path / #nested-workflow templates, "
             "#instances, #inner steps / #platform files)",
        assumptions=[
            "Key-order shuffling is applied to YAML mappings and INI sections/options only; list order (components, "
            "references, execute steps, sections of a DOSINI stage file) is treated as content and kept.",
            "Each user variable name lives in one scope only (global, or one stage) across package and files, so "
            "'the last file defining it wins' has a single reading; loser detection in resolved configurations uses "
            "values that are unique tokens by construction.",
            "Dumps are compared after replacing the child's scratch root and the instance timestamp by placeholders; "
            "for a load that raises only the exception class is compared (messages are not part of the statement).",
            "Listing order is varied by a shim around os.listdir/os.scandir/glob inside the child, not by the file system.",
            "Shadowed variables (xv<k>, xvr) and the stage variables derived from them are not touched by user variable "
            "files; their values are unique tokens naming the scope they were written in. Stage variables are taken "
            "to be visible inside their own stage only (a value of stage A's table must not surface in stage S != A).",
            "Archived streams are written by the harness the way RepeatingEngine.archive_stream leaves them (at most 5 "
            "contiguous indices, stdout+stderr); WHICH stream a :output reference picks is not judged, only that it "
            "is the same one (and the same consumer hash) under every listing order.",
            "Dynamic check: held on the packages and hash seeds explored, not a proof.",
        ])
    rp = vlib.load_replay(sys.argv)
    p = plan(c.tier)
    if rp is not None:
        wit = rp["witness"]
        case = wit["case"]
        seeds = wit.get("hashseeds") or hashseeds_for(0, p["children"])
        run(c, [case], len(seeds), 1, fixed_seeds=seeds, fixed_child_seeds=wit.get("child_seeds"))
        c.extra["replayed"] = {"index": case.get("index"), "hashseeds": seeds}
        sys.exit(c.finish())

    cases = [gen.gen_case(vlib.rng("pkg", i), i) for i in range(p["packages"])]
    cases = json.loads(json.dumps(cases))  # exactly what the children receive
    run(c, cases, p["children"], p["batch"])
    c.extra["plan"] = p
    n = p["packages"]
    c.floor("packages_judged", int(n * 0.9))
    c.floor("packages_judged_flowir", int(n * 0.3))
    c.floor("packages_judged_dsl", int(n * 0.3))
    c.floor("packages_judged_dosini", int(n * 0.1))
    c.floor("groups_compared", int(n * 4 * 0.7))
    c.floor("primitive_graphs_compared", int(n * 0.8))
    c.floor("primitive_graphs_with_edges_from_producers_named_with_trailing_digit", max(3, n // 5))
    c.floor("lastwins_children_judged_with_conflicting_files", n * p["children"] // 4)
    c.floor("no_loser_value_checks", n * p["children"] // 4)
    c.floor("winner_value_seen_in_resolved_config", n)
    c.floor("dsl_groups_with_duplicated_step_names", int(n * 0.3))
    c.floor("dsl_groups_with_generated_environments", int(n * 0.3))
    c.floor("fuzzy_hashes_compared", n)
    c.floor("strong_hashes_compared", n)
    c.floor("listing_calls_reordered", n * p["children"])
    c.floor("shadow_packages_judged", n // 4)
    c.floor("shadow_packages_with_3plus_stages", n // 4)
    c.floor("shadow_packages_loaded_under_8plus_hashseeds", n // 4)
    c.floor("shadow_package_loads_under_distinct_hashseeds", (n // 4) * 8)
    c.floor("shadow_packages_whose_children_list_stages_in_2plus_orders", n // 4)
    c.floor("shadow_value_scope_checks", n * p["children"])
    c.floor("shadow_global_values_seen", n * p["children"])
    c.floor("stream_output_refs_compared", n // 4)
    c.floor("stream_output_refs_resolved_to_an_archived_stream", n // 4)
    c.floor("stream_consumer_strong_hashes_compared", n // 4)
    c.floor("stream_dirs_listed_in_2plus_orders", n // 4)
    c.floor("distinct_string_hash_functions_observed", (n // p["batch"]) * p["children"])
    sys.exit(c.finish())


if __name__ == "__main__":
    main()
