"""C07 - An instance reloaded from its own files is the same experiment.

History per case:  E1 = Experiment.experimentFromPackage(pkg, platform, variable files); k0 DoWhile
iterations instantiated with store_flowir_to_disk=True;  then per cycle:
    bytes of conf/flowir_instance.yaml + conf/manifest.yaml are read,
    E' = Experiment.experimentFromInstance(dir, platform=<same>, updateInstanceConfiguration=u),
    snapshot(E') must equal snapshot(previous experiment)                      [clause reload]
    (u=True rewrites the files while loading: parsed content must be unchanged) [clause load_idempotent]
    E'.configuration.store_unreplicated_flowir_to_disk(): parsed content unchanged [clause store_idempotent]
    optionally more loop iterations on E' (stored), which becomes the "previous experiment".
snapshot = node set, edge set, per node resolved configuration (configurationForNode(raw=False)),
data references, environment; DoWhile state + placeholders; user variables; number of stages.
Round 3: about half of the packages carry "explicitly empty" list options (shutdownOn / restartHookOn /
executors.pre|post set to [] where the FlowIR default, a blueprint layer or the component's own base under
an override gives a non-empty list; _c07_gen._add_explicit_empties).  The verdict is still the differential
`configuration` clause; `clause_reload_emptied_options` counts the (node, option) pairs whose resolved value
in the experiment that wrote the files is the explicitly chosen [] (ground truth by construction).
"""
from __future__ import annotations

import json
import os
import sys
import traceback

import vlib

vlib.bootstrap()

from checks import _c07_gen as G  # noqa: E402

PROP = "C07"
KEY_STALE_COND = "C07:stale-condition-edges"   # not a finding: tolerated difference, see _edge_diff


# ----------------------------------------------------------------------------- snapshots

def _norm(o, inst):
    """instance-specific values: absolute paths are compared relative to the instance root"""
    if isinstance(o, str):
        return o.replace(inst, "$INSTANCE_DIR")
    if isinstance(o, dict):
        return {str(k): _norm(v, inst) for k, v in o.items()}
    if isinstance(o, (list, tuple)):
        return [_norm(v, inst) for v in o]
    return o


def _guard(fn):
    try:
        return fn()
    except Exception as e:
        return "RAISED %s: %s" % (type(e).__name__, str(e)[:200])


def snapshot(exp):
    g = exp.experimentGraph
    inst = exp.instanceDirectory.location
    snap = {"nodes": sorted(g.graph.nodes), "edges": sorted([list(e) for e in g.graph.edges()]),
            "stages": g.numberStageConfigurations, "platform": g.configuration.platform_name, "per_node": {}}
    for n in snap["nodes"]:
        env = _guard(lambda: g.environmentForNode(n))
        if isinstance(env, dict):
            env = dict(env)
            env.pop("FLOW_RUN_ID", None)       # a fresh uuid per Experiment object
        conf = _guard(lambda: g.configurationForNode(n, raw=False))
        refs = _guard(lambda: sorted(g.dataReferencesForNode(n)))
        snap["per_node"][n] = _norm({"configuration": conf, "references": refs, "environment": env}, inst)
    dws = {}
    for dw_id, dw in g._documents.get("DoWhile", {}).items():
        dws[dw_id] = {"state": dw.get("state"), "condition": dw["document"].get("condition"),
                      "bindings": dw["document"].get("bindings"),
                      "loopBindings": dw["document"].get("loopBindings"),
                      "components": sorted((c.get("stage", 0), c["name"]) for c in dw["document"]["components"])}
    snap["dowhile"] = _norm(dws, inst)
    snap["placeholders"] = {p: {"represents": sorted(v["represents"]), "latest": v["latest"],
                                "DoWhileId": v["DoWhileId"], "stage": v["stage"]}
                            for p, v in g._placeholders.items()}
    snap["user_variables"] = _norm(_guard(lambda: g.configuration.get_user_variables()), inst)
    snap["global_variables"] = _norm(_guard(lambda: g.configuration.get_global_variables()), inst)
    return json.loads(json.dumps(snap, sort_keys=True, default=repr))


def diff(a, b, path="", out=None, limit=12):
    out = [] if out is None else out
    if len(out) >= limit:
        return out
    if isinstance(a, dict) and isinstance(b, dict):
        for k in sorted(set(a) | set(b)):
            if k not in a:
                out.append("%s/%s: only after reload = %r" % (path, k, b[k]))
            elif k not in b:
                out.append("%s/%s: lost on reload (was %r)" % (path, k, a[k]))
            else:
                diff(a[k], b[k], path + "/" + str(k), out, limit)
    elif isinstance(a, list) and isinstance(b, list) and len(a) == len(b) and any(isinstance(x, (dict, list)) for x in a):
        for i, (x, y) in enumerate(zip(a, b)):
            diff(x, y, "%s[%d]" % (path, i), out, limit)
    elif a != b:
        out.append("%s: %r -> %r" % (path, a, b))
    return out


def edge_diff(prev, new, prev_snap):
    """Edges of `prev` missing in `new` and vice versa.  One difference is tolerated because it is not
    dataflow: a graph that unrolled a loop incrementally keeps the synchronisation edges
    <old condition instance> -> <reader of a placeholder>, a freshly built graph only has the edge from
    the CURRENT condition instance.  Such edges carry no data reference (checked: the reader's references
    name the placeholder, and the source is an instance of the loop's condition component)."""
    pe = set(map(tuple, prev["edges"]))
    ne = set(map(tuple, new["edges"]))
    lost, gained = pe - ne, ne - pe
    cond_instances = set()
    for dw_id, dw in prev_snap["dowhile"].items():
        cond = dw["condition"]            # e.g. stage0.stop:output  (relative to the import stage)
        name = cond.rsplit(":", 1)[0].split("/", 1)[0].split(".", 1)[-1]
        for n in prev_snap["nodes"]:
            nm = n.split(".", 1)[1]
            if "#" in nm and nm.split("#", 1)[1] == name:
                cond_instances.add(n)
    placeholders = set(prev_snap["placeholders"])
    tolerated = set()
    for (src, dst) in lost:
        refs = prev_snap["per_node"].get(dst, {}).get("references") or []
        dst_stage = int(dst.split(".", 1)[0][5:])
        reads_placeholder = False
        names_src_directly = False
        for r in refs if isinstance(refs, list) else []:
            prod = r.rsplit(":", 1)[0].split("/", 1)[0]
            if not prod.startswith("stage"):
                prod = "stage%d.%s" % (dst_stage, prod)
            if prod in placeholders:
                reads_placeholder = True
            if prod == src:
                names_src_directly = True
        if src in cond_instances and reads_placeholder and not names_src_directly and "#" not in dst.split(".", 1)[1]:
            tolerated.add((src, dst))
    return sorted(lost - tolerated), sorted(gained), sorted(tolerated)


# ----------------------------------------------------------------------------- stored description

def canonical_instance(text):
    import yaml
    doc = yaml.safe_load(text)
    if not isinstance(doc, dict):
        return doc
    doc = json.loads(json.dumps(doc, default=repr))     # str keys everywhere
    comps = doc.get("components")
    if isinstance(comps, list):
        keyed = {}
        dup = False
        for c in comps:
            if isinstance(c.get("references"), list):
                c["references"] = sorted(c["references"])
            k = "stage%s.%s" % (c.get("stage", 0), c.get("name"))
            dup = dup or k in keyed
            keyed[k] = c
        # the list order passes through a set of identifiers in the writer: keyed by (stage, name)
        doc["components"] = keyed if not dup else sorted(comps, key=lambda c: json.dumps(c, sort_keys=True))
    if isinstance(doc.get("platforms"), list):
        doc["platforms"] = sorted(set(doc["platforms"]))
    return doc


def canonical(fn, text, w=None):
    """conf/manifest.yaml of an INSTANCE says which top-level folders the instance has.  Entries with a nested
    target (`shared/extra: <source>:link`) only record how the package populated a sub-folder; a reload that
    re-stores the manifest lists the top-level folders of the directory and drops them (counted, informational):
    compared are the plain entries and the set of top-level folders that all keys name."""
    doc = canonical_instance(text)
    if fn != "manifest.yaml" or not isinstance(doc, dict):
        return doc
    nested = sorted(k for k in doc if "/" in k)
    if nested and w is not None:
        w.count("info_manifest_with_nested_targets_compared")
    return {"entries": {k: v for k, v in doc.items() if "/" not in k},
            "top_level_folders": sorted({k.split("/", 1)[0] for k in doc})}


def read_files(inst):
    out = {}
    for fn in ("flowir_instance.yaml", "manifest.yaml"):
        p = os.path.join(inst, "conf", fn)
        try:
            with open(p) as f:
                out[fn] = f.read()
        except OSError as e:
            out[fn] = None
    return out


# ----------------------------------------------------------------------------- classifiers of known mechanisms

KEY_WF = "C07:workflow-import-reinstantiated-on-instance-load"
KEY_STAGEVAR = "C07:stage-variable-with-replica-resolved-at-stage-scope-in-stored-instance"


def classify_reload_exception(case, msg):
    """KEY_WF iff the loader complains that a component 'exists multiple times' and that component is
    exactly one the package obtains from an `$import`ed document of type Workflow."""
    import re
    m = re.search(r"Component stage(\d+)\.(\S+) exists multiple times", msg)
    if not m:
        return None
    who = (int(m.group(1)), m.group(2))
    for comp in case["flowir"]["components"]:
        if "$import" in comp:
            doc = (case.get("docs") or {}).get(comp["$import"])
            if doc and doc.get("type") == "Workflow":
                ids = [(comp.get("stage", 0) + c.get("stage", 0), c["name"]) for c in doc["components"]]
                if who in ids:
                    return KEY_WF
    return None


def _leaves(a, b, path="", out=None):
    out = [] if out is None else out
    if isinstance(a, dict) and isinstance(b, dict):
        for k in sorted(set(a) | set(b)):
            if k not in a or k not in b:
                out.append((path + "/" + k, a.get(k, "<absent>"), b.get(k, "<absent>")))
            else:
                _leaves(a[k], b[k], path + "/" + k, out)
    elif isinstance(a, list) and isinstance(b, list) and len(a) == len(b):
        for i, (x, y) in enumerate(zip(a, b)):
            _leaves(x, y, "%s[%d]" % (path, i), out)
    elif a != b:
        out.append((path, a, b))
    return out


def classify_stage_replica_variable(case, node, a, b):
    """KEY_STAGEVAR iff (structure of the case) the node is a replica of a component that overrides variable K
    at component scope while a variable V of its STAGE scope references both %(K)s and %(replica)s, and
    (shape of the difference) every differing leaf is a string in which only expansions of V differ: before
    the reload they carry the component-scope value of K, afterwards one and the same other value."""
    import re
    if not isinstance(a, dict) or not isinstance(b, dict):
        return None
    stage = a.get("stage")
    name = a.get("name") or ""
    variables = case["flowir"].get("variables", {})
    stage_vars = {}
    for plat in variables.values():
        for st, vs in (plat.get("stages") or {}).items():
            if int(st) == stage:
                stage_vars.update(vs)
    comps = case["flowir"]["components"] + [c for d in (case.get("docs") or {}).values() for c in d["components"]] \
        + ((case.get("dowhile") or {}).get("components") or [])
    m = re.match(r"^(.*?)(\d+)$", name)
    if not m:
        return None
    base, replica = m.group(1), m.group(2)
    base = base.split("#", 1)[-1]
    comp = [c for c in comps if c["name"] == base]
    if len(comp) != 1:
        return None
    comp_scope = comp[0].get("variables", {})
    cands = []          # (V template, K, component-scope value)
    for v, tmpl in stage_vars.items():
        if isinstance(tmpl, str) and "%(replica)s" in tmpl:
            for k, val in comp_scope.items():
                if "%%(%s)s" % k in tmpl:
                    cands.append((tmpl, k, str(val)))
    if not cands:
        return None
    leaves = _leaves(a, b)
    if not leaves:
        return None
    for path, x, y in leaves:
        if not isinstance(x, str) or not isinstance(y, str):
            return None
        xt, yt = x.split(), y.split()
        if len(xt) != len(yt):
            return None
        for p, q in zip(xt, yt):
            if p == q:
                continue
            explained = False
            for tmpl, k, cval in cands:
                live = tmpl.replace("%%(%s)s" % k, cval).replace("%(replica)s", replica)
                rx = re.escape(tmpl).replace(re.escape("%%(%s)s" % k), "(?P<K>.+?)", 1)
                rx = rx.replace(re.escape("%%(%s)s" % k), "(?P=K)").replace(re.escape("%(replica)s"), re.escape(replica))
                mm = re.match("^" + rx + "$", q)
                if p == live and mm and mm.group("K") != cval:
                    explained = True
            if not explained:
                return None
    return KEY_STAGEVAR


# ----------------------------------------------------------------------------- explicitly empty options

def _template_name(conf):
    """Name of the package component a node was made from: without the replica suffix and the `<k>#` prefix."""
    import re
    name = str(conf.get("name", ""))
    rep = (conf.get("variables") or {}).get("replica")
    if rep is not None and name.endswith(str(rep)):
        name = name[:-len(str(rep))]
    return re.sub(r"^\d+#", "", name)


def emptied_pairs(case, snap):
    """(node, option) pairs for which the generator's plan says 'explicitly [] over a non-empty inherited value'
    AND whose resolved value in `snap` is indeed empty (so the comparison after the reload is not vacuous)."""
    out = []
    plan = case.get("emptied") or []
    if not plan:
        return out
    for n in snap["nodes"]:
        conf = snap["per_node"][n]["configuration"]
        if not isinstance(conf, dict):
            continue
        tmpl = _template_name(conf)
        stage = conf.get("stage")
        for e in plan:
            if e["component"] not in ("*", tmpl):
                continue
            if e["stage"] is not None and e["stage"] != stage:
                continue
            a, b = e["option"].split(".")
            val = (conf.get(a) or {}).get(b, "<absent>")
            if val == []:
                out.append((n, e["option"], e["kind"], plan.index(e)))
    return out


def direct_refs_into(snap, folders):
    """Number of (node, reference) pairs of the experiment that wrote the files whose reference is a DIRECT
    reference into one of `folders` (first path segment, no stage/component in front)."""
    n = 0
    for node in snap["nodes"]:
        refs = snap["per_node"][node]["references"]
        for ref in refs if isinstance(refs, list) else []:
            if str(ref).rsplit(":", 1)[0].split("/", 1)[0] in folders:
                n += 1
    return n


# ----------------------------------------------------------------------------- one case

case_stage = ["create"]


def run_case(case, w, only_clause=None):
    import yaml
    import experiment.model.data
    import experiment.model.storage

    def viol(clause, what, detail, key=None):
        if only_clause is not None and clause != only_clause:
            w.count("replay_other_clause_ignored_" + clause)
            return
        w.count("viol_clause_" + clause)
        w.violation("%s: %s" % (clause, what), {"case": case, "clause": clause, "detail": detail}, finding_key=key)

    root = vlib.mkscratch("c07")
    case_stage[1:] = [root]
    fo = case.get("folders")
    file_form = bool(fo) and fo["form"] == "file"
    pkg = os.path.join(root, "c%d.package" % case["idx"])
    conf_dir = os.path.join(pkg, "conf") if not file_form else os.path.join(root, "confsrc")
    os.makedirs(conf_dir)
    documents = dict(case.get("docs") or {})
    if case["dowhile"] is not None:
        documents["dowhile.yaml"] = case["dowhile"]
    manifest = None
    if file_form:
        # standalone FlowIR file + manifest; $imported documents sit next to the file (package load) and travel
        # into the instance through the manifest entry `conf`
        pkg = os.path.join(root, "c%d.yaml" % case["idx"])
        with open(pkg, "w") as f:
            yaml.safe_dump(case["flowir"], f, sort_keys=False)
        for fn, d in documents.items():
            with open(os.path.join(root, fn), "w") as f:
                yaml.safe_dump(d, f, sort_keys=False)
        manifest = {}
        if documents:
            manifest["conf"] = conf_dir + ":copy"
    else:
        with open(os.path.join(conf_dir, "flowir_package.yaml"), "w") as f:
            yaml.safe_dump(case["flowir"], f, sort_keys=False)
    for fn, d in documents.items():
        with open(os.path.join(conf_dir, fn), "w") as f:
            yaml.safe_dump(d, f, sort_keys=False)
    for i, fd in enumerate((fo or {}).get("folders", [])):
        srcs = [os.path.join(root, "source%d" % i)] + ([os.path.join(root, "source%d-extra" % i)] if fd["nested"] else [])
        for src in srcs:
            for rel in G.FOLDER_FILES:
                os.makedirs(os.path.dirname(os.path.join(src, rel)), exist_ok=True)
                with open(os.path.join(src, rel), "w") as f:
                    f.write("%s of %s\n" % (rel, os.path.basename(src)))
        if file_form:
            manifest[fd["name"]] = "%s:%s" % (srcs[0], fd["method"])
            if fd["nested"]:
                manifest["%s/%s" % (fd["name"], fd["nested"]["name"])] = "%s:%s" % (srcs[1], fd["nested"]["method"])
        elif fd["method"] == "link":
            os.symlink(srcs[0], os.path.join(pkg, fd["name"]))        # absolute target: survives the copy to the instance
        else:
            import shutil
            shutil.copytree(srcs[0], os.path.join(pkg, fd["name"]))
    vfiles = []
    for i, uv in enumerate(case["uservars"]):
        p = os.path.join(root, "uservars%d.yaml" % i)
        with open(p, "w") as f:
            yaml.safe_dump(uv, f)
        vfiles.append(p)
    os.chdir(root)
    case_stage[0] = "create"
    platform = case["platform"]
    package = experiment.model.storage.ExperimentPackage.packageFromLocation(pkg, platform=platform, manifest=manifest)
    exp = experiment.model.data.Experiment.experimentFromPackage(
        package, location=root, platform=platform, variable_files=vfiles or None)
    inst = exp.instanceDirectory.location
    case_stage[0] = "history"

    def iterate(e, n):
        g = e.experimentGraph
        for _ in range(n):
            for dw_id in list(g._documents.get("DoWhile", {})):
                dw_node = g._documents["DoWhile"][dw_id]
                g.instantiate_dowhile_next_iteration(dw_node["document"], dw_node["state"]["currentIteration"] + 1, True)
                w.count("loop_iterations_instantiated")

    iterate(exp, case["k0"])
    prev = exp
    prev_snap = snapshot(prev)
    linked, copied = set(), set()
    if fo:
        for fd in fo["folders"]:
            (linked if os.path.islink(os.path.join(inst, fd["name"])) else copied).add(fd["name"])
        w.count("packages_with_toplevel_folders")
        w.count("packages_with_toplevel_folders_%s_form" % fo["form"])
        if linked:
            w.count("packages_with_linked_toplevel_folders")
        if any(fd["nested"] for fd in fo["folders"]):
            w.count("packages_with_nested_manifest_targets")
    n_loop_nodes = sum(1 for n in prev_snap["nodes"] if "#" in n)
    if case.get("emptied"):
        # how much of the generator's plan is real in the experiment that wrote the files (informational)
        seen = {i for _, _, _, i in emptied_pairs(case, prev_snap)}
        w.count("info_emptied_plan_entries", len(case["emptied"]))
        w.count("info_emptied_plan_entries_resolved_empty", len(seen))
    ok = True
    for ci, cyc in enumerate(case["cycles"]):
        before = read_files(inst)
        if before["flowir_instance.yaml"] is None:
            viol("stored", "no conf/flowir_instance.yaml in the instance directory", {"cycle": ci})
            return False
        try:
            new = experiment.model.data.Experiment.experimentFromInstance(
                inst, platform=platform, updateInstanceConfiguration=cyc["update"])
        except Exception as e:
            key = classify_reload_exception(case, str(e))
            note = ""
            hit = sorted(f for f in linked | copied if "stage" in str(e) and (".%s'" % f) in str(e) and "Unknown reference" in str(e))
            if hit:
                w.count("viol_toplevel_folder_not_recognised")
                note = " [top-level folder(s) %s (%s into the instance by the package) are read as component names by " \
                       "the reloaded experiment]" % (", ".join(hit), "/".join(sorted({"linked" if f in linked else "copied" for f in hit})))
            viol("reload_exception", "instance cannot be reloaded (cycle %d)%s: %s" % (ci, note, str(e)[-300:].replace("\n", " ")),
                 {"cycle": ci, "error": str(e)[-1500:]}, key)
            return False
        new_snap = snapshot(new)
        w.count("clause_reload")
        w.count("clause_reload_nodes_compared", len(prev_snap["nodes"]))
        if n_loop_nodes:
            w.count("clause_reload_with_loop_instances")
        if platform is not None:
            w.count("clause_reload_nondefault_platform")
        if case["uservars"]:
            w.count("clause_reload_with_user_variables")
        if fo:
            n_l, n_c = direct_refs_into(prev_snap, linked), direct_refs_into(prev_snap, copied)
            w.count("clause_reload_direct_refs_into_linked_folders", n_l)
            w.count("clause_reload_direct_refs_into_copied_folders", n_c)
            if n_l:
                w.count("clause_reload_with_direct_refs_into_linked_folders")
        emptied = emptied_pairs(case, prev_snap)
        if emptied:
            w.count("clause_reload_with_emptied_options")
            w.count("clause_reload_emptied_options", len(emptied))
            for kind in sorted({k for _, _, k, _ in emptied}):
                w.count("clause_reload_emptied_kind_" + kind)
        # (a) same components
        if prev_snap["nodes"] != new_snap["nodes"]:
            ok = False
            viol("components", "component set changed on reload (cycle %d): lost %s gained %s" % (
                ci, sorted(set(prev_snap["nodes"]) - set(new_snap["nodes"])),
                sorted(set(new_snap["nodes"]) - set(prev_snap["nodes"]))),
                 {"cycle": ci, "lost": sorted(set(prev_snap["nodes"]) - set(new_snap["nodes"])),
                  "gained": sorted(set(new_snap["nodes"]) - set(prev_snap["nodes"]))})
        # (b) same resolved configuration / references / environment per component
        for n in prev_snap["nodes"]:
            if n not in new_snap["per_node"]:
                continue
            for what in ("configuration", "references", "environment"):
                a, b = prev_snap["per_node"][n][what], new_snap["per_node"][n][what]
                if a != b:
                    ok = False
                    d = diff(a, b)
                    key = classify_stage_replica_variable(case, n, a, b) if what == "configuration" else None
                    note = ""
                    if what == "configuration":
                        hit = sorted({o for (nn, o, _, _) in emptied if nn == n and
                                      any(line.startswith("/" + o.replace(".", "/") + ":") for line in d)})
                        if hit:
                            w.count("viol_emptied_option_not_preserved")
                            note = " [option(s) %s: the package sets an explicitly EMPTY list that overrides a " \
                                   "non-empty inherited value; the reloaded experiment inherits again]" % ", ".join(hit)
                    viol(what, "%s of %s differs after reload (cycle %d)%s: %s" % (what, n, ci, note, "; ".join(d)[:600]),
                         {"cycle": ci, "node": n, "diff": d, "emptied_options": note or None}, key)
        # (c) same dataflow
        lost, gained, tolerated = edge_diff(prev_snap, new_snap, prev_snap)
        w.count("clause_edges")
        if tolerated:
            w.count("tolerated_stale_condition_edges", len(tolerated))
        if lost or gained:
            ok = False
            viol("dataflow", "edges differ after reload (cycle %d): lost %s gained %s" % (ci, lost[:6], gained[:6]),
                 {"cycle": ci, "lost": lost, "gained": gained})
        # (d) loop state, placeholders, user variables, platform, stages
        for what in ("dowhile", "placeholders", "user_variables", "global_variables", "platform", "stages"):
            if prev_snap[what] != new_snap[what]:
                ok = False
                d = diff(prev_snap[what], new_snap[what])
                viol(what, "%s differs after reload (cycle %d): %s" % (what, ci, "; ".join(d)[:600]),
                     {"cycle": ci, "diff": d})
        # (e) loading / storing again does not change the stored description
        after_load = read_files(inst)
        new.experimentGraph.configuration.store_unreplicated_flowir_to_disk()
        after_store = read_files(inst)
        for clause, x, y, active in (("load_idempotent", before, after_load, cyc["update"]),
                                     ("store_idempotent", after_load, after_store, True)):
            if clause == "load_idempotent" and not active:
                # updateInstanceConfiguration=False: the files must not even be touched
                w.count("clause_load_untouched")
                if x != y:
                    w.count("info_load_untouched_bytes_differ")
                    for fn in x:
                        cx = canonical(fn, x[fn], w) if x[fn] is not None else None
                        cy = canonical(fn, y[fn]) if y[fn] is not None else None
                        if cx != cy:
                            ok = False
                            viol("load_untouched", "reload with updateInstanceConfiguration=False changed %s: %s" % (
                                fn, "; ".join(diff(cx, cy))[:600]), {"cycle": ci, "file": fn, "diff": diff(cx, cy)})
                continue
            w.count("clause_" + clause)
            for fn in x:
                if x[fn] == y[fn]:
                    w.count("info_%s_byte_identical" % clause)
                    continue
                w.count("info_%s_bytes_differ" % clause)
                cx = canonical(fn, x[fn], w) if x[fn] is not None else None
                cy = canonical(fn, y[fn]) if y[fn] is not None else None
                if cx != cy:
                    ok = False
                    d = diff(cx, cy)
                    viol(clause, "%s changed (cycle %d): %s" % (fn, ci, "; ".join(d)[:700]),
                         {"cycle": ci, "file": fn, "diff": d})
        prev = new
        if cyc["k_more"]:
            iterate(prev, cyc["k_more"])
            w.count("iterations_on_reloaded_experiment", cyc["k_more"])
            prev_snap = snapshot(prev)
        else:
            prev_snap = new_snap

    # ---- slice: reload WITHOUT naming the platform (API defaults of experimentFromInstance, what
    # scripts/ewrap.py does), then the restart path again (platform named, as elaunch --restart does)
    if case.get("default_reload_probe") and platform is not None:
        if default_platform_reload_slice(case, w, viol, inst, platform, prev_snap):
            w.count("default_reload_slice_clean")
    return ok


def _strip_override(snap):
    s = json.loads(json.dumps(snap))
    for n, d in s["per_node"].items():
        if isinstance(d.get("configuration"), dict):
            d["configuration"].pop("override", None)
    s["platform"] = None
    return s


def default_platform_reload_slice(case, w, viol, inst, platform, prev_snap):
    """The instance file folds the selected platform into `default`, so a reload that does not name the
    platform must still be the same experiment (compared without the bookkeeping key `override` and the
    platform label).  With the API default updateInstanceConfiguration=True that reload re-stores the
    description; the statement says storing again does not change it, and it must stay loadable the way
    a restart loads it (naming the platform recorded in elaunch.yaml)."""
    import experiment.model.data
    ok = True
    before = read_files(inst)
    w.count("clause_default_reload")
    e_np = experiment.model.data.Experiment.experimentFromInstance(inst)
    snap_np = snapshot(e_np)
    a, b = _strip_override(prev_snap), _strip_override(snap_np)
    lost, gained, tolerated = edge_diff(a, b, a)
    a.pop("edges"), b.pop("edges")
    if a != b or lost or gained:
        ok = False
        d = diff(a, b) + ["edges lost %s gained %s" % (lost[:5], gained[:5])]
        viol("default_reload", "reload without naming the platform differs: %s" % "; ".join(d)[:700], {"diff": d})
    after = read_files(inst)
    dropped = False
    for fn in before:
        cx, cy = canonical(fn, before[fn], w), canonical(fn, after[fn])
        if cx == cy:
            continue
        ok = False
        d = diff(cx, cy, limit=40)
        # classifier of the known mechanism: the ONLY changes are `platforms` losing the selected platform
        # and components losing `override` (which only held that platform)
        only_platform = bool(d) and fn == "flowir_instance.yaml"
        for line in d:
            if line.startswith("/platforms:"):
                if sorted(set(cx["platforms"]) - set(cy["platforms"])) != [platform] or set(cy["platforms"]) - set(cx["platforms"]):
                    only_platform = False
            elif line.startswith("/components/") and "/override" in line and "lost on reload" in line:
                comp = cx["components"][line.split("/")[2]]
                if set(comp.get("override", {})) != {platform}:
                    only_platform = False
            else:
                only_platform = False
        dropped = dropped or only_platform
        viol("default_reload_store", "reload without naming the platform (updateInstanceConfiguration default) changed %s: %s" % (
            fn, "; ".join(d)[:500]), {"file": fn, "diff": d, "platform": platform},
             "C07:default-platform-reload-drops-platform" if only_platform else None)
    # the restart path must still work and still be the same experiment
    w.count("clause_restart_after_default_reload")
    try:
        e_back = experiment.model.data.Experiment.experimentFromInstance(inst, platform=platform,
                                                                         updateInstanceConfiguration=False)
    except Exception as e:
        ok = False
        msg = str(e)
        known = dropped and ('Unknown platform "%s"' % platform) in msg
        viol("restart_after_default_reload", "instance no longer loads with its own platform %r: %s" % (platform, msg[-200:]),
             {"platform": platform, "error": msg[-600:]},
             "C07:default-platform-reload-drops-platform" if known else None)
        return ok
    snap_back = snapshot(e_back)
    lost, gained, tolerated = edge_diff(prev_snap, snap_back, prev_snap)
    a, b = dict(prev_snap), dict(snap_back)
    a.pop("edges"), b.pop("edges")
    if a != b or lost or gained:
        ok = False
        d = diff(a, b) + ["edges lost %s gained %s" % (lost[:5], gained[:5])]
        viol("restart_after_default_reload", "differs: %s" % "; ".join(d)[:700], {"diff": d})
    return ok


def _int_stage_keys(case):
    """A case that went through JSON (replay file) has its stage indices as strings; FlowIR wants integers."""
    def fix(section):
        for plat in (section or {}).values():
            if isinstance(plat, dict) and isinstance(plat.get("stages"), dict):
                plat["stages"] = {int(k) if isinstance(k, str) and k.isdigit() else k: v
                                  for k, v in plat["stages"].items()}
    fix(case["flowir"].get("variables"))
    fix(case["flowir"].get("blueprint"))
    fix({str(i): uv for i, uv in enumerate(case.get("uservars") or [])})
    return case


def run_job(job, w):
    w.max_samples = 1
    if "case" in job:
        _int_stage_keys(job["case"])
    cases = [job["case"]] if "case" in job else [
        G.draw_case(vlib.rng(PROP, "case", i), i, job["max_k"]) for i in job["indices"]]
    for case in cases:
        try:
            ok = run_case(case, w, job.get("only_clause"))
        except Exception:
            tb = traceback.format_exc()
            if job.get("only_clause") not in (None, "exception"):
                raise
            # a package of the generated family that cannot be built is a generator problem, not C07's
            if case_stage[0] == "create":
                w.count("generator_rejected_package")
                w.note_inconclusive("case %d: package rejected at creation: %s" % (case["idx"], tb[-400:]))
            else:
                w.count("viol_clause_exception")
                w.violation("exception on reload path of case %d: %s" % (case["idx"], tb[-500:]),
                            {"case": case, "clause": "exception", "detail": tb[-3000:]})
            ok = False
        import shutil
        os.chdir("/")
        for d in case_stage[1:]:
            shutil.rmtree(d, ignore_errors=True)      # keep scratch small
        w.evaluated()
        w.count("cases_run")
        if ok:
            w.count("cases_round_tripped")
        w.distinct(G.class_key(case))
        if case.get("emptied"):
            w.count("cases_with_explicit_empties")
        w.sample({"idx": case["idx"], "class": G.class_key(case), "platform": case["platform"], "k0": case["k0"],
                  "emptied": case.get("emptied"), "folders": case.get("folders"),
                  "cycles": case["cycles"], "uservars": case["uservars"], "flowir": case["flowir"],
                  "dowhile": case["dowhile"]})


if "--worker" in sys.argv:
    vlib.worker_main(run_job)


def main():
    tier = vlib.tier()
    n_cases, max_k = (64, 12) if tier == "quick" else (1224, 12)
    c = vlib.Check(PROP, "exploration",
                   rule="one case = one generated package (platforms, layered variables, user variable files, overrides, "
                        "replication, DoWhile document) + a store/load history (k0 loop iterations, 1-3 reload cycles with "
                        "or without instance-file update, further iterations on the reloaded experiment); distinct = "
                        "structural classes (#platforms, default/non-default selected, loop, k0 band, cycle pattern, "
                        "#user files, override/replicate/blueprint/platform-environment present, kinds of explicitly "
                        "empty options)",
                   assumptions=[
                       "the reload passes the platform name that created the instance (as elaunch --restart does from "
                       "elaunch.yaml); reloading with another / no platform is outside the property",
                       "compared after normalising instance-specific values: FLOW_RUN_ID dropped, absolute paths relative "
                       "to the instance root; stored YAML compared parsed, components keyed by (stage,name), "
                       "platforms/references as sets; byte equality is informational only",
                       "synchronisation edges <old condition instance> -> <reader of a placeholder> that only exist in an "
                       "incrementally unrolled graph are not dataflow and are tolerated (counted)",
                       "options patched with setOptionForNode are transient by documentation and not part of the workload",
                       "conf/manifest.yaml is compared as plain entries + set of top-level folders: a nested manifest target "
                       "(`shared/extra: <source>:link`) is provenance of a sub-folder, is never read back and is dropped when a "
                       "reload re-stores the manifest (reported as an observation, not judged); top-level folders of generated "
                       "packages never share a name with a component; symbolic links in package directories are absolute",
                       "every referenced variable has a package default; no variable references in numeric blueprint fields",
                       "explicitly empty options are generated for the list-valued component options only (shutdownOn, "
                       "restartHookOn, executors.pre/post, each over a non-empty FlowIR default / blueprint layer / own base "
                       "under override.<platform>); FlowIR merges dictionaries key by key, so an explicitly empty "
                       "dictionary never overrides anything and there is nothing to preserve for it",
                   ])
    rp = vlib.load_replay(sys.argv)
    if rp is not None:
        clause = rp["witness"].get("clause")
        vlib.fanout("checks.C07", [{"case": rp["witness"]["case"], "only_clause": clause}], c, timeout=900)
        c.extra["replayed"] = {"clause": clause, "case_idx": rp["witness"]["case"].get("idx")}
        c.distinct("replay-a"), c.distinct("replay-b")   # schema wants >= 2; a replay is a single case
        print("REPLAY %s clause=%s: %s" % (sys.argv[sys.argv.index("--replay") + 1], clause,
                                           "still violates" if (c.violations or c.known_seen) else "no longer violates"))
        sys.exit(c.finish())
    per = 2 if tier == "quick" else 10
    idxs = list(range(n_cases))
    jobs = [{"indices": idxs[i:i + per], "max_k": max_k} for i in range(0, len(idxs), per)]
    vlib.fanout("checks.C07", jobs, c, timeout=600 if tier == "quick" else 1500)
    c.floor("cases_run", 60 if tier == "quick" else 1000)
    # 2 cases in 9 exercise mechanisms that are known findings today (Workflow import, replica stage variable)
    c.floor("cases_round_tripped", 40 if tier == "quick" else 750)
    c.floor("clause_reload", 80 if tier == "quick" else 2000)
    c.floor("clause_reload_with_loop_instances", 30 if tier == "quick" else 700)
    c.floor("clause_reload_nondefault_platform", 15 if tier == "quick" else 300)
    c.floor("clause_reload_with_user_variables", 20 if tier == "quick" else 400)
    c.floor("clause_store_idempotent", 80 if tier == "quick" else 2000)
    c.floor("clause_default_reload", 8 if tier == "quick" else 150)
    # explicitly empty list options over a non-empty inherited value (round 3)
    c.floor("clause_reload_with_emptied_options", 25 if tier == "quick" else 500)
    c.floor("clause_reload_emptied_options", 200 if tier == "quick" else 5000)
    c.floor("clause_reload_emptied_kind_default", 5 if tier == "quick" else 100)
    c.floor("clause_reload_emptied_kind_blueprint", 10 if tier == "quick" else 200)
    # top-level folders linked / copied in by the package, direct references into them (round 5)
    c.floor("packages_with_linked_toplevel_folders", 8 if tier == "quick" else 150)
    c.floor("packages_with_toplevel_folders_file_form", 5 if tier == "quick" else 100)
    c.floor("clause_reload_with_direct_refs_into_linked_folders", 12 if tier == "quick" else 250)
    c.floor("clause_reload_direct_refs_into_linked_folders", 30 if tier == "quick" else 600)
    c.floor("clause_reload_direct_refs_into_copied_folders", 10 if tier == "quick" else 200)
    sys.exit(c.finish())


if __name__ == "__main__":
    main()
