"""C14 - experiment state files are updated atomically and read back faithfully.

Part A (fault enumeration).  For each writer of a state file
    status          Status.update                                  -> output/status.txt
    keyoutputs      OutputAgent.process_stage -> updateLogs        -> output/output.txt, output.json
    details         StatusMonitor.try_generate_status_details      -> output/status_details.json
    flowir_loop     add_component + store_unreplicated_flowir_to_disk (what WorkflowGraph does after
                    every loop iteration)                          -> conf/flowir_instance.yaml
    instance_files  configurationForExperiment(is_instance, createInstanceFiles, updateInstanceFiles)
                    (restart of an instance)                       -> conf/flowir_instance.yaml, manifest.yaml
a REAL object is put into the state "previous version on disk, new values pending".  A counting
pass (fsmon.faults) numbers the I/O boundaries of one update (open, each write, flush, close,
rename/replace/remove).  Then for every boundary: process death (fork + os._exit) before and after
the operation, with buffers as they are and with a flush after every write, and an I/O error
(ENOSPC) before the operation / after half of a write.  Oracle: afterwards every target file is
byte-identical to the complete previous version (or still absent if there was none) or to the
complete new version, and its loader loads it.

Part B (fidelity).  Histories of 1-50 updates of a real Status with hostile error descriptions
(newlines, '=', '%', backslashes, blanks at the edges, non-ASCII, long), with reloads in between;
after every reload and at the end Status.statusFromFile must return exactly the values last set.
Key-output listings with hostile file / key names and status details with hostile strings are
written once per stage and read back with json.load.
"""
from __future__ import annotations

import hashlib
import json
import os
import shutil
import sys
import time

import warnings

warnings.filterwarnings("ignore", category=SyntaxWarning)   # the repository's own modules trigger them on import

import vlib  # noqa: E402

vlib.bootstrap()

from checks import _c14_scen as S  # noqa: E402

PROP = "C14"
K_FLOWIR = "C14:flowir-instance-written-in-place"
K_MANIFEST = "C14:manifest-written-in-place"
K_DETAILS = "C14:status-details-renamed-after-failed-write"
K_REESC = "C14:status-error-description-reescaped-on-every-update"
K_STRIP = "C14:status-value-stripped-on-load"
K_PERCENT = "C14:keyoutput-percent-breaks-readback"


# ======================================================================================= part A

def _read(path):
    try:
        with open(path, "rb") as f:
            return f.read()
    except FileNotFoundError:
        return None


def _shape(obs, prev, new):
    if obs is None:
        return "absent"
    if obs == b"":
        return "empty"
    if new is not None and len(obs) < len(new) and new.startswith(obs):
        return "proper-prefix-of-new"
    if prev is not None and len(obs) < len(prev) and prev.startswith(obs):
        return "proper-prefix-of-previous"
    return "other"


def classify_crash(target, plan, boundaries, shape, outcome):
    """Mechanism classifier for the known findings of part A (structural, over the witness)."""
    if plan.get("mode") not in ("die", "raise") or plan.get("at") is None or plan["at"] >= len(boundaries):
        return None
    at = boundaries[plan["at"]]
    truncated = shape in ("empty", "proper-prefix-of-new")
    in_place = any(b["op"] == "open" and b["file"] == target and "w" in b.get("mode", "") for b in boundaries)
    no_rename_onto = not any(b["op"] in ("rename", "replace") and b["file"].endswith("->" + target) for b in boundaries)
    if target in ("flowir_instance.yaml", "manifest.yaml") and in_place and no_rename_onto and truncated \
            and at["file"] == target:
        return K_FLOWIR if target == "flowir_instance.yaml" else K_MANIFEST
    if target == "status_details.json" and plan["mode"] == "raise" and at["file"] == "temp" \
            and at["op"] in ("write", "flush", "close") and truncated and outcome:
        later = [b for b in outcome.get("boundaries", []) if b["i"] > plan["at"]]
        if any(b["op"] == "rename" and b["file"] == "temp->status_details.json" for b in later):
            return K_DETAILS
    return None


class CrashCase:
    """One scenario of one writer, prepared for running fault plans."""

    def __init__(self, writer, scen):
        from fsmon import crash, tree
        self.crash, self.tree = crash, tree
        self.sc = S.build(writer, scen)
        self.work = vlib.mkscratch("c14case")
        self.result = os.path.join(self.work, "result.json")
        self._loaded = {}
        self.pristine = []
        for k, wdir in enumerate(self.sc.watch):
            p = os.path.join(self.work, "pristine%d" % k)
            shutil.copytree(wdir, p, symlinks=True)
            self.pristine.append(p)
        self.prev = {n: _read(p) for n, p in self.sc.targets.items()}
        r = self.run({"mode": "count"})
        if r["status"] != 0 or not r["outcome"]:
            raise RuntimeError("counting pass failed: %r" % (r,))
        self.count_outcome = r["outcome"]
        self.boundaries = r["outcome"]["boundaries"]
        self.new = {n: _read(p) for n, p in self.sc.targets.items()}
        self.restore()

    def restore(self):
        for p, wdir in zip(self.pristine, self.sc.watch):
            self.tree.restore_dir(p, wdir)

    def run(self, plan):
        return self.crash.run_forked(self.sc.update, plan, self.sc.watch, list(self.sc.targets), self.result)

    def judge(self, plan, res, w):
        """Apply the oracle to what is on disk now; returns list of (what, witness, key)."""
        out = []
        for name, path in self.sc.targets.items():
            obs = _read(path)
            prev, new = self.prev[name], self.new[name]
            w.count("files_judged")
            ok = (obs == prev) or (obs == new)
            which = "previous" if obs == prev else ("new" if obs == new else None)
            loader_err = None
            if ok and obs is not None:
                # whether a file loads is a function of its bytes: load each distinct content once
                ck = (name, hashlib.sha1(obs).hexdigest())
                if ck not in self._loaded:
                    try:
                        self.sc.loaders[name](path)
                        self._loaded[ck] = None
                        w.count("loader_runs")
                    except BaseException as e:
                        self._loaded[ck] = "%s: %s" % (type(e).__name__, str(e)[:200])
                loader_err = self._loaded[ck]
                if loader_err is None:
                    w.count("loader_ok")
            if ok:
                w.count("left_%s_version" % ("absent" if obs is None else which))
            if ok and not loader_err:
                continue
            shape = _shape(obs, prev, new)
            at = self.boundaries[plan["at"]] if plan.get("at") is not None and plan["at"] < len(self.boundaries) else None
            wit = {"kind": "crash", "writer": self.sc.writer, "scen": self.sc.scen, "plan": plan, "boundary": at,
                   "n_boundaries": len(self.boundaries), "target": name, "shape": shape,
                   "observed_len": None if obs is None else len(obs),
                   "observed_head": None if obs is None else obs[:120].decode("utf-8", "backslashreplace"),
                   "previous_len": None if prev is None else len(prev), "new_len": None if new is None else len(new),
                   "loader_error": loader_err, "child_status": res["status"],
                   "child_raised": (res["outcome"] or {}).get("raised"), "scenario": self.sc.describe}
            if loader_err:
                what = "%s: complete %s version of %s cannot be loaded (%s)" % (self.sc.writer, which, name, loader_err)
                key = None
            else:
                what = "%s: after %s %s boundary %s (%s %s, flush_each=%s) %s is neither the previous nor the new " \
                       "version (%s, %s bytes; previous %s, new %s)" % (
                           self.sc.writer, "death" if plan["mode"] == "die" else "ENOSPC", plan.get("side"),
                           plan.get("at"), at and at["op"], at and at["file"], plan.get("flush_each"), name, shape,
                           wit["observed_len"], wit["previous_len"], wit["new_len"])
                key = classify_crash(name, plan, self.boundaries, shape, res["outcome"])
            out.append((what, wit, key))
        return out

    def run_plan(self, plan, w):
        self.restore()
        res = self.run(plan)
        w.evaluated()
        w.count("fault_cases")
        w.count("%s_cases" % plan["mode"])
        if plan["mode"] == "die":
            if res["status"] == S_DEATH:
                w.count("deaths_delivered")
            elif res["status"] == 0:
                w.count("death_boundary_not_reached")
            else:
                w.note_inconclusive("child ended with %r under plan %r (%s/%s)" % (
                    res["status"], plan, self.sc.writer, self.sc.scen))
                return []
        else:
            if res["status"] != 0:
                w.note_inconclusive("child ended with %r under plan %r (%s/%s)" % (
                    res["status"], plan, self.sc.writer, self.sc.scen))
                return []
            if res["outcome"] and res["outcome"].get("fired"):
                w.count("errors_delivered")
                w.count("update_%s_after_error" % ("raised" if res["outcome"].get("raised") else "returned"))
        return self.judge(plan, res, w)

    def close(self):
        self.sc.cleanup()
        shutil.rmtree(self.work, ignore_errors=True)


S_DEATH = 137


def emit(w, what, wit, key):
    """Report a violation; repeats of one classified mechanism are counted, not stored, so that the
    200-record cap of a worker can never push out an unclassified violation."""
    if key is not None:
        w.count("classified|" + key)
        if w.counters["classified|" + key] > 3:
            return
    w.violation(what, wit, key)


def job_crash(job, w):
    case = CrashCase(job["writer"], job["scen"])
    try:
        # the fault-free update itself must leave the new version, loadable
        if job["part"] == 0:
            res0 = case.run({"mode": "count"})
            for what, wit, key in case.judge({"mode": "count"}, res0, w):
                emit(w, "fault-free update: " + what, wit, key)
        if any(case.new[n] is None for n in case.new):
            w.violation("%s: fault-free update did not produce %s" % (job["writer"], [n for n in case.new if case.new[n] is None]),
                        {"kind": "crash", "writer": job["writer"], "scen": job["scen"], "plan": {"mode": "count"}}, None)
        plans, exhaustive = case.crash.plans(case.boundaries, cap=job["cap"], part=job["part"], nparts=job["nparts"])
        if job["part"] == 0:
            w.count("scenarios")
            w.count("scenarios_%s" % job["writer"])
            w.count("boundaries_total", len(case.boundaries))
            if exhaustive:
                w.count("scenarios_enumerated_exhaustively")
            ops = sorted({b["op"] for b in case.boundaries})
            w.distinct("crash|%s|%s|%s" % (job["writer"], ",".join(ops), _bucket(len(case.boundaries))))
            w.sample({"writer": job["writer"], "scenario": case.sc.describe, "boundaries": len(case.boundaries),
                      "ops": {o: sum(1 for b in case.boundaries if b["op"] == o) for o in ops},
                      "plans": len(plans) * job["nparts"], "exhaustive": exhaustive})
        for plan in plans:
            for what, wit, key in case.run_plan(plan, w):
                emit(w, what, wit, key)
            at = case.boundaries[plan["at"]]
            w.distinct("plan|%s|%s|%s|%s|%s|%s" % (job["writer"], at["op"], at["file"], plan["mode"], plan["side"],
                                                 plan["flush_each"]))
    finally:
        case.close()


def _bucket(n):
    for b in (20, 50, 100, 200, 400, 800, 1600, 3200, 6400):
        if n <= b:
            return "<=%d" % b
    return ">6400"


# ============================================================================ part A2: two writers

def run_concurrent(writer, scen, w, only=None):
    """Two writer objects for the same file, payloads of different length: writer A is stopped right
    before each of its I/O boundaries, writer B performs a complete update, A resumes.  After every
    step each target must be one complete serialisation (previous, A's or B's) and load."""
    from fsmon import crash, tree
    sc = S.build_pair(writer, scen)
    work = vlib.mkscratch("c14pair")
    res = []
    try:
        result = os.path.join(work, "result.json")
        pristine = []
        for k, wdir in enumerate(sc.watch):
            p = os.path.join(work, "pristine%d" % k)
            shutil.copytree(wdir, p, symlinks=True)
            pristine.append(p)

        def restore():
            for p, wdir in zip(pristine, sc.watch):
                tree.restore_dir(p, wdir)

        prev = {n: _read(p) for n, p in sc.targets.items()}
        solo = {}
        n_a = None
        for who, fn in (("A", sc.update_a), ("B", sc.update_b)):
            r = crash.run_forked(fn, {"mode": "count"}, sc.watch, list(sc.targets), result)
            if r["status"] != 0 or not r["outcome"] or r["outcome"].get("raised"):
                raise RuntimeError("solo update of writer %s failed: %r" % (who, r))
            if who == "A":
                n_a = len(r["outcome"]["boundaries"])
            solo[who] = {n: _read(p) for n, p in sc.targets.items()}
            restore()
        allowed = {n: {"previous": prev[n], "A": solo["A"][n], "B": solo["B"][n]} for n in sc.targets}
        if all(solo["A"][n] == solo["B"][n] for n in sc.targets):
            raise RuntimeError("the two writers produce identical files: the slice would decide nothing")
        w.count("pair_scenarios")
        w.count("pair_scenarios_%s" % writer)
        cases = [(at, fl) for at in range(n_a + 1) for fl in (False, True)] if only is None else [only]
        for at, fl in cases:
            restore()
            r = crash.run_interleaved(sc.update_a, sc.update_b, at, sc.watch, sc.targets, result, flush_each=fl,
                                      blocked=sc.blocked)
            o = r["outcome"]
            w.evaluated()
            w.count("interleavings")
            if r["status"] != 0 or not o or o.get("stuck") or o.get("b_stuck"):
                w.note_inconclusive("interleaving %s/%d at %d ended with %r %s" % (
                    writer, scen, at, r["status"], {k: o.get(k) for k in ("stuck", "b_stuck")} if o else None))
                continue
            if o["serialised"]:
                w.count("interleavings_prevented_by_lock")
            elif o["a_reached_boundary"]:
                w.count("interleavings_b_ran_inside_a")
            else:
                w.count("interleavings_sequential")
            w.distinct("pair|%s|%s|%s" % (writer, "lock" if o["serialised"] else "overlap", fl))
            bad = None
            for snap in o["snapshots"]:
                for n, hx in snap["files"].items():
                    obs = None if hx is None else bytes.fromhex(hx)
                    w.count("pair_states_judged")
                    which = [k for k, v in allowed[n].items() if v == obs]
                    if not which:
                        bad = (snap["label"], n, obs)
                        break
                    w.count("pair_state_is_%s" % which[0])
                if bad:
                    break
            loader_err = None
            if not bad:
                for n, p in sc.targets.items():
                    try:
                        sc.loaders[n](p)
                        w.count("pair_loader_ok")
                    except BaseException as e:
                        loader_err = "%s: %s: %s" % (n, type(e).__name__, str(e)[:200])
            if bad or loader_err:
                label, n, obs = bad if bad else ("end", None, None)
                wit = {"kind": "concurrent", "writer": writer, "scen": scen, "at": at, "flush_each": fl,
                       "step": label, "target": n, "observed_len": None if obs is None else len(obs),
                       "observed_head": None if obs is None else obs[:160].decode("utf-8", "backslashreplace"),
                       "lengths": {k: {x: (None if v is None else len(v)) for x, v in a.items()} for k, a in allowed.items()},
                       "loader_error": loader_err, "results": o.get("results"), "scenario": sc.describe,
                       "boundary": next((b for b in o["boundaries"] if b.get("thread") == "A" and b.get("ti") == at), None)}
                if bad:
                    what = ("%s: two overlapping updates (A stopped before its boundary %d, B complete, A resumed; "
                            "flush_each=%s): at step '%s' %s (%s bytes) is none of the complete versions %s" % (
                                writer, at, fl, label, n, wit["observed_len"], wit["lengths"][n]))
                else:
                    what = "%s: after two overlapping updates the file cannot be loaded (%s)" % (writer, loader_err)
                res.append((what, wit, None))
        return res
    finally:
        sc.cleanup()
        shutil.rmtree(work, ignore_errors=True)


def job_concurrent(job, w):
    for what, wit, key in run_concurrent(job["writer"], job["scen"], w):
        emit(w, what, wit, key)


# ======================================================================================= part B

def esc(s):
    return s.encode("unicode_escape").decode("utf-8")


def unesc(s):
    return s.encode("utf-8").decode("unicode_escape")


PLAIN = "abcdefghijklmnopqrstuvwxyzABCDEFGHIJKLMNOPQRSTUVWXYZ0123456789 .,:;=%#[](){}<>!?@&*+-_/'\"|~^$"


def _states():
    import experiment.model.codes
    return sorted(s.lower() for s in experiment.model.codes.states)


def gen_history(idx):
    r = vlib.rng(PROP, "fidelity", "status", idx)
    flavour = ["hostile", "hostile", "fresh", "plain"][idx % 4]
    n_updates = r.choice([1, 1, 2, 3, 3, 5, 8, 13, 21, 34, 50]) if idx % 7 else r.randint(1, 50)
    stages = ["stage%d" % i for i in range(r.randint(1, 5))]
    if r.random() < 0.2:
        stages.append("it's \"odd\", stage")
    ops = []
    STATES = _states()
    import datetime

    def new_desc():
        if flavour == "plain":
            return "".join(r.choice(PLAIN) for _ in range(r.randint(1, 60))).strip() or "p"
        if flavour == "fresh":
            return S.hostile_text(r, edge_blank=False)
        return S.hostile_text(r, edge_blank=(True if r.random() < 0.2 else (False if r.random() < 0.6 else None)))

    have_desc = False
    for u in range(n_updates):
        for _ in range(r.randint(0, 3)):
            c = r.random()
            if c < 0.2:
                ops.append(["stage", r.choice(stages)])
            elif c < 0.4:
                ops.append(["stage-progress", r.choice([0.0, 0.5, 1.0, r.random()])])
            elif c < 0.5:
                ops.append(["total-progress", r.random()])
            elif c < 0.6:
                ops.append(["experiment-state", r.choice(STATES)])
            elif c < 0.7:
                ops.append(["stage-state", r.choice(STATES)])
            elif c < 0.8:
                ops.append(["exit-status", r.choice(["Success", "Failed", "Stopped", "N/A"])])
            elif c < 0.9:
                ops.append(["cost", r.choice([0, r.randint(1, 10 ** 6), r.random() * 100])])
            else:
                ops.append(["completed-on", datetime.datetime(2026, r.randint(1, 12), r.randint(1, 28), r.randint(0, 23),
                                                              r.randint(0, 59), r.randint(0, 59), r.randint(1, 999999)).isoformat()])
        if flavour == "fresh":
            ops.append(["desc", new_desc()])
            have_desc = True
        else:
            c = r.random()
            if not have_desc and (u == 0 or c < 0.3):
                ops.append(["desc", new_desc()])
                have_desc = True
            elif have_desc and c < 0.12:
                ops.append(["desc", new_desc()])
            elif have_desc and c < 0.17:
                ops.append(["clear"])
                have_desc = False
        ops.append(["update"])
        if r.random() < 0.15:
            ops.append(["reload"])
    return {"kind": "fidelity_status", "idx": idx, "flavour": flavour, "stages": stages, "ops": ops}


class _DescModel:
    """error-description under (reescape, strip) defect flags; (False, False) is the property."""

    def __init__(self, reescape, strip):
        self.re, self.st = reescape, strip
        self.mem = None
        self.file = None

    def op(self, o):
        if o[0] == "desc":
            self.mem = o[1]
        elif o[0] == "clear":
            self.mem = None
        elif o[0] == "update":
            self.file = None if self.mem is None else esc(self.mem)
            if self.re and self.mem is not None:
                self.mem = esc(self.mem)
        elif o[0] == "reload":
            self.mem = self.read()

    def read(self):
        if self.file is None:
            return None
        v = unesc(self.file)
        return v.strip() if self.st else v


def run_history(h, w=None):
    """Execute one history against the real Status; returns list of (what, witness, key)."""
    import datetime
    import experiment.model.data as D
    d = vlib.mkscratch("c14fid")
    out = []
    try:
        path = os.path.join(d, "status.txt")
        st = D.Status(path, {}, list(h["stages"]))
        expected = {}
        models = {k: _DescModel(*k) for k in ((False, False), (True, False), (False, True), (True, True))}
        n_upd = 0
        since_set = 0
        setters = {"stage": ("current-stage", st.setCurrentStage), "stage-progress": ("stage-progress", st.setStageProgress),
                   "total-progress": ("total-progress", st.setTotalProgress),
                   "experiment-state": ("experiment-state", st.setExperimentState),
                   "stage-state": ("stage-state", st.setStageState), "exit-status": ("exit-status", st.setExitStatus),
                   "cost": ("cost", st.setCost), "completed-on": ("completed-on", None)}

        def check(at_op, st_loaded):
            got = st_loaded.data
            bad = []
            for f, v in expected.items():
                if "%s" % got.get(f) != "%s" % v:
                    bad.append((f, "%s" % v, "%s" % got.get(f)))
            if list(st_loaded.stages()) != list(h["stages"]):
                bad.append(("stages", repr(h["stages"]), repr(st_loaded.stages())))
            want = models[(False, False)].read()
            have = got.get("error-description")
            if w is not None:
                w.count("readbacks_judged")
                if want is not None:
                    w.count("readbacks_with_description")
            res = []
            if bad:
                res.append(("status.txt read back differs from the values last written in fields %s after %d updates" % (
                    [b[0] for b in bad], n_upd), {"fields": bad}, None))
            if have != want:
                key = None
                if have == models[(False, True)].read():
                    key = K_STRIP
                elif have == models[(True, False)].read() or have == models[(True, True)].read():
                    key = K_REESC
                res.append(("error-description read back differs from the value last written after %d updates "
                            "(%d since it was set): wrote %r, read %r" % (n_upd, since_set, _short(want), _short(have)),
                            {"wrote": want, "read": have, "updates_since_set": since_set}, key))
            return [(a, dict(b, kind="fidelity_status", idx=h["idx"], flavour=h["flavour"], at_op=at_op, history=h), c)
                    for a, b, c in res]

        for i, o in enumerate(h["ops"]):
            for m in models.values():
                m.op(o)
            if o[0] == "desc":
                st.setErrorDescription(o[1])
                since_set = 0
            elif o[0] == "clear":
                st.removeErrorDescription()
            elif o[0] == "update":
                if st.update() is not True:
                    raise RuntimeError("Status.update() reported failure without any injected fault")
                n_upd += 1
                since_set += 1
            elif o[0] == "reload":
                st = D.Status.statusFromFile(path)
                setters.update({"stage": ("current-stage", st.setCurrentStage),
                                "stage-progress": ("stage-progress", st.setStageProgress),
                                "total-progress": ("total-progress", st.setTotalProgress),
                                "experiment-state": ("experiment-state", st.setExperimentState),
                                "stage-state": ("stage-state", st.setStageState),
                                "exit-status": ("exit-status", st.setExitStatus), "cost": ("cost", st.setCost)})
                out.extend(check(i, st))
                if out:
                    return out
            elif o[0] == "completed-on":
                st.setCompleted(o[1])
                expected["completed-on"] = o[1]
            else:
                field, fn = setters[o[0]]
                fn(o[1])
                expected[field] = o[1]
        out.extend(check(len(h["ops"]), D.Status.statusFromFile(path)))
        return out
    finally:
        shutil.rmtree(d, ignore_errors=True)


def _short(s):
    if s is None:
        return None
    return s if len(s) <= 80 else s[:60] + "...(%d chars)" % len(s)


def job_fidelity_status(job, w):
    for idx in range(job["lo"], job["hi"]):
        h = gen_history(idx)
        res = run_history(h, w)
        w.evaluated()
        w.count("status_histories")
        w.count("status_histories_%s" % h["flavour"])
        nup = sum(1 for o in h["ops"] if o[0] == "update")
        w.count("status_updates", nup)
        w.distinct("hist|%s|u%s|reload=%s|desc=%s" % (h["flavour"], _bucket(nup), any(o[0] == "reload" for o in h["ops"]),
                                                      sum(1 for o in h["ops"] if o[0] == "desc") > 1))
        if idx % 97 == 0:
            w.sample({"history": {k: (v if k != "ops" else v[:12]) for k, v in h.items()}, "violations": len(res)})
        for what, wit, key in res:
            w.violation(what, wit, key)
            if h["flavour"] in ("fresh", "plain") and key is not None:
                # the slices built so that the known mechanisms cannot trigger must be clean
                w.violation("slice '%s' excludes the known mechanisms but failed: %s" % (h["flavour"], what), wit, None)


# -- key outputs

NAME_ATOMS = list("abcXYZ019") + ["%", "-", "_", ".", "#", ";", "=", "é", "中", "%s", "%(a)s", "+", "@", "~", "(", ")", ",",
                                   "[", "]", "!"]


def gen_keyoutputs(idx):
    r = vlib.rng(PROP, "fidelity", "keyoutputs", idx)
    clean = (idx % 3 == 0)   # slice in which the known '%' mechanism cannot trigger
    n = r.randint(1, 4)
    names, files = [], []
    for k in range(n):
        def word(lo, hi):
            atoms = [a for a in NAME_ATOMS if not (clean and "%" in a)]
            return "".join(r.choice(atoms) for _ in range(r.randint(lo, hi)))
        names.append("K%d%s" % (k, word(0, 4)))
        files.append("f%d%s.dat" % (k, word(0, 5)))
    descs = [None] * n
    if idx % 2:
        descs = [" ".join(S.hostile_text(r, 1, 4, edge_blank=False).split()) or "d" for _ in range(n)]
        if clean:
            descs = [d.replace("%", "pct") for d in descs]
    return {"kind": "fidelity_keyoutputs", "idx": idx, "clean": clean, "names": names, "files": files,
            "descriptions": descs}


def run_keyoutputs(c, w=None):
    import configparser
    out = []
    try:
        exp, agent, loc, shadow_out = S.make_output_agent(c["names"], c["files"])
    except BaseException as e:
        if w is not None:
            w.count("keyoutput_docs_rejected_by_loader")
        return None
    try:
        if set(agent.dataReferences) != set(c["names"]):
            if w is not None:
                w.count("keyoutput_docs_rejected_by_loader")
            return None
        for n, d in zip(c["names"], c["descriptions"]):
            if d is not None:
                agent.dataReferences[n]["status"]["description"] = d
        jpath = os.path.join(shadow_out, "output.json")
        for stage in (0, 1):
            raised = None
            try:
                agent.process_stage(stage)
            except BaseException as e:
                raised = e
            written = {n: dict(agent.dataReferences[n]["status"]) for n in c["names"]
                       if agent.dataReferences[n]["status"]["version"] > 0}
            try:
                with open(jpath) as f:
                    got = json.load(f)
            except BaseException as e:
                got = {"<unreadable>": repr(e)}
            bad = []
            for n, stt in written.items():
                g = got.get(n)
                want = {"filepath": "%s" % stt["lastLocation"], "filename": os.path.split(stt["lastLocation"])[1],
                        "version": "%d" % stt["version"], "final": stt["final"], "description": "%s" % stt["description"]}
                if not isinstance(g, dict):
                    bad.append((n, want, g))
                    continue
                diffs = {k: (v, g.get(k)) for k, v in want.items() if g.get(k) != v}
                if diffs:
                    bad.append((n, diffs, None))
            if w is not None:
                w.count("keyoutput_readbacks_judged")
            if bad or raised is not None:
                pct = any("%" in ("%s" % v) for n, stt in written.items() for v in
                          (n, stt["lastLocation"], stt["description"]))
                key = None
                if pct and isinstance(raised, configparser.InterpolationError):
                    key = K_PERCENT
                elif pct and raised is None and bad and all(
                        isinstance(d, dict) and all(isinstance(v, str) and "%%" in v and g == v.replace("%%", "%")
                                                    for v, g in d.values()) for _, d, _x in bad):
                    key = K_PERCENT   # no exception, but '%%' came back as '%': the same interpolation
                out.append(("key-output listing read back from output.json differs from what process_stage(%d) wrote "
                            "(%s)%s" % (stage, [b[0] for b in bad][:4],
                                        "; process_stage raised %s: %s" % (type(raised).__name__, str(raised)[:120]) if raised else ""),
                            {"kind": "fidelity_keyoutputs", "idx": c["idx"], "case": c, "stage": stage,
                             "mismatches": vlib.jsonable(bad)[:4],
                             "raised": None if raised is None else type(raised).__name__}, key))
                break
        return out
    finally:
        shutil.rmtree(loc, ignore_errors=True)
        sr = S._shadow_root(shadow_out)
        if sr:
            shutil.rmtree(sr, ignore_errors=True)


def job_fidelity_keyoutputs(job, w):
    for idx in range(job["lo"], job["hi"]):
        c = gen_keyoutputs(idx)
        res = run_keyoutputs(c, w)
        if res is None:
            continue
        w.evaluated()
        w.count("keyoutput_cases")
        w.count("keyoutput_cases_clean_slice" if c["clean"] else "keyoutput_cases_hostile")
        w.distinct("ko|n%d|pct=%s|desc=%s" % (len(c["names"]), any("%" in x for x in c["names"] + c["files"]),
                                              c["descriptions"][0] is not None))
        if idx % 41 == 0:
            w.sample({"keyoutputs": c, "violations": len(res)})
        for what, wit, key in res:
            w.violation(what, wit, key)
            if c["clean"] and key is not None:
                w.violation("clean slice failed with a known mechanism: " + what, wit, None)


# -- status details

def gen_details(idx):
    r = vlib.rng(PROP, "fidelity", "details", idx)
    return {"kind": "fidelity_details", "idx": idx, "versions": [S._details(r, r.randint(1, 3), r.randint(1, 4), hostile=True)
                                                                  for _ in range(r.randint(1, 4))]}


def job_fidelity_details(job, w):
    exp, sm, loc, shadow_out = S.make_status_monitor()
    try:
        db = S.StubStatusDB(None)
        sm.set_status_database(db)
        target = os.path.join(shadow_out, "status_details.json")
        for idx in range(job["lo"], job["hi"]):
            c = gen_details(idx)
            for k, v in enumerate(c["versions"]):
                db.details = v
                sm.try_generate_status_details()
                w.count("details_readbacks_judged")
                try:
                    with open(target) as f:
                        got = json.load(f)
                except BaseException as e:
                    got = {"<unreadable>": repr(e)}
                if got != json.loads(json.dumps(v)):
                    w.violation("status_details.json read back differs from version %d last written" % k,
                                {"kind": "fidelity_details", "idx": idx, "version": k, "case": c}, None)
                    break
            w.evaluated()
            w.count("details_cases")
            w.distinct("details|v%d" % len(c["versions"]))
    finally:
        shutil.rmtree(loc, ignore_errors=True)
        sr = S._shadow_root(shadow_out)
        if sr:
            shutil.rmtree(sr, ignore_errors=True)


# ======================================================================================= driver

def run_job(job, w):
    {"crash": job_crash, "concurrent": job_concurrent, "fidelity_status": job_fidelity_status, "fidelity_keyoutputs": job_fidelity_keyoutputs,
     "fidelity_details": job_fidelity_details}[job["kind"]](job, w)


if "--worker" in sys.argv:
    vlib.worker_main(run_job)


def replay(c, rp):
    wit = rp["witness"]
    w = vlib.Worker()
    res = []
    if wit.get("kind") == "crash":
        case = CrashCase(wit["writer"], wit["scen"])
        try:
            res = case.run_plan(wit["plan"], w) if wit["plan"].get("mode") != "count" else \
                case.judge(wit["plan"], case.run(wit["plan"]), w)
        finally:
            case.close()
    elif wit.get("kind") == "concurrent":
        res = run_concurrent(wit["writer"], wit["scen"], w, only=(wit["at"], wit["flush_each"]))
    elif wit.get("kind") == "fidelity_status":
        res = run_history(wit["history"], w)
    elif wit.get("kind") == "fidelity_keyoutputs":
        res = run_keyoutputs(wit["case"], w) or []
    elif wit.get("kind") == "fidelity_details":
        job_fidelity_details({"lo": wit["idx"], "hi": wit["idx"] + 1}, w)
        res = [(v["what"], v["witness"], v["finding_key"]) for v in w.violations]
        w.violations = []
    c.merge_worker(w.summary())
    c.evaluated(1)
    for what, witness, key in res:
        c.violation(what, witness, key)
    print("replay of %s: %s" % (wit.get("kind"), "still violates" if res else "no longer violates"))
    c.floors.clear()
    sys.exit(c.finish())


def main():
    c = vlib.Check(PROP, "fault_enumeration",
                   rule="distinct (writer, operation kind, file role, fault mode, side, flush flavour) fault classes + "
                        "distinct (writer, boundary-count bucket) scenarios + distinct history / listing shapes "
                        "(flavour, update-count bucket, reloads, re-set descriptions)",
                   assumptions=[
                       "process death is modelled by os._exit(137) in a forked child at a Python-level I/O boundary "
                       "(open/write/flush/close/rename/replace/remove) with user-space buffers either untouched or "
                       "flushed after every write; torn sector writes and loss of data already handed to the kernel "
                       "(power failure without fsync) are not modelled",
                       "the clock of experiment.model.data is frozen inside the forked update so that the bytes of the "
                       "new version are reproducible; uuid temp names stay random",
                       "only error-description carries hostile text in status.txt; the other status fields take the "
                       "values the runtime itself sets (states, exit statuses, numbers, timestamps) and are compared "
                       "as '%s' % value",
                       "key-output descriptions are injected through OutputAgent.dataReferences[...]['status'] "
                       "(single line, no blanks at the edges) because parse_key_outputs never copies the FlowIR "
                       "description; file and key names come through FlowIR and documents the loader rejects are skipped",
                       "lone surrogates are not generated (not encodable text)",
                   ])
    rp = vlib.load_replay(sys.argv)
    if rp:
        replay(c, rp)
    thorough = c.tier == "thorough"
    n_scen = 30 if thorough else 2
    cap = 300 if thorough else 80
    jobs = []
    for writer in S.WRITERS:
        for scen in range(n_scen):
            heavy = writer in ("flowir_loop", "instance_files", "details") or scen % 5 == 1
            nparts = (4 if heavy else 1) if not thorough else (3 if heavy else 1)
            for part in range(nparts):
                jobs.append({"kind": "crash", "writer": writer, "scen": scen, "cap": cap, "part": part, "nparts": nparts})
    n_pair = {"status": 16 if thorough else 4, "keyoutputs": 6 if thorough else 2}
    for writer, k in n_pair.items():
        for scen in range(k):
            jobs.append({"kind": "concurrent", "writer": writer, "scen": scen, "nparts": 1})
    n_hist = 5000 if thorough else 240
    for lo in range(0, n_hist, 60 if not thorough else 250):
        jobs.append({"kind": "fidelity_status", "lo": lo, "hi": min(n_hist, lo + (60 if not thorough else 250))})
    n_ko = 600 if thorough else 48
    for lo in range(0, n_ko, 12 if not thorough else 40):
        jobs.append({"kind": "fidelity_keyoutputs", "lo": lo, "hi": min(n_ko, lo + (12 if not thorough else 40))})
    n_det = 1000 if thorough else 60
    for lo in range(0, n_det, 30 if not thorough else 250):
        jobs.append({"kind": "fidelity_details", "lo": lo, "hi": min(n_det, lo + (30 if not thorough else 250))})
    # heavy jobs first
    jobs.sort(key=lambda j: 0 if j["kind"] == "crash" and j["nparts"] > 1 else 1)
    vlib.fanout("checks.C14", jobs, c, timeout=900 if thorough else 240)
    c.exhaustive = c.counters.get("scenarios_enumerated_exhaustively", 0) == c.counters.get("scenarios", -1)
    c.extra["exhaustive_note"] = ("every boundary of a scenario is enumerated when it has at most %d boundaries; larger "
                                  "updates keep all open/flush/close/rename boundaries, writes at buffer-size crossings, "
                                  "the first/last writes and an even sample of the rest" % cap)
    for writer in S.WRITERS:
        c.floor("scenarios_%s" % writer, n_scen)
    c.floor("deaths_delivered", 1500 if not thorough else 40000)
    c.floor("errors_delivered", 700 if not thorough else 15000)
    c.floor("loader_ok", 1300 if not thorough else 30000)
    c.floor("pair_scenarios_status", n_pair["status"])
    c.floor("pair_scenarios_keyoutputs", n_pair["keyoutputs"])
    c.floor("interleavings_b_ran_inside_a", 100 if not thorough else 400)
    c.floor("status_histories", n_hist)
    c.floor("status_histories_fresh", n_hist // 5)
    c.floor("readbacks_with_description", n_hist // 2)
    c.floor("keyoutput_readbacks_judged", n_ko // 2)
    c.floor("keyoutput_cases_clean_slice", n_ko // 6)
    c.floor("details_readbacks_judged", n_det)
    sys.exit(c.finish())


if __name__ == "__main__":
    main()
