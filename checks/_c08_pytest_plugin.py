"""pytest plugin (-p checks._c08_pytest_plugin): C08's post-condition on every call of
FlowIRConcrete.get_component_configuration made while the repository's own tests run.

For each outermost call   live.get_component_configuration(comp_id, **kw)
  1. a throw-away call with the same arguments is made first and its result wrecked in place
     (if configurations were not private copies the real call below would see the damage);
  2. expected = FlowIRConcrete(live.raw(), platform, live._documents).get_component_configuration(...)
     i.e. recomputed from scratch from the current description with a cold cache;
  3. the real call is made; its outcome (value or exception class) must equal `expected`.
One JSON line per evaluation is appended to $VERIF_C08_JSONL.  The wrapped method always returns
/ raises exactly what the original does, so the tests themselves are not disturbed.
"""
from __future__ import annotations

import copy
import json
import os
import threading

_OUT = os.environ.get("VERIF_C08_JSONL")
_tls = threading.local()
_current = {"nodeid": None}
_lock = threading.Lock()


def _emit(rec):
    if not _OUT:
        return
    with _lock:
        with open(_OUT, "a") as f:
            f.write(json.dumps(rec, default=repr) + "\n")


def _wreck(cfg):
    if isinstance(cfg, dict):
        for k in list(cfg):
            v = cfg[k]
            if isinstance(v, (dict, list)):
                _wreck(v)
            else:
                cfg[k] = "WRECKED"
        cfg["__wrecked__"] = True
    elif isinstance(cfg, list):
        for v in cfg:
            if isinstance(v, (dict, list)):
                _wreck(v)
        cfg.append("WRECKED")


def _first_diff(a, b, path=()):
    if isinstance(a, dict) and isinstance(b, dict):
        for k in sorted(set(a) | set(b), key=str):
            if k not in a or k not in b:
                return list(path) + [k], a.get(k, "<absent>"), b.get(k, "<absent>")
            d = _first_diff(a[k], b[k], path + (k,))
            if d:
                return d
        return None
    return None if a == b else (list(path), a, b)


def _typed(x):
    """Scalar leaves as (type name, repr): 1, 1.0 and True are different values of a configuration."""
    if isinstance(x, dict):
        return {k: _typed(v) for k, v in x.items()}
    if isinstance(x, (list, tuple)):
        return [type(x).__name__] + [_typed(v) for v in x]
    return (type(x).__name__, repr(x))


def _outcome(fn):
    try:
        return {"ok": fn()}, None
    except Exception as e:  # the tests exercise error paths too
        return {"raised": type(e).__name__}, e


def pytest_runtest_setup(item):
    _current["nodeid"] = item.nodeid


def pytest_configure(config):
    from experiment.model.frontends.flowir import FlowIRConcrete
    if getattr(FlowIRConcrete, "_verif_c08_wrapped", False):
        return
    orig = FlowIRConcrete.get_component_configuration

    def get_component_configuration(self, comp_id, *args, **kwargs):
        if getattr(_tls, "busy", False):
            return orig(self, comp_id, *args, **kwargs)
        _tls.busy = True
        try:
            names = ("raw", "include_default", "platform", "ignore_convert_errors", "is_primitive",
                     "inject_missing_fields")
            kw = dict(zip(names, args))
            kw.update(kwargs)
            call_kw = copy.deepcopy(kw)
            rec = {"nodeid": _current["nodeid"], "comp_id": list(comp_id) if isinstance(comp_id, (tuple, list)) else repr(comp_id),
                   "kwargs": {k: v for k, v in kw.items()}}
            expected = None
            try:
                probe, _ = _outcome(lambda: orig(self, comp_id, **copy.deepcopy(call_kw)))
                if "ok" in probe:
                    _wreck(probe["ok"])
                platform = kw.get("platform") or self._platform
                fresh = FlowIRConcrete(self.raw(), platform, getattr(self, "_documents", None))
                expected, _ = _outcome(lambda: orig(fresh, comp_id, **copy.deepcopy(call_kw)))
            except Exception as e:
                rec.update({"skipped": True, "why": "%s: %s" % (type(e).__name__, str(e)[:200])})
            got, exc = _outcome(lambda: orig(self, comp_id, **call_kw))
            if expected is not None:
                if "ok" in got and "ok" in expected:
                    equal = got["ok"] == expected["ok"]
                    typed_only = equal and _typed(got["ok"]) != _typed(expected["ok"])
                    what = None
                    if typed_only:
                        equal = False
                        d = _first_diff(_typed(got["ok"]), _typed(expected["ok"]))
                        what = "%s of %r on platform %r is %r, recomputed from scratch %r (equal for Python, not the " \
                               "same value)" % (".".join(map(str, d[0])) if d else "?", comp_id,
                                                kw.get("platform") or self._platform, d[1] if d else None,
                                                d[2] if d else None)
                    elif not equal:
                        d = _first_diff(got["ok"], expected["ok"])
                        wrecked = "WRECKED" in json.dumps(got["ok"], default=repr)
                        what = "%s of %r on platform %r is %r, recomputed from scratch %r%s" % (
                            ".".join(map(str, d[0])) if d else "?", comp_id, kw.get("platform") or self._platform,
                            d[1] if d else None, d[2] if d else None,
                            " (damage done to a previously returned configuration is visible: not a private copy)"
                            if wrecked else "")
                        rec["private"] = not wrecked
                else:
                    equal = got.get("raised") is not None and got.get("raised") == expected.get("raised")
                    what = None if equal else "outcome %s, recomputed from scratch %s" % (
                        got.get("raised") or "a configuration", expected.get("raised") or "a configuration")
                rec.update({"equal": bool(equal), "what": what, "resolved": "ok" in got})
            _emit(rec)
            if exc is not None:
                raise exc
            return got["ok"]
        finally:
            _tls.busy = False

    FlowIRConcrete.get_component_configuration = get_component_configuration
    FlowIRConcrete._verif_c08_wrapped = True
