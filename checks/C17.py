"""C17 - Component environments are built only from their declared sources.

Workload : generated FlowIR documents with environments spelled in lower / UPPER / Mixed case on
           the default platform, the selected platform, both or neither; DEFAULTS import lists;
           values that reference own, launch, canary and undefined variables ($X and ${X}); empty
           and integer values; components that select a named environment (any spelling), the
           empty environment, no environment (with and without a package default environment) and
           interpreter components.  The launch environment (os.environ of the worker process) is
           replaced for every evaluation by a generated one that contains canaries VERIF_LEAK_n.
Observe  : WorkflowGraph.environmentForNode(node)
Oracle   : ref/c17_environment.py (exact comparison) + an explicit canary clause.
"""
from __future__ import annotations

import copy
import os
import sys

import vlib

vlib.bootstrap()

from ref import c17_environment as ref  # noqa: E402

PROP = "C17"
BASE_NAMES = ["myenv", "gnu", "mpi-x", "e1", "e1x", "env_2"]
LIT_VARS = ["A", "AB", "A_1", "LIB", "mixedCase"]          # always literal, may be referenced
OTHER_VARS = ["B", "X9", "OUT", "FLAGS", "lower_v", "PYTHONPATH", "PYTHONHOME"]
SELF_VARS = ["PATH", "LD_LIBRARY_PATH"]                    # may reference themselves when imported
LAUNCH_POOL = ["HOME", "LAUNCHV", "LV2", "A", "LIB", "PYTHONPATH", "PYTHONHOME", "TERM"]
CANARIES = ["VERIF_LEAK_%d" % i for i in range(4)]
SYSTEM_VARS = {"FLOW_SYS_INSTANCE": "/instance/dir", "FLOW_SYS_RUN_ID": "run-1"}
SEPS = ["/", ":", "-", ".", " "]
EMPTY_NAMES = ["void", "blank-e"]
EMPTY_MODES = ["platform-empty", "default-empty", "both-empty", "platform-empty-over-default", "default-empty-under-platform"]
KEY_FLATTEN = "C17:instance-flattening-replaces-default-platform-environment"


def spell(r, name):
    return r.choice([name.lower(), name.upper(), name.capitalize(), name[:1].lower() + name[1:].upper()])


def gen_doc(index):
    r = vlib.rng(PROP, "doc", index)
    platforms = ["default", "p1"] + (["p2"] if r.random() < 0.4 else [])
    launch = {}
    for n in LAUNCH_POOL:
        if r.random() < 0.55:
            launch[n] = "launch-%s" % n.lower()
    for n in SELF_VARS:
        if r.random() < 0.8:
            launch[n] = "/launch/%s" % n.lower()
    for i, n in enumerate(CANARIES):
        if r.random() < 0.8:
            launch[n] = "leak-value-%d" % i
    undefined = ["UNDEF_1", "NOWHERE"]

    def reference_target(env_names):
        x = r.random()
        if x < 0.35:
            return r.choice(LIT_VARS)                      # own (if the env defines it) or launch or nobody
        if x < 0.6:
            return r.choice(LAUNCH_POOL)
        if x < 0.75:
            return r.choice(CANARIES)
        if x < 0.9:
            return r.choice(undefined)
        return r.choice(SELF_VARS)                         # someone else's $PATH

    def value(tag, name, selfref, forbidden):
        if name in LIT_VARS:
            return r.choice(["%s.%s" % (tag, name), "%s %s" % (tag, name), 7 + len(tag)])
        x = r.random()
        if name not in SELF_VARS and name not in ref.SEARCH_PATHS:
            if x < 0.08:
                return ""
            if x < 0.12:
                return None
            if x < 0.2:
                return len(tag) * 3
        parts = ["%s.%s" % (tag, name)]
        if selfref and name in SELF_VARS and r.random() < 0.8:
            parts.append(r.choice(["$%s", "${%s}"]) % name)
        for _ in range(r.choice([0, 0, 1, 1, 2])):
            t = reference_target(None)
            if t in forbidden or t == name:
                continue
            parts.append(r.choice(["$%s", "${%s}"]) % t)
        r.shuffle(parts)
        out = parts[0]
        for p in parts[1:]:
            out += r.choice(SEPS) + p
        return out

    environments = {p: {} for p in platforms}
    plan = {}
    for base in BASE_NAMES + ["environment"]:
        where = r.choice(["default", "platform", "both", "neither", "both"])
        if base == "environment":
            where = r.choice(["default", "platform", "both", "neither", "neither"])
        selfref = r.random() < 0.4
        # names (other than LIT ones) that some layer of this environment defines with a non-literal value
        # must never be the target of a reference from this environment
        nonlit = [n for n in OTHER_VARS + SELF_VARS if r.random() < 0.5]
        plan[base] = {"where": where, "selfref": selfref}
        holders = {"default": ["default"], "platform": ["p1"], "both": ["default", "p1"], "neither": []}[where]
        if "p2" in platforms and r.random() < 0.5:
            holders = holders + ["p2"]                    # decoy platform: must never leak into default / p1
        for plat in holders:
            tag = "%s@%s" % (base, plat)
            content = {}
            for n in LIT_VARS:
                if r.random() < 0.5:
                    content[n] = value(tag, n, selfref, nonlit)
            for n in nonlit:
                if r.random() < 0.7:
                    content[n] = value(tag, n, selfref, nonlit)
            has_defaults = selfref or r.random() < 0.5
            if has_defaults:
                names = [n for n in LAUNCH_POOL + CANARIES + ["NOT_IN_LAUNCH"] if r.random() < 0.25]
                if selfref:
                    names += SELF_VARS
                r.shuffle(names)
                content["DEFAULTS"] = ":".join(names)
            environments[plat][spell(r, base)] = content
    # a self-referencing value needs the launch environment to have the variable
    if any(p["selfref"] for p in plan.values()):
        for n in SELF_VARS:
            launch.setdefault(n, "/launch/%s" % n.lower())

    components = []

    def comp(name, selection, kind, interp=None, via_variable=False):
        c = {"stage": 0, "name": name, "command": {"executable": "echo"}}
        if interp == "bash":
            c["command"] = {"interpreter": "bash", "arguments": "run.sh one"}
        elif interp == "javascript":
            c["command"] = {"interpreter": "javascript", "arguments": "1+1"}
        if selection is not ABSENT:
            if via_variable:
                c["variables"] = {"envsel": selection}
                c["command"]["environment"] = "%(envsel)s"
            else:
                c["command"]["environment"] = selection
        components.append(c)
        return {"name": name, "selection": None if selection is ABSENT else selection, "kind": kind,
                "interpreter": interp is not None}

    meta = []
    for i, base in enumerate(BASE_NAMES):
        interp = r.choice([None, None, None, "bash", "javascript"])
        meta.append(comp("n%d" % i, spell(r, base), "named:" + base, interp, via_variable=r.random() < 0.15))
    meta.append(comp("none0", r.choice(["none", "None", "NONE"]), "empty", r.choice([None, None, "bash"])))
    meta.append(comp("nosel0", ABSENT, "no-selection"))
    meta.append(comp("nosel1", r.choice([None, None, ""]), "no-selection", r.choice([None, "bash", "javascript"])))
    meta.append(comp("defenv", spell(r, "environment"), "explicit-default", r.choice([None, None, "bash"])))
    # declared-EMPTY environments ({}): named ones and the reserved default one, on the default platform only,
    # the selected platform only, both, or empty on one side and with variables on the other.  Separate
    # random stream: the draws above are unchanged.
    r2 = vlib.rng(PROP, "empty", index)
    for i, base in enumerate(EMPTY_NAMES):
        mode = EMPTY_MODES[(index + 2 * i + r2.randrange(2)) % len(EMPTY_MODES)]
        lit = {"A": "%s@%%s.A" % base, "OUT": "%s@%%s.OUT" % base}
        if mode in ("default-empty", "both-empty", "default-empty-under-platform"):
            environments["default"][spell(r2, base)] = {}
        if mode in ("platform-empty", "both-empty", "platform-empty-over-default"):
            environments["p1"][spell(r2, base)] = {}
        if mode == "default-empty-under-platform":
            environments["p1"][spell(r2, base)] = {k: v % "p1" for k, v in lit.items()}
        if mode == "platform-empty-over-default":
            environments["default"][spell(r2, base)] = {k: v % "default" for k, v in lit.items()}
        meta.append(comp("e%d" % i, spell(r2, base), "named:" + base, r2.choice([None, None, "bash"])))
    if index % 3 == 2:
        for plat in ("default", "p1"):
            for n in [n for n in environments[plat] if n.lower() == "environment"]:
                del environments[plat][n]
        mode = ("default-empty", "platform-empty", "both-empty")[(index // 3) % 3]
        if mode in ("default-empty", "both-empty"):
            environments["default"][spell(r2, "environment")] = {}
        if mode in ("platform-empty", "both-empty"):
            environments["p1"][spell(r2, "environment")] = {}

    # spelling-invariance siblings: the same component with the environment name spelled lower / UPPER /
    # Capitalised / aLTERNATING.  Derived deterministically (no random draws): every other case stays as it was.
    for cm, c in zip(list(meta), list(components)):
        sel = cm["selection"]
        if not isinstance(sel, str) or not sel:
            continue
        spellings = []
        for sp in (sel.lower(), sel.upper(), sel.capitalize(),
                   "".join(ch.upper() if i % 2 else ch.lower() for i, ch in enumerate(sel))):
            if sp not in spellings:
                spellings.append(sp)
        cm["variants"] = []
        for i, sp in enumerate(spellings):
            v = copy.deepcopy(c)
            v["name"] = "%s-v%d" % (c["name"], i)
            if "envsel" in (v.get("variables") or {}):
                v["variables"]["envsel"] = sp
            else:
                v["command"]["environment"] = sp
            components.append(v)
            cm["variants"].append({"name": v["name"], "spelling": sp})
    doc = {"platforms": platforms, "environments": environments, "components": components}
    return {"doc": doc, "launch": launch, "components": meta, "index": index}


ABSENT = object()


# ----------------------------------------------------------------------------- evaluation

class LaunchEnvironment:
    """Replace os.environ's contents (this is a worker process of its own) for the duration."""
    def __init__(self, launch):
        self.launch = launch

    def __enter__(self):
        self.saved = dict(os.environ)
        os.environ.clear()
        os.environ.update(self.launch)

    def __exit__(self, *a):
        os.environ.clear()
        os.environ.update(self.saved)


def build_graph(doc, platform, primitive=True):
    from experiment.model.frontends.flowir import FlowIRConcrete
    import experiment.model.conf as conf
    import experiment.model.graph as graph
    concrete = FlowIRConcrete(copy.deepcopy(doc), platform, None)
    cfg = conf.FlowIRExperimentConfiguration(
        path=None, platform=platform, variable_files=None, system_vars=dict(SYSTEM_VARS), is_instance=False,
        createInstanceFiles=False, primitive=primitive, concrete=concrete, updateInstanceFiles=False,
        variable_substitute=True, manifest=None, validate=False)
    return graph.WorkflowGraph(configuration=cfg, platform=platform, primitive=primitive)


def spelling_class(s):
    if s is None:
        return "-"
    if s == s.lower():
        return "lower"
    if s == s.upper():
        return "upper"
    return "mixed"


def raw_value_of(doc, platform, name, key):
    out = []
    for plat in (platform, "default"):
        e = ref.lookup(doc["environments"], plat, name) if name else None
        if e and key in e:
            out.append(e[key])
    return out


def env_matches(exp, got):
    """The comparison rules of judge() as a predicate (empty values lenient, DEFAULTS not judged)."""
    if not isinstance(got, dict):
        return False
    for k, v in exp.items():
        if k == "DEFAULTS":
            continue
        if v == "":
            if got.get(k, "") != "":
                return False
        elif got.get(k) != v:
            return False
    return all(k in exp or k == "DEFAULTS" for k in got)


class _Counting:
    """Worker facade: the replicated route keeps its own counters so that the floors of the primitive
    (package-level) route keep their meaning."""
    def __init__(self, w, route):
        self.w, self.prefix = w, ("" if route == "primitive" else route + "_")
        self.samples, self.max_samples = w.samples, (w.max_samples if route == "primitive" else 0)

    def count(self, name, n=1):
        self.w.count(self.prefix + name, n)

    def evaluated(self):
        self.w.evaluated()
        if self.prefix:
            self.w.count(self.prefix + "evaluations")

    def distinct(self, key):
        self.w.distinct(self.prefix + key)

    def sample(self, obj):
        self.w.sample(obj)


def judge(case, platform, cm, wg, w0, route="primitive"):
    """One (document, platform, component) configuration on one route (primitive = package-level graph,
    replicated = the graph an experiment instance runs on)."""
    w = _Counting(w0, route)
    doc, launch = case["doc"], case["launch"]
    selection, interp = cm["selection"], cm["interpreter"]
    node = "stage0.%s" % cm["name"]
    status, exp, info = ref.build(doc["environments"], platform, selection, interp, launch, SYSTEM_VARS)
    if cm["kind"] == "explicit-default" and info["class"] == "default-environment-is-launch":
        # the component NAMES the environment "environment" but nobody defines it: the statement can be
        # read either way (unknown named environment / default environment) - not judged
        w.count("skipped_explicit_default_environment_undefined")
        return
    with LaunchEnvironment(launch):
        try:
            got = wg.environmentForNode(node)
            raised = None
        except Exception as e:
            got, raised = None, e
        leaked_into_process = [k for k in os.environ if k not in launch]
    w.evaluated()
    w.count("class_" + info["class"])
    if info.get("where"):
        w.count("defined_on_" + info["where"])
    if interp:
        w.count("interpreter_components")
    witness = {"doc": doc, "launch": launch, "platform": platform, "component": cm, "route": route,
               "expected": exp if status == "ok" else {"error": "FlowIREnvironmentUnknown", "name": exp},
               "observed": got if raised is None else {"raised": type(raised).__name__, "message": str(raised)[:300]}}
    # declared-empty environments ({}): defined with no variables
    if info["class"] in ("named", "default-environment-defined", "default-environment-is-launch", "named-unknown"):
        nm = (selection or "").lower() or "environment"
        kind_e = "reserved" if nm == "environment" else "named"
        pe = ref.lookup(doc["environments"], platform, nm)
        de = ref.lookup(doc["environments"], "default", nm) if platform != "default" else None
        if platform == "default":
            if pe == {}:
                w.count("declared_empty_%s_default_platform_selected" % kind_e)
        elif pe == {} and de is None:
            w.count("declared_empty_%s_on_selected_platform_only" % kind_e)
        elif pe == {} and de == {}:
            w.count("declared_empty_%s_on_both" % kind_e)
        elif pe is None and de == {}:
            w.count("declared_empty_%s_on_default_only" % kind_e)
        elif pe == {} and de:
            w.count("declared_empty_%s_on_selected_platform_over_default_variables" % kind_e)
        elif pe and de == {}:
            w.count("declared_empty_%s_on_default_under_platform_variables" % kind_e)

    def bad(what):
        key = None
        if (route == "replicated" and platform != "default" and info.get("where") == "both" and raised is None
                and isinstance(got, dict)):
            # structural classifier of the known finding: the result is exactly what the declared sources give
            # when the default platform's same-named environment is dropped (replaced wholesale, not layered)
            nm2 = (selection or "").lower() or "environment"
            envs2 = copy.deepcopy(doc["environments"])
            for n in [n for n in envs2.get("default", {}) if n.lower() == nm2]:
                del envs2["default"][n]
            st2, exp2, _ = ref.build(envs2, platform, selection, interp, launch, SYSTEM_VARS)
            if st2 == "ok" and env_matches(exp2, got):
                key = KEY_FLATTEN
        w0.violation(("[replicated graph] " if route == "replicated" else "") + what, witness, finding_key=key)

    # structural class
    sel_name = (selection or "").lower()
    defs = [n for p in (platform, "default") for n in (doc["environments"].get(p) or {}) if n.lower() == sel_name]
    refs = set()
    if status == "ok" and info["class"] in ("named", "default-environment-defined"):
        nm = sel_name if info["class"] == "named" else "environment"
        base, _ = ref.named(doc["environments"], platform, nm)
        for k, v in base.items():
            for m in ref.REF.finditer(v):
                t = m.group(1) or m.group(2)
                if t == k:
                    refs.add("self")
                elif t in base and t in launch:
                    refs.add("own-and-launch")
                elif t in base:
                    refs.add("own")
                elif t.startswith("VERIF_LEAK"):
                    refs.add("canary" if t in launch else "canary-absent")
                elif t in launch:
                    refs.add("launch")
                else:
                    refs.add("undefined")
        for t in refs:
            w.count("reference_to_" + t)
        if info["imported"]:
            w.count("environments_importing_from_launch")
        if any(c in info["imported"] for c in CANARIES):
            w.count("canary_explicitly_imported")
    w.distinct("%s|%s|%s|%s|sel:%s|def:%s|imp:%d|int:%d|%s" % (
        "default" if platform == "default" else "other", info["class"], info.get("where"), status,
        spelling_class(selection), ",".join(sorted(set(map(spelling_class, defs)))), bool(info["imported"]),
        interp, ",".join(sorted(refs))))

    if leaked_into_process:
        w.count("harness_launch_environment_not_controlled")
    if status == "unknown":
        w.count("expect_unknown_environment_error")
        if raised is None:
            bad("component %s selects environment %r which neither platform %r nor the default platform "
                        "defines, but an environment was built: %r" % (node, selection, platform, got))
        elif type(raised).__name__ != "FlowIREnvironmentUnknown":
            w.count("unknown_environment_reported_as_" + type(raised).__name__)
        else:
            w.count("unknown_environment_reported")
        return
    if raised is not None:
        bad("environmentForNode(%s) on platform %r raised %s: %s" % (
            node, platform, type(raised).__name__, str(raised)[:200]))
        return
    # canary clause
    for cn in CANARIES:
        if cn in launch:
            w.count("canaries_in_launch_environment")
            if cn in got:
                if info["launch_is_base"]:
                    w.count("canary_present_launch_environment_is_the_base")
                elif cn in info["imported"]:
                    w.count("canary_present_explicitly_imported")
                else:
                    bad("launch-environment variable %s leaked into the environment of %s on platform %r "
                                "(selection %r) without being imported" % (cn, node, platform, selection))
                    return
            else:
                w.count("canary_absent")
    if not isinstance(got, dict):
        bad("environmentForNode(%s) returned %r" % (node, got))
        return
    # exact comparison (an empty value may be dropped; the DEFAULTS key itself is not judged)
    for k, v in exp.items():
        if k == "DEFAULTS":
            continue
        if v == "":
            w.count("empty_valued_variables_not_judged")
            if got.get(k, "") != "":
                bad("variable %s of %s on %r is %r, declared sources give an empty value" % (
                    k, node, platform, got.get(k)))
                return
            continue
        if k not in got:
            bad("variable %s=%r is missing from the environment of %s on platform %r (selection %r)" % (
                k, v, node, platform, selection))
            return
        if got[k] != v:
            bad("variable %s of %s on platform %r (selection %r) is %r, declared sources give %r" % (
                k, node, platform, selection, got[k], v))
            return
    for k in got:
        if k not in exp and k != "DEFAULTS":
            origin = "the launch environment" if k in launch else "an undeclared source"
            bad("variable %s=%r in the environment of %s on platform %r (selection %r) comes from %s" % (
                k, got[k], node, platform, selection, origin))
            return
    w.count("environments_equal_to_reference")
    if len(w.samples) < w.max_samples and info["class"] == "named" and info["imported"]:
        w.sample({"platform": platform, "component": cm, "launch": launch,
                  "environments": doc["environments"], "observed": got})


def judge_spelling(case, platform, cm, wg, w):
    """Metamorphic clause (no reference model, no reading of what a reserved name means): the environment
    obtained with the environment name spelled in any case variant equals the one obtained with the
    lower-case spelling - the same dictionary, or the same exception class."""
    variants = cm.get("variants") or []
    if len(variants) < 2:
        return
    doc, launch = case["doc"], case["launch"]
    outcomes = []
    with LaunchEnvironment(launch):
        for v in variants:
            try:
                outcomes.append({"ok": wg.environmentForNode("stage0.%s" % v["name"])})
            except Exception as e:
                outcomes.append({"raised": type(e).__name__, "message": str(e)[:200]})
    base_name = variants[0]["spelling"]
    if base_name in ("environment", "none"):
        kind = "reserved_" + base_name
        if base_name == "environment":
            try:
                ref.named(doc["environments"], platform, "environment")
                kind += "_default_environment_defined"
            except ref.UnknownEnvironment:
                kind += "_no_default_environment"
    else:
        kind = "named"
    ref_out = outcomes[0]
    for v, out in zip(variants[1:], outcomes[1:]):
        w.evaluated()
        w.count("spelling_variants_compared")
        w.count("spelling_" + kind)
        same = (out["ok"] == ref_out["ok"]) if ("ok" in out and "ok" in ref_out) else (
            out.get("raised") is not None and out.get("raised") == ref_out.get("raised"))
        if same:
            w.count("spelling_variant_same_dictionary" if "ok" in out else "spelling_variant_same_exception")
            continue
        def show(o):
            return ("raises %s" % o["raised"]) if "raised" in o else ("gives %d variables" % len(o["ok"]))
        w.violation("environment name spelled %r %s on platform %r, spelled %r (lower case) it %s: environment names "
                    "are not case-insensitive for %s" % (v["spelling"], show(out), platform, base_name, show(ref_out),
                                                         "stage0." + cm["name"]),
                    {"doc": doc, "launch": launch, "platform": platform, "component": cm, "metamorphic": True,
                     "spelling": v["spelling"], "observed": out, "observed_lower_case": ref_out})
        return


def run_case(case, w, only=None):
    for platform in ("default", "p1"):
        if only and only["platform"] != platform:
            continue
        for route in ("primitive", "replicated"):
            if only and only.get("route", "primitive") != route:
                continue
            try:
                wg = build_graph(case["doc"], platform, primitive=(route == "primitive"))
            except Exception as e:
                w.count("graph_construction_failed")
                w.note_inconclusive("could not build the %s graph for document %s on %s: %r" % (
                    route, case.get("index"), platform, e))
                continue
            for cm in case["components"]:
                if only and only["component"]["name"] != cm["name"]:
                    continue
                if not (only and only.get("metamorphic")):
                    judge(case, platform, cm, wg, w, route)
                if route == "primitive":
                    judge_spelling(case, platform, cm, wg, w)
    w.count("documents")


def run_job(job, w):
    if job["kind"] == "replay":
        wit = job["witness"]
        comps = [wit["component"]]
        case = {"doc": wit["doc"], "launch": wit["launch"], "components": comps, "index": "replay"}
        run_case(case, w, only={"platform": wit["platform"], "component": wit["component"],
                                "metamorphic": bool(wit.get("metamorphic")), "route": wit.get("route", "primitive")})
        return
    for index in range(job["start"], job["start"] + job["count"]):
        run_case(gen_doc(index), w)


if "--worker" in sys.argv:
    vlib.worker_main(run_job)


def main():
    c = vlib.Check(
        PROP, "exploration",
        rule="distinct (platform is default?, selection class, where the environment is defined, outcome, spelling "
             "class of the selection, spelling classes of the definitions, imports from launch?, interpreter?, set of "
             "reference kinds in the values) tuples",
        assumptions=[
            "the launch environment is os.environ of the worker process, replaced per evaluation by a generated one",
            "variables that other values reference always have literal values (no chains of references): the "
            "statement's two-step expansion is then unambiguous",
            "a variable references itself ($PATH inside PATH) only when DEFAULTS imports it and the launch "
            "environment has it",
            "a variable whose declared value is empty may be absent or empty in the result; whether the DEFAULTS key "
            "itself is kept is not judged",
            "every configuration is judged on two routes: the primitive (package-level) graph and the replicated graph "
            "(primitive=False: FlowIRConcrete.instance() flattens the platform onto 'default', what an experiment "
            "instance runs on); counters of the second route carry the prefix replicated_",
            "an environment declared empty ({}) is DEFINED with no variables: system variables only, no fallback to "
            "the launch environment, no unknown-environment error",
            "a component that explicitly names the environment 'environment' while nobody defines it is not judged "
            "against the reference model; it IS covered by the spelling-invariance clause (every case variant of a "
            "selection, reserved names 'environment' and 'none' included, must give the same dictionary or the same "
            "exception class as the lower-case spelling)",
            "no two environments of one platform differ only by case; none is called 'none'; environment values "
            "contain no %(var)s references; system variable names are disjoint from environment and launch names",
            "expected error for an undefined named environment is any exception (FlowIREnvironmentUnknown is counted)",
        ])
    c.max_samples = 3
    rp = vlib.load_replay(sys.argv)
    if rp is not None:
        wit = rp["witness"]
        c.sample({"replayed": {k: wit.get(k) for k in ("platform", "component", "route", "metamorphic", "spelling")}})
        vlib.fanout("checks.C17", [{"kind": "replay", "witness": wit}], c, timeout=120)
        sys.exit(c.finish())
    quick = c.tier == "quick"
    n_docs = 120 if quick else 2800
    per = max(4, n_docs // (vlib.NPROC * 3))
    jobs = [{"kind": "docs", "start": s, "count": min(per, n_docs - s)} for s in range(0, n_docs, per)]
    vlib.fanout("checks.C17", jobs, c, timeout=900)
    c.floor("evaluations", 1500 if quick else 50000)
    c.floor("environments_equal_to_reference", 1200 if quick else 40000)
    c.floor("expect_unknown_environment_error", 80 if quick else 2000)
    c.floor("canary_absent", 1500 if quick else 40000)
    c.floor("canary_present_explicitly_imported", 40 if quick else 1000)
    c.floor("class_empty", 100 if quick else 3000)
    c.floor("class_default-environment-is-launch", 100 if quick else 3000)
    c.floor("class_default-environment-defined", 100 if quick else 3000)
    c.floor("defined_on_both", 150 if quick else 4000)
    c.floor("defined_on_platform", 80 if quick else 2000)
    c.floor("defined_on_default", 80 if quick else 2000)
    c.floor("reference_to_own-and-launch", 60 if quick else 1500)
    c.floor("interpreter_components", 200 if quick else 5000)
    for name, q, t in (("declared_empty_named_on_selected_platform_only", 30, 700),
                       ("declared_empty_named_on_default_only", 30, 700), ("declared_empty_named_on_both", 30, 700),
                       ("declared_empty_named_on_selected_platform_over_default_variables", 25, 600),
                       ("declared_empty_named_on_default_under_platform_variables", 25, 600),
                       ("declared_empty_reserved_on_selected_platform_only", 20, 500),
                       ("declared_empty_reserved_on_default_only", 20, 500), ("declared_empty_reserved_on_both", 20, 500),
                       ("replicated_evaluations", 1500, 40000),
                       ("replicated_environments_equal_to_reference", 1000, 30000)):
        c.floor(name, q if quick else t)
    c.floor("spelling_variants_compared", 3000 if quick else 80000)
    c.floor("spelling_named", 2000 if quick else 50000)
    c.floor("spelling_reserved_none", 200 if quick else 5000)
    c.floor("spelling_reserved_environment_default_environment_defined", 150 if quick else 4000)
    c.floor("spelling_reserved_environment_no_default_environment", 150 if quick else 4000)
    if c.counters.get("harness_launch_environment_not_controlled"):
        c.note_inconclusive("the launch environment was not fully controlled")
    sys.exit(c.finish())


if __name__ == "__main__":
    main()
