"""C08 - Configuration queries always reflect the latest updates (cache coherence, private copies).

Workload 1: generated histories of 10-60 mutator / query calls on a live FlowIRConcrete (half of
            them wrapped in a FlowIRExperimentConfiguration for setOptionForNode/removeOptionForNode).
            After (almost) every call a checkpoint queries every (component, platform) pair, so the
            cache is warm before the next write.
Oracle    : live.get_component_configuration(c, raw=False, include_default=True, platform=P) must equal
            FlowIRConcrete(live.raw(), P, documents).get_component_configuration(...) (from scratch,
            cold cache) - as dictionaries and leaf by leaf with the same type and repr (1 / 1.0 / True are
            different values); then the returned dict is wrecked in place and the query repeated: unchanged.
            Half of the value-carrying updates are tried as "equal twins" of the stored value (== but another
            type, or None for a variable the layer does not define yet).  The second query of every pair (no
            update in between: answered from the cache) is compared with from scratch as well; documents and
            option setters use command.interpreter / workflowAttributes.repeatInterval, whose value decides
            other fields (expandArguments, executable, arguments, isRepeat) in final steps of the resolution.
            Typed options receive unconvertible values; queries come with both values of ignore_convert_errors
            (lenient, then strict again) and each answer / exception class is compared with a from-scratch
            object queried with the same flags.
Workload 2: some of the repository's own test modules run under a pytest plugin
            (checks/_c08_pytest_plugin.py) that attaches the same post-condition to every call of
            FlowIRConcrete.get_component_configuration.
"""
from __future__ import annotations

import copy
import glob
import json
import os
import re
import shutil
import subprocess
import sys
import time

import vlib

vlib.bootstrap()

from gen.c04_docs import PALETTE, VAR_ORDER, INT_VARS, FLAG_VAR, DocGen  # noqa: E402
from ref import c04_layering as ref  # noqa: E402

PROP = "C08"
KEY_REGEX = "C08:regex-metachar-component-name-not-invalidated"
KEY_NEWPLAT = "C08:platform-created-by-global-setter-lacks-stages"
KEY_ISREPEAT = "C08:isrepeat-not-rederived-outside-fully-resolved-query"
KEY_LENIENT = "C08:lenient-result-cached-under-strict-label"
UNCONVERTIBLE = ["four", "1.5x", "%(va)s-units", ""]     # no valid reading as int / float / bool
TYPED_KINDS = ("int", "number", "float", "bool")
HOSTILE_NAMES = ["a+b", "x$", "a?b"]
NEW_PLATFORMS = ["brandnew", "p9"]
EXTRA_COMP_NAMES = ["c", "c1", "c.x", "comp-A", "x", "xy", "x.y", "late", "late1"]
TEST_MODULES = {"quick": ["tests/test_flowir.py"],
                "thorough": ["tests/test_flowir.py", "tests/test_graph.py", "tests/test_dsl.py",
                             "tests/test_package_load.py", "tests/test_dosini.py", "tests/test_command.py"]}


# Options whose value decides OTHER fields of the resolved configuration in a final step of the
# resolution (documented: "8. Resolve interpreter option which may affect command.executable and
# command.arguments", "Interpreters will never expand their arguments", "isRepeat ... its value depends
# on repeatInterval"): what a cache stores must be the configuration AFTER those steps.
DERIVED_PALETTE = [
    (("command", "interpreter"), "interp", None),
    (("command", "interpreter"), "interp", None),
    (("command", "expandArguments"), "expand", None),
    (("workflowAttributes", "repeatInterval"), "repeat", None),
    (("workflowAttributes", "isRepeat"), "bool", None),
]
INTERPRETERS = ["bash", "javascript", "cwl", "cwlcmdline"]


def _pick_option(r):
    return r.choice(DERIVED_PALETTE) if r.random() < 0.3 else r.choice(PALETTE)


def seed_derived(r, doc):
    """Put command.interpreter / workflowAttributes.repeatInterval into the initial document: in a
    component, a blueprint (inherited) or a platform override of a component."""
    placed = []
    comps = doc["components"]
    for _ in range(r.choice([1, 1, 2])):
        comp = r.choice(comps)
        plat = r.choice(doc["platforms"])
        where = r.choice(["component", "component", "default_global_blueprint", "platform_global_blueprint",
                          "platform_stage_blueprint", "override"])
        if r.random() < 0.75:
            path, value = ("command", "interpreter"), r.choice(INTERPRETERS)
        else:
            path, value = ("workflowAttributes", "repeatInterval"), r.choice([5, 2.5, 0, "%(n2)s"])
        if where == "component":
            target = comp
        elif where == "override":
            target = comp.setdefault("override", {}).setdefault(plat, {})
        else:
            bp = doc["blueprint"].setdefault("default" if where.startswith("default") else plat, {})
            if where.endswith("stage_blueprint"):
                target = bp.setdefault("stages", {}).setdefault(comp["stage"], {})
            else:
                target = bp.setdefault("global", {})
        ref.set_path(target, path, value)
        if path[1] == "interpreter" and r.random() < 0.5:
            comp.get("command", {}).pop("executable", None)     # the executable is then derived from the arguments
        placed.append(where + ":" + path[1])
    return placed


def seed_unconvertible(r, doc):
    """A typed option of the initial document holds a value with no valid reading for its type."""
    typed_paths = [p for p, kind, _ in PALETTE if kind in TYPED_KINDS]
    comp = r.choice(doc["components"])
    plat = r.choice(doc["platforms"])
    where = r.choice(["component", "component", "override", "override", "platform_stage_blueprint"])
    if where == "component":
        target = comp
    elif where == "override":
        target = comp.setdefault("override", {}).setdefault(plat, {})
    else:
        target = doc["blueprint"].setdefault(plat, {}).setdefault("stages", {}).setdefault(comp["stage"], {})
    ref.set_path(target, r.choice(typed_paths), r.choice(UNCONVERTIBLE))
    return where


# ----------------------------------------------------------------------------- operations

def _opt_value(r, path, kind, k):
    tag = "h%d-%s" % (k, path[-1])
    if kind in TYPED_KINDS and r.random() < 0.1:
        return r.choice(UNCONVERTIBLE)
    if kind == "str":
        return tag if r.random() < 0.7 else tag + " %(n2)s"
    if kind in ("int", "number"):
        return r.choice([k + 1, str(k + 1), 0, "%(n2)s"])
    if kind == "float":
        return r.choice([0.5, 0.25, "0.75"])
    if kind == "list":
        return [tag] * r.randrange(0, 3)
    if path[-1] == "imagePullPolicy":
        return r.choice(["Always", "Never", "IfNotPresent"])
    if kind == "interp":
        return r.choice(INTERPRETERS + ["bash", "bash", None, "perl"])      # None: unset; perl: not a known interpreter
    if kind == "expand":
        return r.choice(["double-quote", "none"])
    if kind == "repeat":
        return r.choice([None, 0, 5, 2.5, k + 1, "%(n2)s"])
    return r.random() < 0.5


def _var_value(r, name, k):
    if name in INT_VARS or name.startswith("n"):
        return r.choice([k, str(k), 0])
    if name == FLAG_VAR:
        return r.choice([True, False, "yes", "no"])
    x = r.random()
    if x < 0.2 and name in VAR_ORDER and VAR_ORDER.index(name) < 5:
        return "h%d:%s=%%(n2)s" % (k, name)
    if x > 0.88:
        return r.choice([0, 1, True, False, 4, 2.0, k])     # later "equal twin" updates need non-string values
    return "h%d:%s" % (k, name)


# ----------------------------------------------------------------------------- equal-twin updates
# An update whose new value compares equal (Python ==) to the stored one although it is a different
# value of the description (1 -> True, 4 -> 4.0, 0 -> False, 1.0 -> 1), or that gives a variable the
# layer does not define yet the value None (dict.get's default).  "The value did not change, keep the
# cache" shortcuts are wrong exactly there.  The stored value is read from live.raw() before the draw.

MISSING = object()


def _dig(d, path):
    for p in path:
        if not isinstance(d, dict):
            return MISSING
        if p in d:
            d = d[p]
        elif isinstance(p, int) and str(p) in d:
            d = d[str(p)]
        else:
            return MISSING
    return d


def stored_value(raw, op):
    """The value the description currently holds at the place `op` is about to write (MISSING if
    none; None when the operation kind has no single value slot)."""
    kind = op["op"]
    if kind == "set_global_variable":
        return _dig(raw, ["variables", "default", "global", op["name"]])
    if kind == "set_stage_variable":
        return _dig(raw, ["variables", "default", "stages", op["stage"], op["name"]])
    if kind == "set_platform_global_variable" or (kind == "edit_global_ref" and not op["delete"]):
        return _dig(raw, ["variables", op["platform"], "global", op["name"]])
    if kind == "set_platform_stage_variable" or (kind == "edit_stage_ref" and not op["delete"]):
        return _dig(raw, ["variables", op["platform"], "stages", op["stage"], op["name"]])
    if kind in ("set_component_variable", "set_component_option", "conf_set_option", "edit_component_ref"):
        comp = [c for c in raw.get("components", []) if [c.get("stage", 0), c.get("name")] == list(op["comp"])]
        if len(comp) != 1:
            return None
        if kind == "set_component_variable":
            return _dig(comp[0], ["variables", op["name"]])
        if kind == "edit_component_ref":
            return _dig(comp[0], op["path"])
        if op["route"].startswith("#"):
            return _dig(comp[0], op["route"][1:].split("."))
        return _dig(comp[0], ["variables", op["route"]])
    return None


def equal_twin(r, cur, is_variable):
    """(label, value) with value == cur under Python equality but of another type; for a variable
    that is not defined at that place: None.  (None, None) when there is no such value."""
    if cur is MISSING:
        return ("none_for_new_variable", None) if is_variable and r.random() < 0.35 else (None, None)
    if isinstance(cur, bool):
        return "number_for_bool", r.choice([int(cur), float(cur)])
    if isinstance(cur, int):
        cands = [("float_for_int", float(cur))]
        if cur in (0, 1):
            cands.append(("bool_for_int", bool(cur)))
        return r.choice(cands)
    if isinstance(cur, float) and cur.is_integer():
        cands = [("int_for_float", int(cur))]
        if cur in (0.0, 1.0):
            cands.append(("bool_for_float", bool(cur)))
        return r.choice(cands)
    return None, None


def make_twin(r, raw, op):
    cur = stored_value(raw, op)
    if cur is None:
        return
    if op["op"] == "edit_component_ref":
        is_variable = op["path"][0] == "variables"
    elif op["op"] in ("set_component_option", "conf_set_option"):
        is_variable = not op["route"].startswith("#")
    else:
        is_variable = True
    label, value = equal_twin(r, cur, is_variable)
    if label is not None:
        op["value"] = value
        op["twin"] = label


def _component_description(r, gen, stage, name, k):
    comp = {"stage": stage, "name": name}
    comp.update(gen.options("comp", 0, stage, universal_only=True))
    comp.setdefault("command", {})["executable"] = "exe-h%d" % k
    if r.random() < 0.3:
        comp["command"]["interpreter"] = r.choice(INTERPRETERS)
        if r.random() < 0.5:
            del comp["command"]["executable"]
    if r.random() < 0.15:
        comp.setdefault("workflowAttributes", {})["repeatInterval"] = r.choice([0, 5, 2.5, "%(n2)s"])
    comp["variables"] = {n: _var_value(r, n, k) for n in VAR_ORDER if r.random() < 0.3}
    if r.random() < 0.5:
        plat = r.choice(gen.platforms)
        comp["override"] = {plat: {"command": {"arguments": "h%d-ovr-%s" % (k, plat)},
                                   "variables": {"va": "h%d-ovrvar-%s" % (k, plat)}}}
    return comp


def next_op(r, gen, state, k, hostile, wrapped):
    """Draw the k-th operation given the current component ids / platforms (explicit, replayable)."""
    op = _draw_op(r, gen, state, k, hostile, wrapped)
    if "value" in op and state.get("raw") is not None and r.random() < 0.5:
        make_twin(r, state["raw"], op)
    return op


def _draw_op(r, gen, state, k, hostile, wrapped):
    comps = state["comps"]
    platforms = state["platforms"]
    plat = r.choice(platforms)
    if hostile and r.random() < 0.25:
        plat = r.choice(NEW_PLATFORMS)
    stage = r.randrange(state["nstages"])
    vname = r.choice(VAR_ORDER + ["newvar"])
    kinds = ["set_component_variable", "delete_component_variable", "set_component_option", "remove_component_option",
             "set_global_variable", "set_stage_variable", "set_platform_global_variable", "set_platform_stage_variable",
             "edit_global_ref", "edit_stage_ref", "edit_component_ref", "add_component", "delete_component",
             "readd_component", "update_component", "configure_platform", "query", "query"]
    if wrapped:
        kinds += ["conf_set_option", "conf_remove_option"]
    kind = r.choice(kinds)
    if kind == "delete_component" and len(comps) <= 1:
        kind = "add_component"
    cid = list(r.choice(comps)) if comps else [0, "c"]
    if kind in ("set_component_variable", "delete_component_variable"):
        return {"op": kind, "comp": cid, "name": vname, "value": _var_value(r, vname, k)}
    if kind in ("set_component_option", "remove_component_option", "conf_set_option", "conf_remove_option"):
        if r.random() < 0.25:
            route = vname                      # no '#': the route names a component variable
            value = _var_value(r, vname, k)
        else:
            path, pk, _ = _pick_option(r)
            route = "#" + ".".join(path)
            value = _opt_value(r, path, pk, k)
        return {"op": kind, "comp": cid, "route": route, "value": value}
    if kind == "set_global_variable":
        return {"op": kind, "name": vname, "value": _var_value(r, vname, k)}
    if kind == "set_stage_variable":
        return {"op": kind, "stage": stage, "name": vname, "value": _var_value(r, vname, k)}
    if kind == "set_platform_global_variable":
        return {"op": kind, "platform": plat, "name": vname, "value": _var_value(r, vname, k)}
    if kind == "set_platform_stage_variable":
        if plat in NEW_PLATFORMS and plat not in platforms:
            plat = r.choice(platforms)
        return {"op": kind, "platform": plat, "stage": stage, "name": vname, "value": _var_value(r, vname, k)}
    if kind in ("edit_global_ref", "edit_stage_ref"):
        if plat not in platforms:
            plat = r.choice(platforms)
        return {"op": kind, "platform": plat, "stage": stage, "name": vname, "delete": r.random() < 0.3,
                "value": _var_value(r, vname, k), "via_default_getter": plat == "default" and r.random() < 0.5}
    if kind == "edit_component_ref":
        x = r.random()
        if x < 0.4:
            path, pk, _ = _pick_option(r)
            return {"op": kind, "comp": cid, "path": list(path), "value": _opt_value(r, path, pk, k)}
        if x < 0.7:
            return {"op": kind, "comp": cid, "path": ["variables", vname], "value": _var_value(r, vname, k)}
        p2 = r.choice(platforms)
        return {"op": kind, "comp": cid, "path": ["override", p2, "command", "arguments"], "value": "h%d-ovr" % k}
    if kind == "add_component":
        name = r.choice(state["name_pool"])
        return {"op": kind, "description": _component_description(r, gen, stage, name, k)}
    if kind == "delete_component":
        return {"op": kind, "comp": cid}
    if kind == "readd_component":
        return {"op": kind, "comp": cid, "description": _component_description(r, gen, cid[0], cid[1], k)}
    if kind == "update_component":
        return {"op": kind, "comp": cid, "description": _component_description(r, gen, cid[0], cid[1], k)}
    if kind == "configure_platform":
        return {"op": kind, "platform": r.choice(platforms)}
    return {"op": "query", "comp": cid, "platform": r.choice(platforms + [None]), "raw": r.random() < 0.3,
            "include_default": r.random() < 0.7, "is_primitive": r.random() < 0.3,
            "ignore_convert_errors": state.get("lenient", False) and r.random() < 0.4,
            "inject_missing_fields": r.random() < 0.85}


def apply_op(live, cfg, op):
    kind = op["op"]
    cid = tuple(op["comp"]) if "comp" in op else None
    if kind == "set_component_variable":
        live.set_component_variable(cid, op["name"], op["value"])
    elif kind == "delete_component_variable":
        live.delete_component_variable(cid, op["name"])
    elif kind == "set_component_option":
        live.set_component_option(cid, op["route"], op["value"])
    elif kind == "remove_component_option":
        live.remove_component_option(cid, op["route"])
    elif kind == "conf_set_option":
        cfg.setOptionForNode("stage%d.%s" % cid, op["route"], op["value"])
    elif kind == "conf_remove_option":
        cfg.removeOptionForNode("stage%d.%s" % cid, op["route"])
    elif kind == "set_global_variable":
        live.set_global_variable(op["name"], op["value"])
    elif kind == "set_stage_variable":
        live.set_stage_variable(op["stage"], op["name"], op["value"])
    elif kind == "set_platform_global_variable":
        live.set_platform_global_variable(op["name"], op["value"], op["platform"])
    elif kind == "set_platform_stage_variable":
        live.set_platform_stage_variable(op["stage"], op["name"], op["value"], op["platform"])
    elif kind in ("edit_global_ref", "edit_stage_ref"):
        if kind == "edit_global_ref":
            d = (live.get_default_global_variables(return_copy=False) if op["via_default_getter"]
                 else live.get_platform_global_variables(op["platform"], return_copy=False))
        else:
            d = (live.get_default_stage_variables(op["stage"], return_copy=False) if op["via_default_getter"]
                 else live.get_platform_stage_variables(op["stage"], op["platform"], return_copy=False))
        # the edit follows the getter immediately (no query in between)
        if op["delete"]:
            d.pop(op["name"], None)
        else:
            d[op["name"]] = op["value"]
    elif kind == "edit_component_ref":
        d = live.get_component(cid, return_copy=False)
        for p in op["path"][:-1]:
            nxt = d.get(p)
            if not isinstance(nxt, dict):
                nxt = d[p] = {}
            d = nxt
        d[op["path"][-1]] = copy.deepcopy(op["value"])
    elif kind == "add_component":
        live.add_component(copy.deepcopy(op["description"]))
    elif kind == "delete_component":
        live.delete_component(cid)
    elif kind == "readd_component":
        live.delete_component(cid)
        live.add_component(copy.deepcopy(op["description"]))
    elif kind == "update_component":
        live.update_component(cid, copy.deepcopy(op["description"]))
    elif kind == "configure_platform":
        live.configure_platform(op["platform"])
    elif kind == "query":
        live.get_component_configuration(cid, raw=op["raw"], include_default=op["include_default"],
                                         platform=op["platform"], is_primitive=op["is_primitive"],
                                         ignore_convert_errors=op.get("ignore_convert_errors", False),
                                         inject_missing_fields=op.get("inject_missing_fields", True))
    else:
        raise AssertionError(kind)


# ----------------------------------------------------------------------------- oracle

def outcome(obj, cid, platform, **flags):
    kw = {"raw": False, "include_default": True}
    kw.update(flags)
    try:
        return {"ok": obj.get_component_configuration(tuple(cid), platform=platform, **kw)}
    except Exception as e:
        return {"raised": type(e).__name__, "message": str(e)[:300]}


def wreck_marks(cfg):
    """True when the damage wreck() does to a returned configuration is visible in `cfg`."""
    if isinstance(cfg, dict):
        return "__wrecked__" in cfg or any(wreck_marks(v) for v in cfg.values())
    if isinstance(cfg, (list, tuple)):
        return any(wreck_marks(v) for v in cfg)
    return isinstance(cfg, str) and cfg == "WRECKED"


def stale_isrepeat_only(live, cid, got, expect, flags):
    """Structural classifier of KEY_ISREPEAT: a resolved query that is not the fully resolved variant
    differs from scratch in workflowAttributes.isRepeat and nowhere else, and the component's own
    description holds a repeatInterval whose derived isRepeat is not the isRepeat stored next to it."""
    if flags["include_default"] and not flags["is_primitive"]:
        return False
    g, e = copy.deepcopy(got), copy.deepcopy(expect)
    try:
        gi, ei = g["workflowAttributes"].pop("isRepeat"), e["workflowAttributes"].pop("isRepeat")
    except (KeyError, AttributeError, TypeError):
        return False
    if typed(g) != typed(e) or typed(gi) == typed(ei):
        return False
    try:
        own = live.get_component(tuple(cid)).get("workflowAttributes") or {}
    except Exception:
        return False
    if "repeatInterval" not in own:
        return False
    return typed(own.get("isRepeat")) != typed(own["repeatInterval"] not in [None, 0])


def agree(x, y):
    return same(x, y) and ("ok" not in x or typed(x["ok"]) == typed(y["ok"]))


def served_lenient_entry(got, expect_strict, expect_lenient, lenient_query_seen):
    """Structural classifier of KEY_LENIENT: a strict query (ignore_convert_errors=False) returns a
    configuration where from scratch raises FlowIRFailedComponentConvertType, that configuration is
    exactly what a LENIENT query computes from scratch from the current description, and this history
    made a lenient fully-resolved query of the same (component, platform) before."""
    return (lenient_query_seen and "ok" in got and expect_strict.get("raised") == "FlowIRFailedComponentConvertType"
            and "ok" in expect_lenient and typed(got["ok"]) == typed(expect_lenient["ok"]))


def fmt_leaf(x):
    return "%s %s" % tuple(x) if isinstance(x, tuple) and len(x) == 2 else repr(x)


def same(a, b):
    if "ok" in a and "ok" in b:
        return a["ok"] == b["ok"]
    return a.get("raised") is not None and a.get("raised") == b.get("raised")


def typed(x):
    """The configuration with every scalar leaf replaced by (type name, repr): 1, 1.0 and True are
    equal for Python but they are different values of a configuration (they interpolate and
    serialise differently), so `==` alone cannot see an update from one to the other."""
    if isinstance(x, dict):
        return {k: typed(v) for k, v in x.items()}
    if isinstance(x, (list, tuple)):
        return [type(x).__name__] + [typed(v) for v in x]
    return (type(x).__name__, repr(x))


def first_diff(a, b, path=()):
    if isinstance(a, dict) and isinstance(b, dict):
        for k in sorted(set(a) | set(b), key=str):
            if k not in a or k not in b:
                return list(path) + [k], a.get(k, "<absent>"), b.get(k, "<absent>")
            d = first_diff(a[k], b[k], path + (k,))
            if d:
                return d
        return None
    return None if a == b else (list(path), a, b)


def wreck(cfg):
    """Change the returned configuration in place at every level."""
    if isinstance(cfg, dict):
        for k in list(cfg):
            v = cfg[k]
            if isinstance(v, (dict, list)):
                wreck(v)
            else:
                cfg[k] = "WRECKED"
        cfg["__wrecked__"] = True
    elif isinstance(cfg, list):
        for v in cfg:
            if isinstance(v, (dict, list)):
                wreck(v)
        cfg.append("WRECKED")


def own_label_not_matched(cid):
    """Structural classifier of KEY_REGEX: the invalidation expression built from the component
    name does not match (or does not compile against) the component's own cache label."""
    try:
        pat = re.compile(r"component:.*:stage%s:%s" % (cid[0], cid[1]))
    except re.error:
        return True
    return pat.match("component:default:stage%s:%s" % (cid[0], cid[1])) is None


def run_history(hist, w, limit_ops=None):
    """Execute one history.  `hist` either carries explicit 'ops' (replay) or is generated online."""
    from experiment.model.frontends.flowir import FlowIRConcrete
    index = hist["index"]
    r = vlib.rng(PROP, "hist", index)
    hostile = hist["hostile"]
    wrapped = hist["wrapped"]
    gen = DocGen(vlib.rng(PROP, "doc", index), False, hist.get("with_undefined", False), False)
    doc, _ = gen.build()
    if hostile:
        for i, comp in enumerate(doc["components"][:2]):
            comp["name"] = HOSTILE_NAMES[(index + i) % len(HOSTILE_NAMES)]
    if hist.get("seed_unconvertible"):
        w.count("initial_document_unconvertible_in_" + seed_unconvertible(vlib.rng(PROP, "unconvertible", index), doc))
    if hist.get("seed_derived"):
        for where in seed_derived(vlib.rng(PROP, "derived", index), doc):
            w.count("initial_document_" + where)
    platform0 = doc["platforms"][hist["platform0_index"] % len(doc["platforms"])]
    live = FlowIRConcrete(copy.deepcopy(doc), platform0, None)
    cfg = None
    if wrapped:
        import experiment.model.conf as conf
        cfg = conf.FlowIRExperimentConfiguration(
            path=None, platform=platform0, variable_files=None, system_vars=None, is_instance=False,
            createInstanceFiles=False, primitive=True, concrete=live, updateInstanceFiles=False,
            variable_substitute=True, manifest=None, validate=False)
        live = cfg.get_flowir_concrete(return_copy=False)
    initial_platforms = list(doc["platforms"])
    state = {"nstages": gen.nstages, "name_pool": EXTRA_COMP_NAMES + (HOSTILE_NAMES if hostile else []),
             "lenient": bool(hist.get("lenient"))}
    lenient_pairs = set()       # (component, platform) pairs this history queried leniently (fully resolved variant)
    w.count("histories_with_lenient_queries" if hist.get("lenient") else "histories_without_lenient_queries")
    ops = hist.get("ops")
    n_ops = len(ops) if ops is not None else hist["n_ops"]
    executed = []
    deleted = []
    global_setter_platforms = set()
    kinds_window = []
    w.count("histories")
    w.count("histories_hostile_slice" if hostile else "histories_mechanism_free")
    for k in range(n_ops):
        comps = sorted(live.get_component_identifiers(False), key=str)
        state["comps"] = comps
        state["platforms"] = [p for p in live.platforms if p in initial_platforms] or ["default"]
        if ops is not None:
            op = ops[k]
        else:
            state["raw"] = live.raw()       # where the equal-twin values are read from (a copy; no cache effect)
            op = next_op(r, gen, state, k, hostile, wrapped)
        executed.append(op)
        kinds_window = (kinds_window + [op["op"]])[-3:]
        w.count("op_" + op["op"])
        if op["op"] == "set_platform_global_variable" and op["platform"] not in live.platforms:
            global_setter_platforms.add(op["platform"])
        if op["op"] in ("delete_component", "readd_component"):
            deleted.append(tuple(op["comp"]))
        try:
            apply_op(live, cfg, op)
            w.count("ops_applied")
            if op["op"] == "query" and (op["raw"] or not op.get("inject_missing_fields", True)):
                w.count("uncompared_raw_or_uninjected_queries")
            target = op.get("route", "#" + ".".join(map(str, op.get("path", []))))
            if target == "#command.interpreter":
                unset = op["op"] in ("remove_component_option", "conf_remove_option") or op.get("value") is None
                w.count("interpreter_unset_during_history" if unset else "interpreter_set_during_history")
            elif target == "#workflowAttributes.repeatInterval":
                w.count("repeat_interval_changed_during_history")
            if op.get("twin"):
                w.count("twin_updates_applied")
                w.count("twin_" + op["twin"])
                w.count("twin_via_" + op["op"])
        except Exception as e:
            w.count("ops_raised")
            w.count("ops_raised_" + type(e).__name__)
        if op["op"] == "query" and not op["raw"] and op.get("inject_missing_fields", True):
            # the same resolved query with these flags, twice, against from scratch with the same flags
            flags = {"include_default": op["include_default"], "is_primitive": op["is_primitive"],
                     "ignore_convert_errors": op.get("ignore_convert_errors", False),
                     "inject_missing_fields": op.get("inject_missing_fields", True)}
            fresh_q = FlowIRConcrete(live.raw(), live.active_platform, None)
            expect = outcome(fresh_q, op["comp"], op["platform"], **flags)
            pair_q = (tuple(op["comp"]), op["platform"] or live.active_platform)
            cached_variant = flags["include_default"] and not flags["is_primitive"] and flags["inject_missing_fields"]
            for n in (1, 2):
                got = outcome(live, op["comp"], op["platform"], **flags)
                w.evaluated()
                w.count("flagged_queries_compared")
                w.count("flagged_queries_lenient" if flags["ignore_convert_errors"] else "flagged_queries_strict")
                if "ok" in got and "ok" in expect:
                    w.count("flagged_queries_both_resolved")
                if not same(got, expect) or ("ok" in got and typed(got["ok"]) != typed(expect["ok"])):
                    if "ok" in got and "ok" in expect:
                        d = first_diff(typed(got["ok"]), typed(expect["ok"]))
                        what = "has %s = %s, from scratch %s" % (".".join(map(str, d[0])), fmt_leaf(d[1]), fmt_leaf(d[2]))
                    else:
                        what = "gives %s, from scratch %s" % (got.get("raised") or "a configuration",
                                                               expect.get("raised") or "a configuration")
                    key = None
                    if "ok" in got and "ok" in expect and stale_isrepeat_only(live, op["comp"], got["ok"], expect["ok"], flags):
                        key = KEY_ISREPEAT
                    elif cached_variant and not flags["ignore_convert_errors"] and "ok" in got and "raised" in expect:
                        lenient_flags = dict(flags, ignore_convert_errors=True)
                        el = outcome(FlowIRConcrete(live.raw(), live.active_platform, None), op["comp"], op["platform"],
                                     **lenient_flags)
                        if served_lenient_entry(got, expect, el, pair_q in lenient_pairs):
                            key = KEY_LENIENT
                    w.violation("query #%d (%s) of %s on %r %s" % (
                        n, ", ".join("%s=%s" % kv for kv in sorted(flags.items())), tuple(op["comp"]), op["platform"], what),
                        {"history": dict(hist, ops=executed), "after_op": k, "component": list(op["comp"]),
                         "platform": op["platform"], "flags": flags}, finding_key=key)
                    if key is None:
                        return
                    break
            if cached_variant and flags["ignore_convert_errors"]:
                lenient_pairs.add(pair_q)
        do_checkpoint = op.get("checkpoint", None)
        if do_checkpoint is None:
            do_checkpoint = r.random() < 0.85
            op["checkpoint"] = do_checkpoint
        if not do_checkpoint and k != n_ops - 1:
            continue
        # ---- checkpoint: every (component, platform) pair against a from-scratch instance
        w.count("checkpoints")
        w.distinct(">".join(kinds_window) + ("~" + op["twin"] if op.get("twin") else ""))
        if op.get("twin"):
            w.count("twin_updates_checked")
        raw0 = live.raw()
        active = live.active_platform
        fresh = FlowIRConcrete(raw0, active, None)
        fresh_l = FlowIRConcrete(raw0, active, None)    # from scratch for the lenient queries only
        comps = sorted(live.get_component_identifiers(False), key=str)
        pairs = [(c, p) for c in comps for p in live.platforms]
        if comps:
            pairs.append((comps[k % len(comps)], None))
        for d in deleted[-2:]:
            if d not in comps:
                pairs.append((d, active))
        oplabel = op["op"] + (" (equal twin of the stored value: %s)" % op["twin"] if op.get("twin") else "")
        for pair_index, (cid, plat) in enumerate(pairs):
            a = outcome(live, cid, plat)
            b = outcome(fresh, cid, plat)
            w.evaluated()
            w.count("compared_queries")
            if "ok" in a and "ok" in b:
                w.count("compared_both_resolved")
            witness = {"history": dict(hist, ops=executed), "after_op": k, "component": list(cid), "platform": plat}
            if not same(a, b):
                key = None
                if "ok" in a and "ok" in b:
                    d = first_diff(a["ok"], b["ok"])
                    what = "after %s: %s on %r has %s = %r, from scratch %r" % (
                        oplabel, cid, plat, ".".join(map(str, d[0])), d[1], d[2])
                    if own_label_not_matched(cid):
                        key = KEY_REGEX
                else:
                    what = "after %s: %s on %r gives %s, from scratch %s" % (
                        oplabel, cid, plat, a.get("raised") or "a configuration", b.get("raised") or "a configuration")
                    if (a.get("raised") == "FlowIRInconsistency" and "stages" in a.get("message", "")
                            and b.get("raised") != "FlowIRInconsistency"
                            and plat in global_setter_platforms and plat not in initial_platforms):
                        key = KEY_NEWPLAT
                    elif "ok" in a and served_lenient_entry(
                            a, b, outcome(fresh_l, cid, plat, ignore_convert_errors=True),
                            (tuple(cid), plat or active) in lenient_pairs):
                        key = KEY_LENIENT
                        what += " (a lenient query, ignore_convert_errors=True, of the same pair came before)"
                    elif own_label_not_matched(cid) and "ok" in a:
                        key = KEY_REGEX
                witness["live"] = a if "raised" in a else None
                witness["from_scratch"] = b if "raised" in b else None
                w.violation(what, witness, finding_key=key)
                if key is None:
                    return
                continue
            if "ok" in a:
                w.count("compared_typed")
                ta, tb = typed(a["ok"]), typed(b["ok"])
                if ta != tb:
                    d = first_diff(ta, tb)
                    what = "after %s: %s on %r has %s = %s, from scratch %s (equal for Python, not the same value)" % (
                        oplabel, cid, plat,
                        ".".join(map(str, d[0])), "%s %s" % tuple(d[1]) if isinstance(d[1], tuple) else d[1],
                        "%s %s" % tuple(d[2]) if isinstance(d[2], tuple) else d[2])
                    key = KEY_REGEX if own_label_not_matched(cid) else None
                    w.violation(what, witness, finding_key=key)
                    if key is None:
                        return
                    continue
                snapshot = copy.deepcopy(a["ok"])
                wreck(a["ok"])
                # query #2 of the same (component, platform, flags), no update in between: a cache hit
                again = outcome(live, cid, plat)
                w.count("private_copy_probes")
                w.count("cache_hit_queries_compared")
                if "ok" not in again or again["ok"] != snapshot or typed(again["ok"]) != tb:
                    if "ok" in again and wreck_marks(again["ok"]):
                        d = first_diff(again["ok"], snapshot)
                        w.violation("changing the configuration returned for %s on %r changed the next query at %s" % (
                            cid, plat, ".".join(map(str, d[0])) if d else "?"), witness)
                    elif "ok" in again:
                        d = first_diff(typed(again["ok"]), tb)
                        w.violation("after %s: query #2 of %s on %r with no update in between (answered from the cache) "
                                    "has %s = %s, from scratch %s; query #1 agreed with from scratch%s" % (
                                        oplabel, cid, plat, ".".join(map(str, d[0])), fmt_leaf(d[1]), fmt_leaf(d[2]),
                                        " (command.interpreter = %r)" % snapshot["command"]["interpreter"]
                                        if (snapshot.get("command") or {}).get("interpreter") is not None else ""),
                                    witness)
                    else:
                        w.violation("after %s: query #2 of %s on %r with no update in between gives %s, query #1 and "
                                    "from scratch a configuration" % (oplabel, cid, plat, again.get("raised")), witness)
                    return
                if (snapshot.get("command") or {}).get("interpreter") is not None:
                    w.count("interpreter_components_queried_twice")
                    if (snapshot.get("command") or {}).get("expandArguments") == "none":
                        w.count("interpreter_components_expand_none")
                if (snapshot.get("workflowAttributes") or {}).get("isRepeat") is True:
                    w.count("repeating_components_queried_twice")
            # ---- both values of ignore_convert_errors: a lenient query, then a strict one again (no update in between)
            if hist.get("lenient") and ("raised" in a or (pair_index + k) % 3 == 0):
                el = outcome(fresh_l, cid, plat, ignore_convert_errors=True)
                gl = outcome(live, cid, plat, ignore_convert_errors=True)
                lenient_pairs.add((tuple(cid), plat or active))
                w.evaluated()
                w.count("lenient_queries_compared")
                if not agree(gl, el):
                    if "ok" in gl and "ok" in el:
                        d = first_diff(typed(gl["ok"]), typed(el["ok"]))
                        what = "has %s = %s, from scratch %s" % (".".join(map(str, d[0])), fmt_leaf(d[1]), fmt_leaf(d[2]))
                    else:
                        what = "gives %s, from scratch %s" % (gl.get("raised") or "a configuration",
                                                               el.get("raised") or "a configuration")
                    w.violation("after %s: lenient query (ignore_convert_errors=True) of %s on %r %s" % (
                        oplabel, cid, plat, what), witness)
                    return
                if "ok" in gl and b.get("raised") == "FlowIRFailedComponentConvertType":
                    w.count("lenient_resolves_where_strict_raises")
                s3 = outcome(live, cid, plat)
                w.evaluated()
                w.count("strict_after_lenient_compared")
                if not agree(s3, b):
                    key = KEY_LENIENT if served_lenient_entry(s3, b, el, True) else None
                    if "ok" in s3 and "ok" in b:
                        d = first_diff(typed(s3["ok"]), typed(b["ok"]))
                        what = "has %s = %s, from scratch %s" % (".".join(map(str, d[0])), fmt_leaf(d[1]), fmt_leaf(d[2]))
                    else:
                        what = "gives %s, from scratch %s" % (s3.get("raised") or "a configuration",
                                                               b.get("raised") or "a configuration")
                    w.violation("after %s: strict query of %s on %r that follows a lenient one (ignore_convert_errors=True, "
                                "no update in between) %s" % (oplabel, cid, plat, what), witness, finding_key=key)
                    if key is None:
                        return
                elif "raised" in s3 and "ok" in gl:
                    w.count("strict_after_lenient_still_raises")
        if live.raw() != raw0:
            w.violation("queries / changes to returned configurations altered the description itself after %s" % op["op"],
                        {"history": dict(hist, ops=executed), "after_op": k})
            return
    if len(w.samples) < w.max_samples:
        w.sample({"index": index, "hostile": hostile, "wrapped": wrapped, "platform0": platform0,
                  "ops": [dict(o) for o in executed[:12]], "n_ops": n_ops})


def history_header(index):
    r = vlib.rng(PROP, "header", index)
    return {"index": index, "hostile": index % 5 == 4, "wrapped": r.random() < 0.5,
            "with_undefined": r.random() < 0.1, "n_ops": r.randrange(10, 61),
            "platform0_index": r.choice([0, 0, 1, 2]), "seed_derived": r.random() < 0.7,
            "seed_unconvertible": r.random() < 0.25, "lenient": index % 5 != 0}


def run_job(job, w):
    if job["kind"] == "replay":
        run_history(job["history"], w)
        return
    for index in range(job["start"], job["start"] + job["count"]):
        run_history(history_header(index), w)


if "--worker" in sys.argv:
    vlib.worker_main(run_job)


# ----------------------------------------------------------------------------- workload 2

def run_repo_tests(c, modules, scratch, only_nodeid=None):
    """Run repository test modules (a private copy of tests/, so nothing is written under the
    repository) with the contract plugin; returns the Popen object and the JSONL path."""
    tdir = os.path.join(scratch, "tests")
    os.makedirs(tdir, exist_ok=True)
    for p in glob.glob(os.path.join(vlib.REPO, "tests", "*.py")):
        shutil.copy(p, tdir)
    out = os.path.join(scratch, "c08-contract.jsonl")
    tmp = os.path.join(scratch, "tmp")
    os.makedirs(tmp, exist_ok=True)
    env = vlib.child_env({"VERIF_C08_JSONL": out, "TMPDIR": tmp, "HOME": os.environ.get("HOME", tmp)})
    targets = [only_nodeid] if only_nodeid else modules
    cmd = [vlib.PYTHON, "-m", "pytest", "-q", "-p", "no:cacheprovider", "-p", "checks._c08_pytest_plugin",
           "--rootdir", scratch, "-W", "ignore"] + targets
    log = open(os.path.join(scratch, "pytest.log"), "w")
    p = subprocess.Popen(cmd, cwd=scratch, env=env, stdout=log, stderr=subprocess.STDOUT)
    return p, out, log


def judge_repo_tests(c, proc, out, log, scratch, timeout):
    try:
        rc = proc.wait(timeout=timeout)
    except subprocess.TimeoutExpired:
        proc.kill()
        proc.wait()
        rc = None
        c.note_inconclusive("repository tests under contract did not finish in %ds" % timeout)
    log.close()
    n = eq = 0
    tests = set()
    skipped = 0
    if os.path.exists(out):
        with open(out) as f:
            for line in f:
                try:
                    rec = json.loads(line)
                except ValueError:
                    continue
                if rec.get("skipped"):
                    skipped += 1
                    continue
                n += 1
                tests.add(rec.get("nodeid"))
                if rec.get("equal") and rec.get("private", True):
                    eq += 1
                else:
                    c.violation("repository test %s: %s" % (rec.get("nodeid"), rec.get("what")),
                                {"pytest_nodeid": rec.get("nodeid"), "record": rec})
    c.evaluations += n
    c.count("contract_evaluations", n)
    c.count("contract_evaluations_equal", eq)
    c.count("contract_skipped_unbuildable_from_scratch", skipped)
    c.count("contract_tests_reaching_the_contract", len(tests))
    tail = ""
    try:
        with open(os.path.join(scratch, "pytest.log")) as f:
            tail = f.read()[-400:]
    except OSError:
        pass
    c.extra["repo_tests_under_contract"] = {"pytest_rc": rc, "tail": tail.strip().splitlines()[-1:] if tail else []}


def main():
    rp = vlib.load_replay(sys.argv)
    if rp is not None:
        os.environ["VERIF_SEED"] = str(rp.get("seed", 0))   # the initial document is derived from the seed
    c = vlib.Check(
        PROP, "exploration",
        rule="distinct windows of three consecutive operation kinds that end in a compared checkpoint",
        assumptions=[
            "in-place edits through get_*(return_copy=False) references happen immediately after the getter "
            "(a reference kept across a later query and edited afterwards is not an update through the interface)",
            "get_components(return_copy=False), add_platform and environment edits are not part of the workload",
            "update_component / add_component always receive a description with the same stage and name keys, "
            "passed as a private deep copy (insert_copy=True)",
            "platform arguments are platforms of the document, except in the hostile slice (1 history in 5) where "
            "set_platform_global_variable may name a new platform and component names may contain regular-"
            "expression metacharacters (+ $ ?): the two known mechanisms cannot trigger in the other 4 of 5",
            "equality is Python == on the returned dictionaries plus the same type and repr of every scalar leaf "
            "(1, 1.0 and True are different values of a configuration) / the exception class",
            "every checkpoint queries each (component, platform) twice with no update in between; both answers are "
            "compared with from scratch (the second is a cache hit). Queries drawn as operations with other flags "
            "(include_default / is_primitive / ignore_convert_errors) are compared, twice, only when raw=False and "
            "inject_missing_fields=True (a raw or un-injected query shows the description as stored, and the "
            "constructor normalises component descriptions)",
            "typed options receive values with no valid reading for their type (10 % of the writes of int / number / "
            "float / bool options; one option of 25 % of the initial documents). In 4 of 5 histories the checkpoints "
            "also query leniently (ignore_convert_errors=True: every pair whose strict query raised, every third "
            "otherwise) and then strictly again; 1 history in 5 never queries leniently, so the known mechanism "
            "lenient-result-cached-under-strict-label cannot trigger there",
            "command.interpreter / command.expandArguments / workflowAttributes.repeatInterval / isRepeat come from the "
            "initial document (component, blueprints, platform override; 70 % of the histories) and from the option "
            "setters; interpreter values include None (unset) and one unknown name",
            "equal-twin updates (new value == stored value, other type) are drawn for every variable and option "
            "setter; None is only given to variables the written layer does not define yet, never to options",
        ])
    c.max_samples = 3
    scratch = vlib.mkscratch("c08")
    if rp is not None:
        wit = rp["witness"]
        c.sample({"replayed": {k: wit.get(k) for k in ("pytest_nodeid", "after_op", "component", "platform")}})
        if "pytest_nodeid" in wit:
            p, out, log = run_repo_tests(c, [], scratch, only_nodeid=wit["pytest_nodeid"])
            judge_repo_tests(c, p, out, log, scratch, 600)
        else:
            vlib.fanout("checks.C08", [{"kind": "replay", "history": wit["history"]}], c, timeout=300)
        sys.exit(c.finish())

    quick = c.tier == "quick"
    n_hist = 320 if quick else 8000
    proc, out, log = run_repo_tests(c, TEST_MODULES[c.tier], scratch)
    per = 5 if quick else 40            # small jobs: a busy machine must not push one job over the timeout
    jobs = [{"kind": "histories", "start": s, "count": min(per, n_hist - s)} for s in range(0, n_hist, per)]
    vlib.fanout("checks.C08", jobs, c, timeout=2400, nproc=max(1, vlib.NPROC - 1))
    judge_repo_tests(c, proc, out, log, scratch, 1800)
    c.floor("histories", 300 if quick else 8000)
    c.floor("histories_mechanism_free", 240 if quick else 6400)
    c.floor("compared_queries", 10000 if quick else 250000)
    c.floor("compared_both_resolved", 6000 if quick else 150000)
    c.floor("private_copy_probes", 6000 if quick else 150000)
    c.floor("ops_applied", 3000 if quick else 80000)
    c.floor("twin_updates_checked", 300 if quick else 8000)
    c.floor("twin_via_set_platform_stage_variable", 30 if quick else 800)
    c.floor("compared_typed", 6000 if quick else 150000)
    c.floor("cache_hit_queries_compared", 6000 if quick else 150000)
    c.floor("interpreter_components_queried_twice", 3000 if quick else 75000)
    c.floor("repeating_components_queried_twice", 1000 if quick else 25000)
    c.floor("interpreter_set_during_history", 40 if quick else 1000)
    c.floor("flagged_queries_compared", 500 if quick else 12000)
    c.floor("flagged_queries_lenient", 100 if quick else 2500)
    c.floor("lenient_queries_compared", 5000 if quick else 120000)
    c.floor("strict_after_lenient_compared", 5000 if quick else 120000)
    c.floor("lenient_resolves_where_strict_raises", 150 if quick else 4000)
    c.floor("histories_without_lenient_queries", 60 if quick else 1500)
    c.floor("contract_evaluations", 50 if quick else 300)
    sys.exit(c.finish())


if __name__ == "__main__":
    main()
