"""C11 helper: seeded generator of well-formed FlowIR documents (dictionary form), the table of
component options (documented name, documented type, sample valid / certainly-wrong values) and the
exhaustive enumeration of single-fault mutants of a document.

Nothing in here imports the repository.  The ground truth ("this mutant really breaks the document")
comes from construction:
  * a reference is renamed to a producer name that exists nowhere (component, folder, dependency);
  * a dropped component is one that another component references;
  * a back edge is added from an ancestor to one of its descendants (or a self reference);
  * a duplicated id is a verbatim second component with the same (stage, name);
  * a misspelt key is not a documented key of that level;
  * a wrong value can never be read as the documented type (word for a number, list for a scalar,
    scalar for a list, unknown constant for an enumeration);
  * a removed variable is referenced by a component and defined in exactly one layer.
"""
from __future__ import annotations

import copy
import re
from typing import Any, Dict, List, Optional, Tuple

NAMES = ["a", "ab", "a-b", "gen", "x.y", "run_", "A", "post-proc", "b", "c", "sum", "x", "y", "prod", "cons"]
FILES = ["out.txt", "d/o.csv", "msg.txt", "a/b/c.dat", "r-1.log"]
VARS = ["n", "msg", "mx", "m-x", "nt", "walltime", "opt_", "V", "label", "count", "N", "m"]
EXES = ["echo", "cat", "ls", "sh", "python"]
GHOST = "no-such-producer"

# documented keys per level of a component
KEYS = {
    (): ["name", "stage", "references", "variables", "command", "workflowAttributes", "resourceManager",
         "resourceRequest", "executors", "override"],
    ("command",): ["executable", "arguments", "environment", "interpreter", "resolvePath", "expandArguments"],
    ("workflowAttributes",): ["restartHookFile", "aggregate", "replicate", "isMigratable", "isMigrated",
                              "repeatInterval", "shutdownOn", "restartHookOn", "isRepeat", "maxRestarts",
                              "repeatRetries", "memoization", "optimizer"],
    ("workflowAttributes", "memoization"): ["embeddingFunction", "disable"],
    ("workflowAttributes", "memoization", "disable"): ["strong", "fuzzy"],
    ("workflowAttributes", "optimizer"): ["disable", "exploitChance", "exploitTarget", "exploitTargetLow",
                                          "exploitTargetHigh"],
    ("resourceManager",): ["config", "lsf", "kubernetes", "docker"],
    ("resourceManager", "config"): ["backend", "walltime"],
    ("resourceManager", "lsf"): ["statusRequestInterval", "queue", "reservation", "resourceString", "dockerImage",
                                 "dockerProfileApp", "dockerOptions"],
    ("resourceManager", "kubernetes"): ["image", "qos", "image-pull-secret", "namespace", "api-key-var", "host",
                                        "cpuUnitsPerCore", "gracePeriod", "podSpec"],
    ("resourceManager", "docker"): ["image", "imagePullPolicy", "platform"],
    ("resourceRequest",): ["numberProcesses", "numberThreads", "ranksPerNode", "threadsPerCore", "memory", "gpus"],
    ("executors",): ["pre", "main", "post"],
}

WORD = ["many", "perhaps", "soon"]
# path -> (documented type, valid samples, certainly wrong samples [(value, class)])
OPTIONS: Dict[Tuple[str, ...], Tuple[str, List[Any], List[Tuple[Any, str]]]] = {
    ("resourceRequest", "numberProcesses"): ("int", [1, 2, 4], [("many", "word-for-number"), ([2], "list-for-scalar"), ({"n": 2}, "dict-for-scalar")]),
    ("resourceRequest", "numberThreads"): ("int", [1, 2], [("many", "word-for-number"), ([2], "list-for-scalar")]),
    ("resourceRequest", "ranksPerNode"): ("int", [1], [("many", "word-for-number"), ([1], "list-for-scalar")]),
    ("resourceRequest", "threadsPerCore"): ("int", [1, 2], [("two", "word-for-number"), ({"t": 1}, "dict-for-scalar")]),
    ("resourceRequest", "memory"): ("memory", [None, 1048576, "2Gi", "512Mi"], [([1], "list-for-scalar"), ({"m": 1}, "dict-for-scalar")]),
    ("resourceRequest", "gpus"): ("int|none", [None, 1], [("some", "word-for-number"), ([1], "list-for-scalar")]),
    ("workflowAttributes", "aggregate"): ("bool", [True, False], [("perhaps", "word-for-bool"), ([True], "list-for-scalar"), ({"a": 1}, "dict-for-scalar")]),
    ("workflowAttributes", "replicate"): ("int|none", [], [("several", "word-for-number"), ([2], "list-for-scalar")]),
    ("workflowAttributes", "shutdownOn"): ("list[str]", [[], ["KnownIssue"]], [("KnownIssue", "scalar-for-list"), (5, "scalar-for-list"), ({"a": 1}, "dict-for-list")]),
    ("workflowAttributes", "restartHookOn"): ("list[exitReason]", [["ResourceExhausted"], ["KnownIssue", "UnknownIssue"]],
                                              [("KnownIssue", "scalar-for-list"), (["Bogus"], "unknown-constant"), (7, "scalar-for-list")]),
    ("workflowAttributes", "restartHookFile"): ("str|none", [None, "custom_restart.py"], [(["x.py"], "list-for-scalar"), ({"f": "x"}, "dict-for-scalar")]),
    ("workflowAttributes", "maxRestarts"): ("int|none", [None, -1, 0, 3], [("lots", "word-for-number"), ([1], "list-for-scalar")]),
    ("workflowAttributes", "repeatRetries"): ("int|none", [None, 3], [("many", "word-for-number"), ([1], "list-for-scalar")]),
    ("workflowAttributes", "repeatInterval"): ("number|none", [None], [("soon", "word-for-number"), ([1], "list-for-scalar")]),
    ("workflowAttributes", "memoization", "disable", "strong"): ("bool", [True, False], [("perhaps", "word-for-bool"), ([1], "list-for-scalar")]),
    ("workflowAttributes", "memoization", "disable", "fuzzy"): ("bool", [True, False], [("perhaps", "word-for-bool"), ({"a": 1}, "dict-for-scalar")]),
    ("workflowAttributes", "memoization", "embeddingFunction"): ("str|none", [None], [([1], "list-for-scalar"), ({"a": 1}, "dict-for-scalar")]),
    ("resourceManager", "config", "backend"): ("enum", ["local"], [("no-such-backend", "unknown-constant"), (["local"], "list-for-scalar")]),
    ("resourceManager", "config", "walltime"): ("number", [60.0, 10, 1.5], [("long", "word-for-number"), ([1], "list-for-scalar")]),
    ("resourceManager", "lsf", "queue"): ("str", ["normal", "big"], [([1], "list-for-scalar"), ({"a": 1}, "dict-for-scalar")]),
    ("resourceManager", "lsf", "statusRequestInterval"): ("number", [20, 30], [("often", "word-for-number"), ([1], "list-for-scalar")]),
    ("resourceManager", "kubernetes", "gracePeriod"): ("int|none", [None, 30], [("long", "word-for-number"), ([1], "list-for-scalar")]),
    ("resourceManager", "kubernetes", "qos"): ("enum", ["guaranteed", "burstable", "besteffort"], [("platinum", "unknown-constant"), ([1], "list-for-scalar")]),
    ("resourceManager", "kubernetes", "cpuUnitsPerCore"): ("number|none", [None, 1.0], [("fast", "word-for-number"), ([1], "list-for-scalar")]),
    ("resourceManager", "docker", "imagePullPolicy"): ("enum", ["Always", "Never", "IfNotPresent"], [("Sometimes", "unknown-constant"), ([1], "list-for-scalar")]),
    ("command", "resolvePath"): ("bool", [True, False], [("perhaps", "word-for-bool"), ([1], "list-for-scalar")]),
    ("command", "expandArguments"): ("enum", ["double-quote", "none"], [("single-quote", "unknown-constant"), ([1], "list-for-scalar")]),
    ("command", "interpreter"): ("str|none", [None], [([1], "list-for-scalar"), ({"a": 1}, "dict-for-scalar")]),
    ("command", "executable"): ("str", [], [(["echo"], "list-for-scalar"), ({"a": 1}, "dict-for-scalar")]),
    ("command", "arguments"): ("str", [], [(["-l"], "list-for-scalar"), ({"a": 1}, "dict-for-scalar")]),
    ("command", "environment"): ("str|none", [], [(["env"], "list-for-scalar"), ({"A": "b"}, "dict-for-scalar")]),
    ("references",): ("list[str]", [], [(5, "scalar-for-list"), ({"a": 1}, "dict-for-list")]),
    ("stage",): ("int", [], [("first", "word-for-number"), ([0], "list-for-scalar")]),
    ("variables",): ("dict", [], [(["a"], "list-for-dict"), ("x", "scalar-for-dict")]),
    ("executors", "pre"): ("list[executor]", [[]], [("x", "scalar-for-list"), ([{"name": "bogus", "payload": "x"}], "unknown-constant")]),
    ("executors", "post"): ("list[executor]", [[]], [(7, "scalar-for-list"), ([{"name": "bogus", "payload": "x"}], "unknown-constant")]),
}


# ---- mistypings by documented type --------------------------------------------------------------
# The documented type of an option is what a user reads in the FlowIR component schema
# (FlowIR.type_flowir_component) and in the DSL model (frontends/dsl.py); it is written down in OPTIONS.
# For a documented type every KIND of written value gets a verdict that follows from the documentation alone,
# never from running the loader's converter:
#   "wrong" : the statement calls it a wrongly typed option -> the mutant is judged (must be rejected)
#   "info"  : genuinely ambiguous - the loader documents / customarily performs a conversion (a numeric string or
#             an integral float for an integer, 0/1 or 'yes' for a boolean, a number for a string, null for
#             "use the default") -> the outcome on the tree under test is only recorded (info_mistype_* counters)
#   absent  : the value is acceptable for the type, nothing is generated
KIND_VALUES: Dict[str, List[Any]] = {
    "nonintegral-float": [2.5, 0.5, 1.75],
    "integral-float": [2.0, 1.0],
    "int": [2, 0, 7],
    "bool": [True, False],
    "numeric-string": ["2", "1"],
    "nonintegral-numeric-string": ["2.5", "0.5"],
    "word": ["many", "perhaps", "soon"],
    "bool-word": ["yes", "False"],
    "list": [[2], ["x"]],
    "dict": [{"n": 2}],
    "null": [None],
}
W, I = "wrong", "info"
TYPE_VERDICTS: Dict[str, Dict[str, str]] = {
    # an integer: a number with a fraction, text that is not an integer, a container can never be one
    "int": {"nonintegral-float": W, "integral-float": I, "bool": I, "numeric-string": I,
            "nonintegral-numeric-string": W, "word": W, "list": W, "dict": W, "null": I},
    # integer or floating point number
    "number": {"bool": I, "numeric-string": I, "nonintegral-numeric-string": I, "word": W, "list": W, "dict": W,
               "null": I},
    "bool": {"nonintegral-float": W, "integral-float": I, "int": I, "numeric-string": I, "word": W, "bool-word": I,
             "list": W, "dict": W, "null": I},
    "str": {"int": I, "nonintegral-float": I, "bool": I, "list": W, "dict": W, "null": I},
    # one of a few constants: a number is never one of them (YAML reads the constant 'no' as a boolean -> info)
    "enum": {"int": W, "nonintegral-float": W, "bool": I, "list": W, "dict": W, "null": I},
    "list": {"int": W, "nonintegral-float": W, "bool": W, "word": W, "dict": W, "null": I},
    "memory": {"bool": I, "nonintegral-float": I, "list": W, "dict": W},
}
# documented type in OPTIONS -> (row of TYPE_VERDICTS, null is a documented value)
DOC_TYPE_ROW = {
    "int": ("int", False), "int|none": ("int", True), "number": ("number", False), "number|none": ("number", True),
    "bool": ("bool", False), "str": ("str", False), "str|none": ("str", True), "enum": ("enum", False),
    "list[str]": ("list", False), "list[exitReason]": ("list", False), "list[executor]": ("list", False),
    "memory": ("memory", True),
}
# the two descriptions of the option disagree (schema: integer, DSL model: float): a float is not judged
FLOAT_AMBIGUOUS = {("resourceManager", "kubernetes", "gracePeriod")}
# not a component option / structural keys whose mistyping is a different fault (kept to the legacy samples)
LEGACY_ONLY = {("references",), ("stage",), ("variables",), ("executors", "pre"), ("executors", "post"),
               ("command", "executable"), ("command", "arguments"), ("command", "environment")}


def mistypings(path) -> List[Tuple[Any, str, str]]:
    """every mistyping of the option at path: (value, class, verdict).  The legacy samples of OPTIONS (verdict
    wrong) first, then one entry per (kind, sample value) derived from the documented type."""
    doc_type, _, legacy = OPTIONS[path]
    out: List[Tuple[Any, str, str]] = [(v, c, W) for v, c in legacy]
    if path in LEGACY_ONLY or doc_type not in DOC_TYPE_ROW:
        return out
    row, none_ok = DOC_TYPE_ROW[doc_type]
    for kind, verdict in TYPE_VERDICTS[row].items():
        if kind == "null" and none_ok:
            continue
        if path in FLOAT_AMBIGUOUS and kind.endswith("float"):
            verdict = I
        for v in KIND_VALUES[kind]:
            if row == "bool" and kind == "int" and v not in (0, 1, 2):
                continue
            out.append((copy.deepcopy(v), "%s-for-%s" % (kind, row), verdict))
    return out


def cid(c) -> str:
    return "stage%d.%s" % (c.get("stage", 0), c["name"])


# --------------------------------------------------------------------------- base documents

def gen_base(rnd, small: bool = False) -> Dict[str, Any]:
    r = rnd
    n = r.choice([2, 3, 3, 4] if small else [2, 3, 3, 4, 4, 5, 6])
    nstages = r.choice([1, 1, 2, 3])
    stages = sorted(r.randrange(nstages) for _ in range(n))
    remap = {s: k for k, s in enumerate(sorted(set(stages)))}      # stage indices are contiguous from 0
    stages = [remap[s] for s in stages]
    used = set()
    comps: List[Dict[str, Any]] = []
    glob: Dict[str, Any] = {}
    stagev: Dict[int, Dict[str, Any]] = {}
    var_layer: Dict[str, List[Any]] = {}       # variable -> list of layers defining it
    uses: Dict[str, List[str]] = {}            # variable -> components referencing it (directly or via chain)
    envs = {}
    if r.random() < 0.5:
        envs["myenv"] = {"FOO": "bar", "DEFAULTS": "PATH"}
    replicate_root = None
    meta_edges: List[Tuple[int, int]] = []
    data_files: Dict[str, str] = {}
    arrays: List[Dict[str, Any]] = []
    for i in range(n):
        st = stages[i]
        while True:
            nm = r.choice(NAMES)
            if (st, nm) not in used:
                break
        used.add((st, nm))
        c: Dict[str, Any] = {"name": nm, "command": {"executable": r.choice(EXES)}}
        if st or r.random() < 0.5:
            c["stage"] = st
        args = [r.choice(["-l", "--flag", "hello", "x=1"])]
        refs: List[str] = []
        # producers
        prior = list(range(i))
        r.shuffle(prior)
        for j in prior[: r.choice([0, 1, 1, 2])]:
            p = comps[j]
            pst = p.get("stage", 0)
            same = pst == st
            absolute = (not same) or r.random() < 0.5
            who = ("stage%d.%s" % (pst, p["name"])) if absolute else p["name"]
            method = r.choice(["ref", "ref", "output", "copy", "link"])
            f = r.choice(FILES) if (method in ("copy", "link") or r.random() < 0.5) else None
            if method == "output" and r.random() < 0.5:
                f = None
            ref = who + ("/" + f if f else "") + ":" + method
            if ref in refs:
                continue
            refs.append(ref)
            meta_edges.append((j, i))
            if method in ("ref", "output"):
                args.append(r.choice(["", "-i "]) + ref)
        if r.random() < 0.25:
            ref = r.choice(["data/cfg.txt:ref", "data/cfg.txt:copy", "data/sub/other.dat:ref"])
            refs.append(ref)
            data_files[ref.split(":")[0]] = "x\n"
            if ref.endswith(":ref"):
                args.append(ref)
        # variables
        cvars = {}
        for _ in range(r.choice([0, 1, 1, 2])):
            v = r.choice(VARS)
            layer = r.choice(["global", "global", "stage", "component"])
            val = r.choice(["hello", 3, "v v", 1.5, "x_y"])
            if v in var_layer:
                pass
            elif layer == "global":
                glob[v] = val
                var_layer[v] = [("global",)]
            elif layer == "stage":
                stagev.setdefault(st, {})[v] = val
                var_layer[v] = [("stage", st)]
            else:
                cvars[v] = val
                var_layer[v] = [("component", i)]
            # only use it here when it is visible from this component
            vis = any(l == ("global",) or l == ("stage", st) or l == ("component", i) for l in var_layer[v])
            if vis:
                args.append("%(" + v + ")s")
                uses.setdefault(v, []).append(i)
        if r.random() < 0.2:
            # indirect chain: component variable whose value references a global variable
            base = "chain_base_%d" % i
            glob[base] = "cb"
            var_layer[base] = [("global",)]
            cvars["chain_%d" % i] = "pre-%(" + base + ")s"
            var_layer["chain_%d" % i] = [("component", i)]
            args.append("%(chain_" + str(i) + ")s")
            uses.setdefault("chain_%d" % i, []).append(i)
            uses.setdefault(base, []).append(i)
        if cvars:
            c["variables"] = cvars
        if refs:
            c["references"] = refs
        c["command"]["arguments"] = " ".join(a for a in args if a)
        if envs and r.random() < 0.5:
            c["command"]["environment"] = r.choice(["myenv", "none", "environment"])
        # options with valid values
        opts = [p for p in OPTIONS if OPTIONS[p][1]]
        r.shuffle(opts)
        for path in opts[: r.choice([0, 1, 2, 3] if small else [0, 1, 2, 4, 6])]:
            if path == ("workflowAttributes", "aggregate"):
                continue
            val = copy.deepcopy(r.choice(OPTIONS[path][1]))
            d = c
            for k in path[:-1]:
                d = d.setdefault(k, {})
            d[path[-1]] = val
        # numeric option through a variable
        if r.random() < 0.25:
            v = "threads_%d" % i
            glob[v] = r.choice([1, 2, 4])
            var_layer[v] = [("global",)]
            c.setdefault("resourceRequest", {})["numberThreads"] = "%(" + v + ")s"
            uses.setdefault(v, []).append(i)
        # array variables: "%(arr)s[<literal>]" and "%(arr)s[%(idx)s]" (the value is a space separated list)
        if r.random() < 0.45:
            arr, idx = "arr_%d" % i, "idx_%d" % i
            site = r.choice(["arguments", "arguments", "executable", "queue", "threads"])
            if site == "threads" and isinstance(c.get("resourceRequest", {}).get("numberThreads"), str):
                site = "arguments"
            values = {"arguments": ["water", "ethanol", "benzene", "x_y"], "executable": ["echo", "cat", "ls"],
                      "queue": ["normal", "big", "q-c"], "threads": ["1", "2", "4"]}[site]

            def define(name, val):
                layer = r.choice(["global", "stage", "component"])
                if layer == "global":
                    glob[name] = val
                    var_layer[name] = [("global",)]
                elif layer == "stage":
                    stagev.setdefault(st, {})[name] = val
                    var_layer[name] = [("stage", st)]
                else:
                    c.setdefault("variables", {})[name] = val
                    var_layer[name] = [("component", i)]
                uses.setdefault(name, []).append(i)

            define(arr, " ".join(values))
            use_idx = r.random() < 0.75
            if use_idx:
                k = r.randrange(len(values))
                define(idx, k if r.random() < 0.7 else str(k))
                access = "%(" + arr + ")s[%(" + idx + ")s]"
            else:
                access = "%(" + arr + ")s[" + str(r.randrange(len(values))) + "]"
            if site == "arguments":
                extra = " -m " + access
                if use_idx and r.random() < 0.5:
                    extra += " %(" + arr + ")s[" + str(r.randrange(len(values))) + "]"
                c["command"]["arguments"] = (c["command"].get("arguments", "") + extra).strip()
                path = ["command", "arguments"]
            elif site == "executable":
                c["command"]["executable"] = access
                path = ["command", "executable"]
            elif site == "queue":
                c.setdefault("resourceManager", {}).setdefault("lsf", {})["queue"] = access
                path = ["resourceManager", "lsf", "queue"]
            else:
                c.setdefault("resourceRequest", {})["numberThreads"] = access
                path = ["resourceRequest", "numberThreads"]
            arrays.append({"comp": "stage%d.%s" % (st, nm), "arr": arr, "idx": idx if use_idx else None,
                           "path": path, "n": len(values)})
        comps.append(c)
    # replication: a source component replicates; a sink (no consumers) may aggregate
    replicated = False
    if r.random() < 0.3:
        roots = [i for i in range(n) if not any(e[1] == i for e in meta_edges)]
        i = r.choice(roots)
        if r.random() < 0.5:
            comps[i].setdefault("workflowAttributes", {})["replicate"] = r.choice([2, 3])
            if r.random() < 0.5:
                # the documented use of array variables: one item per replica
                glob["per_replica"] = "r-a r-b r-c r-d"
                var_layer["per_replica"] = [("global",)]
                uses.setdefault("per_replica", []).append(i)
                comps[i]["command"]["arguments"] = (comps[i]["command"].get("arguments", "")
                                                    + " %(per_replica)s[%(replica)s]").strip()
                arrays.append({"comp": cid(comps[i]), "arr": "per_replica", "idx": None,
                               "path": ["command", "arguments"], "n": 4, "replica": True})
        else:
            glob["replicas"] = r.choice([2, 3])
            var_layer["replicas"] = [("global",)]
            uses.setdefault("replicas", []).append(i)
            comps[i].setdefault("workflowAttributes", {})["replicate"] = "%(replicas)s"
        replicated = True
        sinks = [j for j in range(n) if not any(e[0] == j for e in meta_edges) and j != i]
        for j in sinks:
            if r.random() < 0.6:
                comps[j].setdefault("workflowAttributes", {})["aggregate"] = True
    doc: Dict[str, Any] = {"components": comps}
    variables: Dict[str, Any] = {}
    if glob or stagev or r.random() < 0.3:
        variables["default"] = {}
        if glob or r.random() < 0.5:
            variables["default"]["global"] = glob
        if stagev:
            variables["default"]["stages"] = stagev
        doc["variables"] = variables
    if envs:
        doc["environments"] = {"default": envs}
    order = list(doc)
    r.shuffle(order)
    doc = {k: doc[k] for k in order}
    if r.random() < 0.3:
        r.shuffle(doc["components"])           # declaration order is not dependency order
    base = {"doc": doc, "files": data_files, "replicated": replicated,
            "ids": sorted(cid(c) for c in comps), "var_layers": {k: v for k, v in var_layer.items()},
            "var_uses": {k: sorted(set(v)) for k, v in uses.items()}, "arrays": arrays,
            "platform": None, "spelled": [], "manifest": {}, "hazard": []}
    name_hazard(base)
    # the literal twin: same document with every reference spelled out; ground truth for edges / targets
    base["lit"] = copy.deepcopy(doc)
    if r.random() < 0.75:
        respell(r, base)
    return base


# --------------------------------------------------------------------------- names that look like folders
# A reference whose first part is a special folder (input, data, bin, conf), a top-level folder of the manifest or
# the name of an application dependency is a DIRECT reference (no producer component).  Those names are reserved
# in exactly that spelling; `Data`, `INPUT`, `Bin`, `conF`, `MyApp` (dependency myapp.application), `Mydata`
# (manifest folder mydata) are ordinary, legal component names and a reference to them - relative or absolute -
# is a component reference.
HAZARD_SPECIAL = ["Data", "INPUT", "Bin", "Conf", "DATA", "Input", "BIN", "conF"]
HAZARD_APPDEP = ["MyApp", "MYAPP", "myApp"]          # application dependency "myapp.application" -> folder myapp
HAZARD_MANIFEST = ["Mydata", "MYDATA", "myData"]      # manifest top-level folder "mydata"


def rename_component(base, index: int, new: str) -> None:
    """rename component #index of base['doc'] (still fully spelled out) and every reference to it"""
    doc = base["doc"]
    comp = doc["components"][index]
    st, old = comp.get("stage", 0), comp["name"]
    for c in doc["components"]:
        refs = c.get("references", [])
        for k, ref in enumerate(list(refs)):
            if ref_target(ref, c.get("stage", 0)) != (st, old):
                continue
            stg, _, f, method = _REF.match(ref).groups()
            nref = ("stage%s." % stg if stg is not None else "") + new + (f or "") + ":" + method
            refs[k] = nref
            c["command"]["arguments"] = replace_token(c["command"].get("arguments", ""), ref, nref)
    comp["name"] = new
    oid, nid = "stage%d.%s" % (st, old), "stage%d.%s" % (st, new)
    base["ids"] = sorted(nid if x == oid else x for x in base["ids"])
    for a in base.get("arrays", []):
        if a["comp"] == oid:
            a["comp"] = nid


def name_hazard(base) -> None:
    """In 2 documents out of 5 one or two components (producers first) are renamed to a name that equals a special
    folder / an application dependency / a manifest folder up to case; the lower-case folder is declared (application
    dependency, manifest handed to both load APIs) half of the time.  Deterministic in the document itself (does not
    consume the generator's random stream)."""
    import json
    import random
    import zlib
    doc = base["doc"]
    hr = random.Random(zlib.crc32(json.dumps(doc, sort_keys=True, default=str).encode()))
    if hr.random() >= 0.4:
        return
    comps = doc["components"]
    producers = sorted({ids for ids, _ in edges_of(doc)})
    order = [i for i, c in enumerate(comps) if cid(c) in producers]
    rest = [i for i in range(len(comps)) if i not in order]
    hr.shuffle(order)
    hr.shuffle(rest)
    used_kinds = set()
    for i in (order + rest)[: hr.choice([1, 1, 2])]:
        kind = hr.choice(["special", "special", "special", "appdep", "manifest"])
        if kind in used_kinds and kind != "special":
            kind = "special"
        used_kinds.add(kind)
        pool = {"special": HAZARD_SPECIAL, "appdep": HAZARD_APPDEP, "manifest": HAZARD_MANIFEST}[kind]
        st = comps[i].get("stage", 0)
        free = [n for n in pool if not any(c.get("stage", 0) == st and c["name"] == n for c in comps)]
        # replication rewrites references textually (recorded under C03): a name that contains, or is contained in,
        # another component's name (e.g. `a` at the end of `myData`) would bring that mechanism into this check
        others = [c["name"] for j, c in enumerate(comps) if j != i]
        free = [n for n in free if not any(o in n or n in o for o in others)]
        if not free:
            continue
        new = hr.choice(free)
        old = cid(comps[i])
        rename_component(base, i, new)
        declared = False
        if kind == "appdep" and hr.random() < 0.5:
            doc["application-dependencies"] = {"default": ["myapp.application"]}
            declared = True
        if kind == "manifest" and hr.random() < 0.5:
            base["manifest"] = {"mydata": "extra/mydata"}
            base["files"]["extra/mydata/readme.txt"] = "x\n"
            declared = True
        base["hazard"].append({"comp": cid(comps[i]), "was": old, "kind": kind, "declared": declared})


# --------------------------------------------------------------------------- references spelled through variables

PLATFORMS = ["plat-b", "hermes", "p2"]
GHOST_STAGE = 7


def spell(r, stg, name, f, method, tag, allow_method=True):
    """One way of writing the reference  [stage<stg>.]<name>[<f>]:<method>  with variables.
    -> (form, text, [(variable, value)]); the first variable is the one that decides the producer."""
    stg = int(stg) if stg is not None else None
    forms = ["producer", "producer", "name"]
    if stg is not None:
        forms += ["stage-number", "stage-prefix", "two"]
    if f:
        forms.append("producer+file")
    form = "method" if (allow_method and r.random() < 0.12) else r.choice(forms)
    prefix = ("stage%d." % stg) if stg is not None else ""
    who = prefix + name
    f = f or ""
    v = tag
    V = "%(" + v + ")s"
    if form == "producer":
        return form, V + f + ":" + method, [(v, who)]
    if form == "name":
        return form, prefix + V + f + ":" + method, [(v, name)]
    if form == "stage-number":
        return form, "stage" + V + "." + name + f + ":" + method, [(v, stg if r.random() < 0.6 else str(stg))]
    if form == "stage-prefix":
        return form, V + "." + name + f + ":" + method, [(v, "stage%d" % stg)]
    if form == "two":
        v2 = tag + "n"
        return form, "stage" + V + ".%(" + v2 + ")s" + f + ":" + method, [(v2, name), (v, stg)]
    if form == "producer+file":
        return form, V + ":" + method, [(v, who + f)]
    return "method", who + f + ":" + V, [(v, method)]


def ghost_value(form, stg, name, f):
    """value of the deciding variable that makes the reference point to a producer that exists nowhere"""
    prefix = ("stage%d." % int(stg)) if stg is not None else ""
    if form == "producer":
        return prefix + GHOST
    if form in ("name", "two"):
        return GHOST
    if form == "stage-number":
        return GHOST_STAGE
    if form == "stage-prefix":
        return "stage%d" % GHOST_STAGE
    if form == "producer+file":
        return prefix + GHOST + (f or "")
    return None


def define_var(d, name, value, layer, ci):
    """define a variable in one layer of document d (ci: index of the component for the component layer)"""
    kind = layer[0]
    if kind == "global":
        d.setdefault("variables", {}).setdefault("default", {}).setdefault("global", {})[name] = value
    elif kind == "stage":
        d.setdefault("variables", {}).setdefault("default", {}).setdefault("stages", {}).setdefault(layer[1], {})[name] = value
    elif kind == "component":
        d["components"][ci].setdefault("variables", {})[name] = value
    elif kind == "platform-global":
        d.setdefault("variables", {}).setdefault(layer[1], {}).setdefault("global", {})[name] = value
    elif kind == "platform-stage":
        d.setdefault("variables", {}).setdefault(layer[1], {}).setdefault("stages", {}).setdefault(layer[2], {})[name] = value
    else:
        raise ValueError(layer)


def undefine_var(d, name, layer) -> bool:
    kind = layer[0]
    try:
        if kind == "global":
            del d["variables"]["default"]["global"][name]
        elif kind == "stage":
            del d["variables"]["default"]["stages"][layer[1]][name]
        elif kind == "platform-global":
            del d["variables"][layer[1]]["global"][name]
        elif kind == "platform-stage":
            del d["variables"][layer[1]]["stages"][layer[2]][name]
        else:
            done = False
            for cc in d["components"]:          # components may have been shuffled: find by content
                if name in cc.get("variables", {}):
                    del cc["variables"][name]
                    done = True
            return done
    except KeyError:
        return False
    return True


def replace_token(text: str, old: str, new: str) -> str:
    return " ".join(new if t == old else t for t in text.split(" "))


def replicated_producers(lit) -> set:
    desc = descendants(lit)
    out = set()
    for c in lit["components"]:
        if c.get("workflowAttributes", {}).get("replicate") is not None:
            out.add(cid(c))
            out |= desc[cid(c)]
    return out


def respell(r, base) -> None:
    """Rewrite some component references of base['doc'] so that they are spelled through variables
    (producer, producer name, stage number, stage prefix, producer and file, method held in a global /
    stage / component / platform variable or a chain).  base['lit'] keeps the spelled-out twin.
    A reference whose producer replicates keeps its literal spelling: replication does not follow
    references spelled with variables (the loader rejects such a document as a dangling reference)."""
    doc, lit = base["doc"], base["lit"]
    banned = replicated_producers(lit)
    sites = []
    for i, c in enumerate(lit["components"]):
        for k, ref in enumerate(c.get("references", [])):
            t = ref_target(ref, c.get("stage", 0))
            if t and ("stage%d.%s" % t) not in banned:
                sites.append((i, k))
    if not sites:
        return
    platform = r.choice(PLATFORMS) if r.random() < 0.35 else None
    chosen = [s for s in sites if r.random() < 0.75] or [r.choice(sites)]
    styles = ["prod_%d", "src-%d", "P%d", "ref%d_"]
    for n, (i, k) in enumerate(chosen):
        c = doc["components"][i]
        st = c.get("stage", 0)
        ref = c["references"][k]
        stg, name, f, method = _REF.match(ref).groups()
        if stg is None and r.random() < 0.3:
            stg = str(st)                       # a relative reference may as well be held in absolute form
        form, text, vs = spell(r, stg, name, f, method, r.choice(styles) % n)
        layers = ["global", "stage", "component", "chain"]
        if platform:
            layers += ["platform-global", "platform-stage", "platform-over-global", "platform-over-stage"]
            if n == 0:
                layers = layers[4:]
        recs = []
        for vi, (v, val) in enumerate(vs):
            lay = r.choice(layers)
            if lay == "chain":
                inner = v + "_b"
                define_var(doc, inner, val, ("global",), i)
                define_var(doc, v, "%(" + inner + ")s", ("component", i), i)
                base["var_layers"][inner] = [("global",)]
                base["var_layers"][v] = [("component", i)]
                base["var_uses"][inner] = [i]
                base["var_uses"][v] = [i]
                recs.append({"name": v, "value": val, "layers": [["component", i]], "chain": inner})
                continue
            if lay == "global":
                ls = [("global",)]
            elif lay == "stage":
                ls = [("stage", st)]
            elif lay == "component":
                ls = [("component", i)]
            elif lay == "platform-global":
                ls = [("platform-global", platform)]
            elif lay == "platform-stage":
                ls = [("platform-stage", platform, st)]
            elif lay == "platform-over-global":
                # the default platform holds a value that would dangle; the selected platform overrides it
                ls = [("global",), ("platform-global", platform)]
            else:
                ls = [("stage", st), ("platform-stage", platform, st)]
            for li, l in enumerate(ls):
                wrong = ghost_value(form, stg, name, f) if vi == 0 else GHOST_STAGE
                define_var(doc, v, val if li == len(ls) - 1 else (wrong if wrong is not None else "link"), l, i)
            base["var_layers"][v] = list(ls)
            base["var_uses"][v] = [i]
            recs.append({"name": v, "value": val, "layers": [list(l) for l in ls]})
        args = c["command"].get("arguments", "")
        in_args = ref in args.split(" ")
        where = "list+args" if in_args else "list"
        args_text = None
        if in_args:
            roll = r.random()
            if roll < 0.65:
                args_text = text
            elif roll < 0.85:
                args_text = ref                  # list through the variable, command line spelled out
                where = "list"
            else:
                args_text = text                 # list spelled out, only the command line uses the variable
                where = "args"
            c["command"]["arguments"] = replace_token(args, ref, args_text)
        if where != "args":
            c["references"][k] = text
        base["spelled"].append({"i": i, "k": k, "comp": cid(c), "lit": ref, "text": c["references"][k],
                                "args": args_text, "form": form, "where": where, "vars": recs,
                                "stg": stg, "hidden": form != "method" and where != "args"})
    if platform:
        doc.setdefault("variables", {}).setdefault(platform, {}).setdefault("global", {})
        base["platform"] = platform


# --------------------------------------------------------------------------- helpers over documents

_REF = re.compile(r"^(?:stage(\d+)\.)?([^/:]+)(/[^:]*)?:(\w+)$")
DIRECT = ("data", "input", "bin", "conf")


def ref_target(ref: str, my_stage: int) -> Optional[Tuple[int, str]]:
    m = _REF.match(ref)
    if not m:
        return None
    if m.group(1) is None and m.group(2) in DIRECT:
        return None
    st = int(m.group(1)) if m.group(1) is not None else my_stage
    return st, m.group(2)


def edges_of(doc) -> List[Tuple[str, str]]:
    out = []
    for c in doc["components"]:
        for ref in c.get("references", []):
            t = ref_target(ref, c.get("stage", 0))
            if t:
                out.append(("stage%d.%s" % t, cid(c)))
    return out


def descendants(doc) -> Dict[str, set]:
    es = edges_of(doc)
    succ: Dict[str, set] = {}
    for a, b in es:
        succ.setdefault(a, set()).add(b)
    out = {}
    for c in doc["components"]:
        seen = set()
        todo = [cid(c)]
        while todo:
            x = todo.pop()
            for y in succ.get(x, ()):
                if y not in seen:
                    seen.add(y)
                    todo.append(y)
        out[cid(c)] = seen
    return out


def misspellings(key: str, valid: List[str], rnd=None) -> List[str]:
    cands = []
    for k in (key[:-1], key + "s", key.lower(), key[0].swapcase() + key[1:],
              re.sub(r"([A-Z])", lambda m: "-" + m.group(1).lower(), key), key.replace("-", "_")):
        if k and k != key and k not in valid and k not in cands:
            cands.append(k)
    if rnd is not None and cands:
        return [rnd.choice(cands)]
    return cands[:2]


# --------------------------------------------------------------------------- reading a document back (classifiers)

_VAR = re.compile(r"%\(([^()]+)\)s")


def visible_variables(doc, comp, platform=None) -> Dict[str, Any]:
    """variables a component sees: default global < platform global < default stage < platform stage < component
    (the generator never defines one variable in two layers of different kind, so only 'platform over default of
    the same kind' and 'single layer' matter)"""
    out: Dict[str, Any] = {}
    allv = doc.get("variables") or {}
    st = comp.get("stage", 0)
    plats = ["default"] + ([platform] if platform and platform != "default" else [])
    for p in plats:
        sec = allv.get(p)
        if isinstance(sec, dict) and isinstance(sec.get("global"), dict):
            out.update(sec["global"])
    for p in plats:
        sec = allv.get(p)
        if isinstance(sec, dict) and isinstance(sec.get("stages"), dict):
            for key in (st, str(st)):
                if isinstance(sec["stages"].get(key), dict):
                    out.update(sec["stages"][key])
    if isinstance(comp.get("variables"), dict):
        out.update(comp["variables"])
    return out


def interpolate(text: str, variables: Dict[str, Any]) -> str:
    for _ in range(6):
        new = _VAR.sub(lambda m: str(variables[m.group(1)]) if m.group(1) in variables else m.group(0), text)
        if new == text:
            break
        text = new
    return text


def resolved_edges(doc, platform=None) -> List[Tuple[str, str, bool]]:
    """(producer id, consumer id, producer spelled with a variable) for every component reference of doc"""
    out = []
    for c in doc.get("components", []):
        if not isinstance(c, dict) or not isinstance(c.get("references"), list) or "name" not in c:
            continue
        vs = visible_variables(doc, c, platform)
        for ref in c["references"]:
            if not isinstance(ref, str):
                continue
            producer_part = re.split(r"[/:]", ref, maxsplit=1)[0]
            t = ref_target(interpolate(ref, vs), c.get("stage", 0))
            if t:
                out.append(("stage%d.%s" % t, cid(c), "%(" in producer_part))
    return out


# --------------------------------------------------------------------------- mutants

def mutants(rnd, base: Dict[str, Any], all_values: bool = True) -> List[Dict[str, Any]]:
    doc = base["doc"]
    comps = doc["components"]
    out: List[Dict[str, Any]] = []

    def add(kind, cls, d, where, **kw):
        out.append({"kind": kind, "class": cls, "doc": d, "where": where, **kw})

    ids = {cid(c): i for i, c in enumerate(comps)}
    lit = base.get("lit") or doc                 # the spelled-out twin decides targets, edges and descendants
    lcomps = lit["components"]
    platform = base.get("platform")
    spelled = {(s["i"], s["k"]): s for s in base.get("spelled", [])}
    es = edges_of(lit)
    hidden_targets = set()
    for (i, k), s in spelled.items():
        if s["hidden"]:
            t = ref_target(s["lit"], lcomps[i].get("stage", 0))
            hidden_targets.add("stage%d.%s" % t)

    def new_layer(ci):
        st = comps[ci].get("stage", 0)
        ls = [("global",), ("stage", st), ("component", ci)]
        if platform:
            ls += [("platform-global", platform), ("platform-stage", platform, st)]
        return rnd.choice(ls)

    # -- drop a referenced component
    for pid in sorted({a for a, b in es}):
        d = copy.deepcopy(doc)
        del d["components"][ids[pid]]
        add("drop-referenced-component", "dangling-reference", d, [pid], via_variable=pid in hidden_targets)
    # -- rename a reference (both spellings / only in the references list)
    for i, c in enumerate(comps):
        for k, cur in enumerate(c.get("references", [])):
            ref = lcomps[i]["references"][k]
            t = ref_target(ref, c.get("stage", 0))
            if not t:
                continue
            sp = spelled.get((i, k))
            m = _REF.match(ref)
            new = ("stage%s." % m.group(1) if m.group(1) is not None else "") + GHOST + (m.group(3) or "") + ":" + m.group(4)
            d = copy.deepcopy(doc)
            d["components"][i]["references"][k] = new
            a = d["components"][i]["command"].get("arguments", "")
            na = replace_token(replace_token(a, cur, new), ref, new)
            if sp and sp.get("args"):
                na = replace_token(na, sp["args"], new)
            d["components"][i]["command"]["arguments"] = na
            add("rename-reference", "dangling-reference", d, [cid(c), "references", k], spell=sp["form"] if sp else None)
            if na != a:
                d = copy.deepcopy(doc)
                d["components"][i]["references"][k] = new
                add("rename-reference-in-list-only", "dangling-reference", d, [cid(c), "references", k],
                    spell=sp["form"] if sp else None)
            if sp and sp["hidden"]:
                # the reference is held in a variable: the fault is a variable whose value names a producer
                # that exists nowhere (the effective layer is the last one)
                rec = sp["vars"][0]
                gv = ghost_value(sp["form"], sp["stg"], m.group(2), m.group(3))
                if gv is not None:
                    d = copy.deepcopy(doc)
                    if rec.get("chain"):
                        define_var(d, rec["chain"], gv, ("global",), i)
                    else:
                        define_var(d, rec["name"], gv, tuple(rec["layers"][-1]), i)
                    add("rename-reference-in-variable", "dangling-reference", d, [cid(c), "references", k],
                        spell=sp["form"], variable=rec["name"])
            elif not sp:
                # a spelled-out reference is replaced by one that reaches the missing producer through a variable
                form, text, vs = spell(rnd, m.group(1), GHOST, m.group(3), m.group(4), "ghost_ref", allow_method=False)
                d = copy.deepcopy(doc)
                for v, val in vs:
                    define_var(d, v, val, new_layer(i), i)
                d["components"][i]["references"][k] = text
                a = d["components"][i]["command"].get("arguments", "")
                d["components"][i]["command"]["arguments"] = replace_token(a, ref, text)
                add("rename-reference-through-variable", "dangling-reference", d, [cid(c), "references", k], spell=form)
    # -- add an edge that closes a cycle (ancestor consumes from descendant), and self references
    desc = descendants(lit)

    def closing_edge(i, did, method, in_args, through_variable, relative=False):
        d = copy.deepcopy(doc)
        cc = d["components"][i]
        form = None
        if relative:
            did = did.split(".", 1)[1]           # same stage: the producer may be named without its stage
        if through_variable:
            stg, name = _REF.match(did + ":ref").groups()[:2]
            form, ref, vs = spell(rnd, stg, name, None, method, "back_", allow_method=False)
            for v, val in vs:
                define_var(d, v, val, new_layer(i), i)
        else:
            ref = did + ":" + method
        if ref in lcomps[i].get("references", []):
            return None, None
        cc.setdefault("references", []).append(ref)
        if in_args:
            cc["command"]["arguments"] = (cc["command"].get("arguments", "") + " " + ref).strip()
        return d, form

    for i, c in enumerate(comps):
        for did in sorted(desc[cid(c)]):
            for method, in_args in (("ref", True), ("copy", False)):
                d, _ = closing_edge(i, did, method, in_args, False)
                if d is not None:
                    add("back-edge", "cycle", d, [cid(c), did], method=method)
            if did.startswith("stage%d." % c.get("stage", 0)):
                method, in_args = rnd.choice([("ref", True), ("copy", False), ("output", True)])
                d, _ = closing_edge(i, did, method, in_args, False, relative=True)
                if d is not None:
                    add("back-edge", "cycle", d, [cid(c), did], method=method, relative=True)
            method, in_args = rnd.choice([("ref", True), ("copy", False), ("output", True), ("link", False)])
            d, form = closing_edge(i, did, method, in_args, True)
            add("back-edge-through-variable", "cycle", d, [cid(c), did], method=method, spell=form)
        d, _ = closing_edge(i, cid(c), "ref", True, False)
        add("self-reference", "cycle", d, [cid(c)])
        d, _ = closing_edge(i, cid(c), "ref", True, False, relative=True)
        add("self-reference", "cycle", d, [cid(c)], relative=True)
        method, in_args = rnd.choice([("ref", True), ("ref", True), ("copy", False)])
        d, form = closing_edge(i, cid(c), method, in_args, True)
        add("self-reference-through-variable", "cycle", d, [cid(c)], spell=form)
    # -- duplicate an identifier
    for i, c in enumerate(comps):
        d = copy.deepcopy(doc)
        dup = copy.deepcopy(c)
        if rnd.random() < 0.5:
            dup["command"]["arguments"] = "different"
            dup.pop("references", None)
        d["components"].insert(rnd.randint(0, len(comps)), dup)
        add("duplicate-id", "duplicate-id", d, [cid(c)])
    # -- misspell / add unknown keys at every level of every component
    for i, c in enumerate(comps):
        def walk(node, path):
            valid = KEYS.get(path)
            if valid is None:
                return
            for key in list(node):
                if key in valid:
                    for bad in misspellings(key, valid, rnd):
                        d = copy.deepcopy(doc)
                        n = d["components"][i]
                        for k in path:
                            n = n[k]
                        n[bad] = n.pop(key)
                        if path == () and key == "name":
                            continue           # renaming 'name' is a different fault (missing name)
                        add("misspelt-key", "unknown-key", d, [cid(c)] + list(path) + [bad], level=list(path), original=key)
                    if isinstance(node[key], dict):
                        walk(node[key], path + (key,))
            d = copy.deepcopy(doc)
            n = d["components"][i]
            for k in path:
                n = n[k]
            n["bogusOption"] = 1
            add("extra-key", "unknown-key", d, [cid(c)] + list(path) + ["bogusOption"], level=list(path))
        walk(c, ())
    # -- wrong type: every present option, and two absent ones per component
    for i, c in enumerate(comps):
        present, absent = [], []
        for path in OPTIONS:
            n = c
            ok = True
            for k in path:
                if isinstance(n, dict) and k in n:
                    n = n[k]
                else:
                    ok = False
                    break
            (present if ok else absent).append(path)
        rnd.shuffle(absent)
        positions = present + absent[:2]
        repl = ("workflowAttributes", "replicate")
        if repl not in positions and rnd.random() < 0.5:
            positions.append(repl)               # the integer option that the replication step reads by itself
        st = c.get("stage", 0)
        for path in positions:
            if path == ("stage",) or path == ("references",):
                if path not in present:
                    continue
            every = mistypings(path)
            legacy = [m for m in every if m[2] == W][:len(OPTIONS[path][2])]
            derived: Dict[str, List[Any]] = {}
            for val, cls, verdict in every[len(legacy):]:
                if verdict == W:
                    derived.setdefault(cls, []).append(val)
            ambiguous = [m for m in every if m[2] == I]

            def pick_derived(n):
                classes = sorted(derived)
                out_ = []
                for _ in range(min(n, len(classes))):
                    # scalar kinds are what the legacy samples do not cover: three times the weight of containers
                    weights = [1 if (k.startswith("list-") or k.startswith("dict-")) else 3 for k in classes]
                    k = rnd.choices(classes, weights)[0]
                    classes.remove(k)
                    out_.append((rnd.choice(derived[k]), k))
                return out_

            if all_values:
                wrong = [(v, k) for v, k, _ in legacy] + pick_derived(2)
            elif derived and rnd.random() < 0.65:
                wrong = pick_derived(1)
            else:
                v, k, _ = legacy[rnd.randrange(len(legacy))]
                wrong = [(v, k)]                 # every position, one wrong value each
            todo = [(v, k, False) for v, k in wrong]
            if ambiguous and rnd.random() < (0.3 if all_values else 0.2):
                v, k, _ = ambiguous[rnd.randrange(len(ambiguous))]
                todo.append((v, k, True))
            for val, cls, info in todo:
                # where the option is written: the component body, the component's override for the platform being
                # loaded, or a blueprint (global / stage) of the loaded or the default platform.  A blueprint only
                # for an option the body does not set (no shadowing: the written value is the effective one)
                locs = ["body"]
                if path not in LEGACY_ONLY:
                    locs = ["body"] * 5 + ["override"] * 2
                    if path not in present:
                        locs += ["blueprint-global", "blueprint-stage", "blueprint-global-default" if platform else "blueprint-stage"]
                loc = rnd.choice(locs)
                d = copy.deepcopy(doc)
                plat = platform or "default"
                if loc == "body":
                    n = d["components"][i]
                elif loc == "override":
                    n = d["components"][i].setdefault("override", {}).setdefault(plat, {})
                elif loc == "blueprint-global":
                    n = d.setdefault("blueprint", {}).setdefault(plat, {}).setdefault("global", {})
                elif loc == "blueprint-global-default":
                    n = d.setdefault("blueprint", {}).setdefault("default", {}).setdefault("global", {})
                else:
                    n = d.setdefault("blueprint", {}).setdefault(plat, {}).setdefault("stages", {}).setdefault(st, {})
                for k in path[:-1]:
                    if not isinstance(n.get(k), dict):
                        n[k] = {}
                    n = n[k]
                n[path[-1]] = copy.deepcopy(val)
                if info:
                    add("mistype_%s_%s" % (cls, "body" if loc == "body" else "layer"), "info", d, [cid(c)] + list(path),
                        doc_type=OPTIONS[path][0], value=val, location=loc, info_only=True)
                else:
                    add("wrong-type", cls, d, [cid(c)] + list(path), doc_type=OPTIONS[path][0], value=val,
                        was_present=path in present, location=loc)
    # -- remove a variable that a component uses and that exactly one layer defines
    refvars = set()
    for sp in base.get("spelled", []):
        for rec in sp["vars"]:
            refvars.add(rec["name"])
            if rec.get("chain"):
                refvars.add(rec["chain"])
    for v, layers in base["var_layers"].items():
        if len(layers) != 1 or not base["var_uses"].get(v):
            continue
        layer = layers[0]
        d = copy.deepcopy(doc)
        if not undefine_var(d, v, layer):
            continue
        kind = "remove-variable"
        if v in refvars:
            kind = "remove-reference-variable"
        if v in {a["arr"] for a in base.get("arrays", [])}:
            kind = "remove-array-variable"
        elif v in {a["idx"] for a in base.get("arrays", [])}:
            kind = "remove-index-variable"
        add(kind, "undefined-variable", d, [v, list(layer)],
            replica_index=any(a.get("replica") and a["arr"] == v for a in base.get("arrays", [])))
    # -- array accesses: rename the array / the index variable at the place of use; out-of-range index (info)
    for a in base.get("arrays", []):
        ci = ids.get(a["comp"])
        if ci is None:
            continue

        def site(d):
            n = d["components"][ci]
            for k in a["path"][:-1]:
                n = n[k]
            return n, a["path"][-1]

        try:
            text = site(doc)[0][site(doc)[1]]
        except (KeyError, TypeError):
            continue
        if not isinstance(text, str):
            continue
        d = copy.deepcopy(doc)
        n, k = site(d)
        n[k] = text.replace("%(" + a["arr"] + ")s[", "%(no_such_array)s[")
        if n[k] != text:
            add("rename-array-at-use", "undefined-variable", d, [a["comp"]] + a["path"], variable=a["arr"],
                replica_index=bool(a.get("replica")))
        if a["idx"]:
            d = copy.deepcopy(doc)
            n, k = site(d)
            n[k] = text.replace("[%(" + a["idx"] + ")s]", "[%(no_such_index)s]")
            if n[k] != text:
                add("rename-index-at-use", "undefined-variable", d, [a["comp"]] + a["path"], variable=a["idx"])
        if not a.get("replica"):
            d = copy.deepcopy(doc)
            n, k = site(d)
            n[k] = re.sub(r"(%\(" + re.escape(a["arr"]) + r"\)s)\[[^\]]*\]", r"\1[%d]" % (a["n"] + 5), text, count=1)
            if n[k] != text:
                add("index-out-of-range", "info", d, [a["comp"]] + a["path"], info_only=True)
    # -- (information only) a fault inside the override section of a platform that is NOT the one being loaded
    other = "other-plat"
    i = rnd.randrange(len(comps))
    for kind, ov in (("override-unselected-platform-valid", {"resourceRequest": {"numberThreads": 2}}),
                     ("override-unselected-platform-extra-key", {"resourceRequest": {"numberThreads": 2, "bogusOption": 1}}),
                     ("override-unselected-platform-wrong-type", {"resourceRequest": {"numberThreads": "many"}})):
        d = copy.deepcopy(doc)
        d["components"][i].setdefault("override", {})[other] = ov
        d["platforms"] = ["default", other] + ([platform] if platform else [])
        add(kind, "info", d, [cid(comps[i]), "override", other], info_only=True)
    # -- the variable `replica` exists only inside the replicas of a replicating component (and of its descendants
    #    up to an aggregating one).  (a) take away the replication that defines it for a component that uses it;
    #    (b) use it in a component outside any replication.  Both leave an undefined variable behind.
    closure = replicated_producers(lit)
    inside = {x for x in closure
              if not lcomps[ids[x]].get("workflowAttributes", {}).get("aggregate")}
    for a in base.get("arrays", []):
        if not a.get("replica") or a["comp"] not in ids:
            continue
        ci = ids[a["comp"]]
        if comps[ci].get("workflowAttributes", {}).get("replicate") is None:
            continue
        for how in ("missing", 0, None):
            d = copy.deepcopy(doc)
            wa = d["components"][ci]["workflowAttributes"]
            if how == "missing":
                del wa["replicate"]
            else:
                wa["replicate"] = how
            add("remove-replication", "undefined-variable", d, [a["comp"], "workflowAttributes", "replicate"],
                how=repr(how), use="array-index")
    outside = [i for i, c in enumerate(comps) if cid(c) not in inside]
    rnd.shuffle(outside)
    for i in outside[:2]:
        c = comps[i]
        form = rnd.choice(["arguments-plain", "arguments-array", "arguments-array", "component-variable",
                           "executable-array", "global-variable"])
        d = copy.deepcopy(doc)
        cc = d["components"][i]
        st = c.get("stage", 0)
        layer = rnd.choice([("global",), ("stage", st), ("component", i)])
        args = cc["command"].get("arguments", "")
        if form == "arguments-plain":
            cc["command"]["arguments"] = (args + " -r %(replica)s").strip()
        elif form == "arguments-array":
            define_var(d, "rep_arr", "r-a r-b r-c", layer, i)
            cc["command"]["arguments"] = (args + " %(rep_arr)s[%(replica)s]").strip()
        elif form == "component-variable":
            define_var(d, "rep_v", "r%(replica)s", ("component", i), i)
            cc["command"]["arguments"] = (args + " %(rep_v)s").strip()
        elif form == "global-variable":
            define_var(d, "rep_g", "r%(replica)s", ("global",), i)
            cc["command"]["arguments"] = (args + " %(rep_g)s").strip()
        else:
            define_var(d, "rep_exe", "echo cat ls", layer, i)
            cc["command"]["executable"] = "%(rep_exe)s[%(replica)s]"
        add("replica-outside-replication", "undefined-variable", d, [cid(c)], use=form,
            aggregating=bool(c.get("workflowAttributes", {}).get("aggregate")))
    return out
