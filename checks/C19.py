"""C19 - The legacy (DOSINI) configuration format round-trips an instance.

Workload: a covering generator of FlowIR documents restricted to what the legacy sectioned-file
format can express (component options of the local / lsf / kubernetes backends, resource request,
workflow attributes incl. memoization and optimizer, lsf-dm executors, references, component /
stage / global / platform variables, environments, replication, status and output sections).

For every document D:   C = FlowIRConcrete(D, platform)
  route A:  Dosini.dump(C.instance(), dir, is_instance=True) (+ _dump_status/_dump_output, as
            the instance writer does) -> Dosini.load_from_directory(dir, is_instance=True) -> C'
  route B (a slice): D is written as a legacy *package*, loaded through
            DOSINIExperimentConfiguration(createInstanceFiles=True) [C], which writes the instance
            files, and the instance is loaded again through DOSINIExperimentConfiguration(
            is_instance=True) [C'].
Oracle: for every component the resolved configuration (get_component_configuration(raw=False):
command, references, variables, workflowAttributes, resourceManager, resourceRequest, executors)
is equal in C and C'; every environment used or defined, the status section and the output section
are equal.  Differences are reported per leaf, so one recorded finding does not hide another.
Coverage: every option key of the legacy format must have been written (seen in the files) with a
non-default value.
The number of stages is a boundary dimension: besides 1-4 stages, a share of the documents has 9, 10, 11, 12, 13,
16, 20, 24 stages (sparse: mostly one tiny component per stage, some fully optioned ones, stage variables on the high
stages too), in both routes; floors demand documents with >= 11 stages per route and compared components / stage
variables / options living in stages >= 10.
Environment names are generated structurally (gen_env_name): among others names that embed the format's own
section prefix ENV- (any case; at the start, inside, at the end, repeated), reserved section names as parts of
longer names, names spelled with the prefix's characters only; floors demand that such names were round-tripped
and that components used them.
"""
import configparser
import copy
import glob
import os
import shutil
import sys

import vlib
from checks._c09c19c20_util import quiet, finish_replay

quiet()
vlib.bootstrap()

PROP = "C19"
KEY_MAXRESTARTS = "C19:max-restarts-written-but-parser-tests-maxRestarts"
KEY_OUTPUT_NONE = "C19:output-optional-key-absent-in-file-loaded-as-None"

# legacy option keys (from the legacy-format documentation / the dump tables), used for the coverage floor
LEGACY_KEYS = [
    'executable', 'arguments', 'environment', 'resolvePath', 'interpreter', 'expandArguments', 'references',
    'shutdown-on', 'restart-hook-on', 'restart-hook-file', 'repeatRetries', 'max-restarts', 'replicate', 'aggregate',
    'repeat-interval', 'isMigratable',
    'optimizerDisable', 'optimizerExploitChance', 'optimizerExploitTarget', 'optimizerExploitTargetLow',
    'optimizerExploitTargetHigh', 'memoization-disable-strong', 'memoization-disable-fuzzy',
    'memoization-embedding-function',
    'job-type', 'walltime', 'queue', 'reservation', 'resourceString', 'statusRequestInterval', 'lsf-docker-image',
    'lsf-docker-profile-app', 'lsf-docker-options',
    'k8s-image', 'k8s-image-pull-secret', 'k8s-api-key-var', 'k8s-host', 'k8s-namespace', 'k8s-cpu-units-per-core',
    'k8s-grace-period',
    'numberProcesses', 'numberThreads', 'ranksPerNode', 'threadsPerCore', 'memory',
    'rstage-in', 'rstage-out',
]
# (flowir path) -> legacy key, for options whose non-default value the generator sets
OPTIONS = {
    'command.arguments': 'arguments', 'command.environment': 'environment', 'command.resolvePath': 'resolvePath',
    'command.interpreter': 'interpreter', 'command.expandArguments': 'expandArguments',
    'references': 'references',
    'workflowAttributes.shutdownOn': 'shutdown-on', 'workflowAttributes.restartHookOn': 'restart-hook-on',
    'workflowAttributes.restartHookFile': 'restart-hook-file', 'workflowAttributes.repeatRetries': 'repeatRetries',
    'workflowAttributes.maxRestarts': 'max-restarts', 'workflowAttributes.replicate': 'replicate',
    'workflowAttributes.aggregate': 'aggregate', 'workflowAttributes.repeatInterval': 'repeat-interval',
    'workflowAttributes.isMigratable': 'isMigratable',
    'workflowAttributes.optimizer.disable': 'optimizerDisable',
    'workflowAttributes.optimizer.exploitChance': 'optimizerExploitChance',
    'workflowAttributes.optimizer.exploitTarget': 'optimizerExploitTarget',
    'workflowAttributes.optimizer.exploitTargetLow': 'optimizerExploitTargetLow',
    'workflowAttributes.optimizer.exploitTargetHigh': 'optimizerExploitTargetHigh',
    'workflowAttributes.memoization.disable.strong': 'memoization-disable-strong',
    'workflowAttributes.memoization.disable.fuzzy': 'memoization-disable-fuzzy',
    'workflowAttributes.memoization.embeddingFunction': 'memoization-embedding-function',
    'resourceManager.config.backend': 'job-type', 'resourceManager.config.walltime': 'walltime',
    'resourceManager.lsf.queue': 'queue', 'resourceManager.lsf.reservation': 'reservation',
    'resourceManager.lsf.resourceString': 'resourceString',
    'resourceManager.lsf.statusRequestInterval': 'statusRequestInterval',
    'resourceManager.lsf.dockerImage': 'lsf-docker-image',
    'resourceManager.lsf.dockerProfileApp': 'lsf-docker-profile-app',
    'resourceManager.lsf.dockerOptions': 'lsf-docker-options',
    'resourceManager.kubernetes.image': 'k8s-image',
    'resourceManager.kubernetes.image-pull-secret': 'k8s-image-pull-secret',
    'resourceManager.kubernetes.api-key-var': 'k8s-api-key-var', 'resourceManager.kubernetes.host': 'k8s-host',
    'resourceManager.kubernetes.namespace': 'k8s-namespace',
    'resourceManager.kubernetes.cpuUnitsPerCore': 'k8s-cpu-units-per-core',
    'resourceManager.kubernetes.gracePeriod': 'k8s-grace-period',
    'resourceRequest.numberProcesses': 'numberProcesses', 'resourceRequest.numberThreads': 'numberThreads',
    'resourceRequest.ranksPerNode': 'ranksPerNode', 'resourceRequest.threadsPerCore': 'threadsPerCore',
    'resourceRequest.memory': 'memory',
    'executors.pre.lsf-dm-in': 'rstage-in', 'executors.post.lsf-dm-out': 'rstage-out',
}

EXIT_REASONS_RESTART = ['ResourceExhausted', 'KnownIssue', 'SystemIssue', 'UnknownIssue', 'SubmissionFailed', 'Success']
EXIT_REASONS_SHUTDOWN = ['KnownIssue', 'SystemIssue', 'UnknownIssue', 'ResourceExhausted', 'Killed']

_STR = ['x', 'a b c', 'key=val', 'p:q', 'semi;colon', 'mid#hash', '/abs/path/to', '$HOME/x', "quo'te", 'dq"x"',
        'UPPER', '1e3', '007', 'true', 'no', '-flag --long=1', 'tab\there', 'comma,sep', 'unicode-é', '[brackets]',
        'back\\slash', '100%%', 'a  double  space']
_VARNAMES = ['gv', 'sv', 'cv', 'n', 'nsteps', 'my-var', 'my_var2', 'MixedCase', 'UPPER_VAR', 'x1', 'path_to',
             'stage-name', 'release', 'b', 'CV']
_COMPNAMES = ['gen', 'Sim', 'post-proc', 'a.b', 'comp2', 'X', 'lower_case', 'CamelCase', 'z-9', 'run.1', 'collect',
              'Meta2', 'default-x']


# Environment names.  The legacy format stores the environment <name> as the section [ENV-<NAME>] of
# experiment.instance.conf (experiment[.<platform>].conf for packages) and reserves the section names SANDBOX and
# ENVIRONMENT.  Hostile direction: names that contain the format's own markers - the section prefix in any case
# at the start / inside / at the end of the name, once or repeated; the reserved words as part of a longer name -,
# names spelled only with the characters of the prefix, mixed case, and the usual punctuation.
MANY_STAGES_SHARE = 0.15
MANY_STAGES_COUNTS = [9, 10, 10, 11, 11, 12, 12, 13, 16, 20, 24]
ENV_SECTION_PREFIX = 'ENV-'
_ENV_MARKERS = [ENV_SECTION_PREFIX.lower(), ENV_SECTION_PREFIX, ENV_SECTION_PREFIX.capitalize()]
_ENV_WORDS = ['gpu', 'conda', 'py', 'ml', 'mpi', 'gnu.8', 'x', '3', 'lib_2', 'v', 'Intel', 'my', 'python']
_ENV_RESERVED = ['sandbox', 'environment', 'default', 'meta']
_ENV_SHAPES = ['plain', 'plain', 'plain', 'word-env', 'marker-inside', 'marker-inside', 'marker-glued',
               'marker-start', 'marker-twice', 'marker-end', 'marker-only', 'prefix-chars', 'reserved-part']


def gen_env_name(r):
    """(name, shape).  Shapes whose name starts with 'marker' embed the section prefix in the name itself."""
    shape = r.choice(_ENV_SHAPES)
    w1, w2 = r.choice(_ENV_WORDS), r.choice(_ENV_WORDS)
    mk = r.choice(_ENV_MARKERS)
    sep = r.choice(['-', '-', '.', '_'])
    if shape == 'plain':
        name = r.choice([w1, w1 + sep + w2, w1 + '_2', (w1 + sep + w2).upper()])
    elif shape == 'word-env':          # contains the prefix's letters but not the prefix
        name = r.choice([w1 + sep + mk[:3], mk[:3] + '_' + w1, mk[:3] + w1, mk[:3]])
    elif shape == 'marker-inside':     # e.g. <word>-env-<word>
        name = w1 + sep + mk + w2
    elif shape == 'marker-glued':      # the prefix continues a word, e.g. <letter>env-<word>
        name = r.choice(['v', 'py', 'x', 'my']) + mk + w2
    elif shape == 'marker-start':      # the section becomes [ENV-ENV-...]
        name = mk + w1
    elif shape == 'marker-twice':
        name = r.choice([mk + r.choice(_ENV_MARKERS) + w1, mk + w1 + sep + r.choice(_ENV_MARKERS) + w2,
                         w1 + sep + mk + w2 + '-' + r.choice(_ENV_MARKERS) + w1])
    elif shape == 'marker-end':
        name = r.choice([w1 + sep + mk, w1 + mk])
    elif shape == 'marker-only':
        name = r.choice([mk, mk + mk])
    elif shape == 'prefix-chars':      # only characters of the prefix (char-set stripping would eat them)
        name = r.choice(['venv', 'nve', 'even', 'vee-n', 'n-e-v', 'e', 'nv', '-ven'])
    else:                              # a reserved section name as part of a longer name
        word = r.choice(_ENV_RESERVED)
        name = r.choice([word + sep + w1, w1 + sep + word, word + '2', word.upper() + sep + w1])
    return name, shape


def env_name_class(name):
    """Where the text of the section prefix occurs in an environment name (case-insensitive): a subset of
    {start, inside, end}; empty when the name does not contain it."""
    low, mk = name.lower(), ENV_SECTION_PREFIX.lower()
    out, i = set(), low.find(mk)
    while i >= 0:
        out.add('start' if i == 0 else 'end' if i + len(mk) == len(low) else 'inside')
        i = low.find(mk, i + 1)
    return out


def _set(d, path, value):
    keys = path.split('.')
    for k in keys[:-1]:
        d = d.setdefault(k, {})
    d[keys[-1]] = value


def lower_than(name, candidates):
    """Variables a value of `name` may mention: only those earlier in the fixed order (no cycles in any scope)."""
    ix = _VARNAMES.index(name) if name in _VARNAMES else len(_VARNAMES)
    return [c for c in candidates if c in _VARNAMES and _VARNAMES.index(c) < ix]


def gen_value(r, varnames):
    s = r.choice(_STR)
    if varnames and r.random() < 0.35:
        s = r.choice(['%%(%s)s', '%%(%s)s/sub', 'pre-%%(%s)s', '%%(%s)s %%(%s)s']) \
            .replace('%%(%s)s', '%%(%s)s' % r.choice(varnames))
        s = s.replace('%%', '%')
    return s


def gen_option(r, path, ctx):
    """Non-default value for one option path."""
    f = {
        'command.arguments': lambda: gen_value(r, ctx['vars']),
        'command.environment': lambda: r.choice(ctx['envs'] + ['none']) if ctx['envs'] else 'none',
        'command.resolvePath': lambda: False,
        'command.interpreter': lambda: 'bash',
        'command.expandArguments': lambda: 'none',
        'workflowAttributes.shutdownOn': lambda: r.sample(EXIT_REASONS_SHUTDOWN, r.randint(1, 3)),
        'workflowAttributes.restartHookOn': lambda: r.sample(EXIT_REASONS_RESTART, r.randint(1, 3)),
        'workflowAttributes.restartHookFile': lambda: r.choice(['hook.py', 'my_restart-2.py']),
        'workflowAttributes.repeatRetries': lambda: r.choice([0, 1, 7, 100]),
        'workflowAttributes.maxRestarts': lambda: r.choice([-1, 0, 1, 2, 5, 30]),
        'workflowAttributes.isMigratable': lambda: True,
        'workflowAttributes.optimizer.disable': lambda: True,
        'workflowAttributes.optimizer.exploitChance': lambda: r.choice([0.1, 0.55, 1.0, 0.0]),
        'workflowAttributes.optimizer.exploitTarget': lambda: r.choice([0.6, 0.123, 1.0]),
        'workflowAttributes.optimizer.exploitTargetLow': lambda: r.choice([0.05, 0.3]),
        'workflowAttributes.optimizer.exploitTargetHigh': lambda: r.choice([0.65, 0.99]),
        'workflowAttributes.memoization.disable.strong': lambda: True,
        'workflowAttributes.memoization.disable.fuzzy': lambda: True,
        'workflowAttributes.memoization.embeddingFunction': lambda: r.choice(['emb', 'def f(x): return x', 'lambda-1']),
        'resourceManager.config.walltime': lambda: r.choice([1, 30.5, 1440, 0.25]),
        'resourceManager.lsf.queue': lambda: r.choice(['normal', 'q-1', '%(gv)s'] if 'gv' in ctx['vars'] else ['normal', 'q-1']),
        'resourceManager.lsf.reservation': lambda: r.choice(['res1', 'user#12']),
        'resourceManager.lsf.resourceString': lambda: r.choice(['select[hname==x]', 'rusage[ngpus_physical=4.00]', 'span[ptile=2] order[mem]']),
        'resourceManager.lsf.statusRequestInterval': lambda: r.choice([10, 2.5, 120]),
        'resourceManager.lsf.dockerImage': lambda: r.choice(['reg.io/org/img:1.0', 'img@sha256:abc']),
        'resourceManager.lsf.dockerProfileApp': lambda: r.choice(['docker-app', 'app_2']),
        'resourceManager.lsf.dockerOptions': lambda: r.choice(['-v /a:/b', '--shm-size=1g -e X=1']),
        'resourceManager.kubernetes.image': lambda: r.choice(['reg.io/org/img:1.0', 'quay.io/x/y@sha256:0123']),
        'resourceManager.kubernetes.image-pull-secret': lambda: r.choice(['secret-1', 'my.secret']),
        'resourceManager.kubernetes.api-key-var': lambda: r.choice(['API_KEY', 'k8s-key']),
        'resourceManager.kubernetes.host': lambda: r.choice(['https://10.0.0.1:6443', 'http://k8s.local']),
        'resourceManager.kubernetes.namespace': lambda: r.choice(['prod', 'ns-2']),
        'resourceManager.kubernetes.cpuUnitsPerCore': lambda: r.choice([1.0, 2.5, 8, 0.5]),
        'resourceManager.kubernetes.gracePeriod': lambda: r.choice([0, 5, 600]),
        'resourceRequest.numberProcesses': lambda: r.choice([2, 16, 128]),
        'resourceRequest.numberThreads': lambda: r.choice([2, 4]),
        'resourceRequest.ranksPerNode': lambda: r.choice([2, 8]),
        'resourceRequest.threadsPerCore': lambda: r.choice([2, 4]),
        'resourceRequest.memory': lambda: r.choice(['2Gi', '512Mi', 1048576, '100Mi', '3Gi']),
    }
    return f[path]()


SIMPLE_PATHS = [p for p in OPTIONS if p not in (
    'references', 'workflowAttributes.replicate', 'workflowAttributes.aggregate', 'workflowAttributes.repeatInterval',
    'resourceManager.config.backend', 'executors.pre.lsf-dm-in', 'executors.post.lsf-dm-out', 'command.interpreter')]


def gen_doc(r, force_paths=(), min_stages=None):
    """A FlowIR document expressible in the legacy format, plus the platform to instantiate."""
    # number of stages: a boundary dimension of its own (the format stores stage <N> in stages.d/stage<N>[.instance]
    # .conf, so the index gains a digit at 10 and again at 100).  "Many-stage" documents stay small: most of their
    # stages hold one tiny component, a few stages (low AND high ones) hold fully optioned components.
    many = r.random() < MANY_STAGES_SHARE
    if min_stages is not None:
        many = True
    nstages = r.choice([n for n in MANY_STAGES_COUNTS if n >= (min_stages or 0)]) if many else r.choice([1, 2, 2, 3, 3, 4])
    use_platform = r.random() < 0.3
    varnames = r.sample(_VARNAMES, r.randint(1, 6))
    gvars = {v: gen_value(r, []) for v in varnames[:r.randint(0, len(varnames))]}
    if 'stage-name' in gvars:
        del gvars['stage-name']
    svars = {}
    for s in range(nstages):
        if r.random() < 0.6:
            pool = [v for v in varnames if v != 'stage-name']
            d = {v: gen_value(r, lower_than(v, list(gvars))) for v in r.sample(pool, r.randint(0, min(3, len(pool))))}
            # no self references
            d = {k: v for k, v in d.items() if '%%(%s)s' % k not in v.replace('%', '%%')}
            if r.random() < 0.3:
                d['stage-name'] = r.choice(['Setup', 'Main-Stage', 'post'])
            if d:
                svars[s] = d
    envs = {}
    for _ in range(r.choice([0, 1, 1, 2, 3])):
        name, _shape = gen_env_name(r)
        if name.lower() in {n.lower() for n in envs}:
            continue  # environment names are not case sensitive: one section per name
        envs[name] = {k: r.choice(['/opt/bin:$PATH', '1', 'a b', '$LD_LIBRARY_PATH:/x/lib', 'VALUE=with=eq', ''])
                      for k in r.sample(['PATH', 'OMP_NUM_THREADS', 'LD_LIBRARY_PATH', 'MY_VAR', 'lower_var', 'DEFAULTS'][:5],
                                        r.randint(1, 3))}
    doc = {'components': []}
    comps = []
    names_by_stage = {}
    for s in range(nstages):
        names = r.sample(_COMPNAMES, (2 if r.random() < 0.15 else 1) if many else r.randint(1, 3))
        names_by_stage[s] = names
    force = list(force_paths)
    replicating = None
    for s in range(nstages):
        for name in names_by_stage[s]:
            visible = sorted(set(gvars) | set(svars.get(s, {})))
            cvars = {}
            # sparse placement in many-stage documents; stages with a two-digit index are rich more often
            tiny = many and r.random() >= (0.45 if s >= 10 else 0.2)
            if r.random() < (0.15 if tiny else 0.5):
                for v in r.sample(varnames, r.randint(1, min(2, len(varnames)))):
                    if v != 'stage-name':
                        val = gen_value(r, lower_than(v, visible))
                        cvars[v] = val
            ctx = {'vars': sorted(set(visible) | set(cvars)), 'envs': sorted(envs)}
            comp = {'stage': s, 'name': name, 'command': {'executable': r.choice(['echo', '/bin/ls', 'bin/run.sh', 'my-exe'])}}
            backend = r.choice(['local', 'local', 'lsf', 'kubernetes', 'simulator'])
            chosen = set()
            k = r.random()
            npaths = 0 if k < 0.1 else (r.randint(1, 6) if k < 0.7 else r.randint(6, 20))
            if tiny:
                npaths = r.choice([0, 0, 1, 2])
            chosen.update(r.sample(SIMPLE_PATHS, npaths))
            while force and len(chosen) < 30 and r.random() < 0.9:
                chosen.add(force.pop())
            for p in sorted(chosen):
                if p in SIMPLE_PATHS:
                    _set(comp, p, gen_option(r, p, ctx))
            if any(p.startswith('resourceManager.lsf') for p in chosen) and r.random() < 0.8:
                backend = 'lsf'
            if any(p.startswith('resourceManager.kubernetes') for p in chosen) and r.random() < 0.8:
                backend = 'kubernetes'
            if backend != 'local' or r.random() < 0.3:
                _set(comp, 'resourceManager.config.backend', backend)
            if backend == 'kubernetes' and 'image' not in comp.get('resourceManager', {}).get('kubernetes', {}):
                _set(comp, 'resourceManager.kubernetes.image', 'reg.io/default/img:latest')
            if 'command.interpreter' in chosen or r.random() < 0.05:
                comp['command']['interpreter'] = 'bash'
            if envs and r.random() < 0.3:
                # components use the declared environments (spelled in any case: names are not case sensitive)
                n = r.choice(sorted(envs))
                comp['command']['environment'] = r.choice([n, n, n.upper(), n.lower()])
            if r.random() < 0.25:
                comp.setdefault('executors', {})['pre'] = [{'name': 'lsf-dm-in', 'payload': r.choice(['all', 'a.txt b.txt', 'dir/*'])}]
            if r.random() < 0.25:
                comp.setdefault('executors', {})['post'] = [{'name': 'lsf-dm-out', 'payload': r.choice(['all', 'out.csv', 'a.out b.out', 'results/*.csv log.txt'])}]
            if r.random() < 0.15:
                _set(comp, 'workflowAttributes.repeatInterval', r.choice([5, 2.5, 60.0]))
            # references to components of earlier stages / same stage earlier, and to folders
            refs = []
            earlier = [(ps, pn) for (ps, pn) in comps if ps <= s]
            for (ps, pn) in r.sample(earlier, min(len(earlier), r.choice([0, 0, 1, 1, 2]))):
                spelled = 'stage%d.%s' % (ps, pn)
                refs.append('%s%s:%s' % (spelled, r.choice(['', '/out.txt', '/dir/f.dat']), r.choice(['ref', 'copy', 'link'])))
            if r.random() < 0.3:
                refs.append(r.choice(['data/file.dat:copy', 'input/x.csv:ref', 'bin/tool:ref', '/abs/path/f:link']))
            if refs:
                comp['references'] = refs
                if r.random() < 0.5:
                    comp['command']['arguments'] = (comp['command'].get('arguments', '') + ' ' + ' '.join(
                        r.sample(refs, r.randint(1, len(refs))))).strip()
            if replicating is None and s < nstages - 1 and r.random() < 0.25:
                _set(comp, 'workflowAttributes.replicate', r.choice([1, 2, 3]))
                replicating = (s, name)
            elif replicating is not None and s > replicating[0] and r.random() < 0.6:
                ref = 'stage%d.%s:ref' % replicating
                if not any(x.startswith('stage%d.%s' % replicating) for x in comp.get('references', [])):
                    comp.setdefault('references', []).append(ref)
                _set(comp, 'workflowAttributes.aggregate', True)
                replicating = None
            if cvars:
                comp['variables'] = cvars
            comps.append((s, name))
            doc['components'].append(comp)
    variables = {'default': {}}
    if gvars:
        variables['default']['global'] = gvars
    if svars:
        variables['default']['stages'] = svars
    platform = 'default'
    if use_platform:
        platform = r.choice(['paragon', 'hpc-2'])
        pv = {}
        pg = {v: gen_value(r, []) for v in r.sample(varnames, r.randint(1, min(3, len(varnames)))) if v != 'stage-name'}
        if pg:
            pv['global'] = pg
        if r.random() < 0.5:
            st = r.randrange(nstages)
            d = {v: gen_value(r, []) for v in r.sample(varnames, 1) if v != 'stage-name'}
            if d:
                pv['stages'] = {st: d}
        variables[platform] = pv
        doc['platforms'] = ['default', platform]
    if variables['default'] or use_platform:
        doc['variables'] = variables
    if envs:
        doc['environments'] = {'default': envs}
        if use_platform and r.random() < 0.5:
            n = r.choice(sorted(envs))
            doc['environments'][platform] = {n: {'PLATFORM_ONLY': 'yes', 'PATH': '/platform/bin'}}
    if r.random() < 0.4:
        doc['application-dependencies'] = {'default': r.sample(['Foo.application', 'DPD.application', '/opt/x/Bar.package'], r.randint(1, 2))}
    if r.random() < 0.2:
        doc['virtual-environments'] = {'default': ['/venvs/one']}
    # status
    if r.random() < 0.7:
        ws = weights(r, nstages)
        st = {}
        for s in range(nstages):
            e = {'stage-weight': ws[s]}
            if r.random() < 0.3:
                e['executable'] = r.choice(['echo', 'bin/progress.py'])
                e['arguments'] = r.choice(['-n 1', 'a b', ''])
                mine = names_by_stage[s]
                e['references'] = ['stage%d.%s:ref' % (s, n) for n in r.sample(mine, r.randint(1, len(mine)))] \
                    if r.random() < 0.8 else []
                if e['references'] and r.random() < 0.5:
                    e['references'].append(r.choice(['data/progress.dat:ref', 'input/points.csv:copy']))
                if not e['arguments']:
                    del e['arguments']
            st[s] = e
        doc['status-report'] = st
    if r.random() < 0.5:
        out = {}
        for oname in r.sample(['Result', 'energies', 'Out-2'], r.randint(1, 2)):
            ps, pn = r.choice(comps)
            e = {}
            if r.random() < 0.5:
                e['data-in'] = 'stage%d.%s/%s:%s' % (ps, pn, r.choice(['out.csv', 'd/e.txt']), r.choice(['ref', 'copy']))
            else:
                e['data-in'] = '%s/%s:%s' % (pn, r.choice(['out.csv', 'd/e.txt']), r.choice(['ref', 'copy']))
                e['stages'] = sorted({ps} | ({r.randrange(nstages)} if r.random() < 0.4 else set()))
            if r.random() < 0.6:
                e['description'] = r.choice(['The result', 'desc: with colon', 'x=y'])
            if r.random() < 0.4:
                e['type'] = r.choice(['csv', 'text'])
            out[oname] = e
        doc['output'] = out
    return doc, platform


def restore_int_keys(doc):
    """JSON (the replay file) turns the integer stage indices that key variables.<platform>.stages and
    status-report into strings; FlowIR wants integers there."""
    doc = copy.deepcopy(doc)
    for pv in doc.get('variables', {}).values():
        if isinstance(pv.get('stages'), dict):
            pv['stages'] = {int(k): v for k, v in pv['stages'].items()}
    if isinstance(doc.get('status-report'), dict):
        doc['status-report'] = {int(k): v for k, v in doc['status-report'].items()}
    return doc


def weights(r, n):
    """n two-decimal weights summing to exactly 1 (so that C20's normaliser leaves them alone)."""
    if n == 1:
        return [1.0]
    cuts = sorted(r.sample(range(1, 100), n - 1))
    parts = [b - a for a, b in zip([0] + cuts, cuts + [100])]
    return [p / 100.0 for p in parts]


# ----------------------------------------------------------------------------- round trip + oracle

_m = {}


def mods():
    if not _m:
        from experiment.model.frontends.flowir import FlowIR, FlowIRConcrete
        from experiment.model.frontends.dosini import Dosini
        import experiment.model.conf as conf
        _m.update(FlowIR=FlowIR, FlowIRConcrete=FlowIRConcrete, Dosini=Dosini, conf=conf)
    return _m


def flatten(obj, prefix=''):
    out = {}
    if isinstance(obj, dict) and obj:
        for k, v in obj.items():
            out.update(flatten(v, '%s.%s' % (prefix, k) if prefix else str(k)))
    else:
        out[prefix] = obj
    return out


def leaf_diff(a, b):
    fa, fb = flatten(a), flatten(b)
    out = []
    for k in sorted(set(fa) | set(fb)):
        va, vb = fa.get(k, '<absent>'), fb.get(k, '<absent>')
        if va != vb or (isinstance(va, bool) != isinstance(vb, bool)):
            out.append((k, va, vb))
    return out


def drop_empty(d):
    """Optional fields of the status / output sections: absent, '' and [] mean the same (no arguments,
    no references).  None is NOT folded into absent: the FlowIR schema rejects e.g. output.<x>.type=None."""
    if isinstance(d, dict):
        out = {}
        for k, v in d.items():
            v = drop_empty(v)
            if v == '' or v == [] or v == {}:
                continue
            out[str(k)] = v
        return out
    return d


def snapshot(concrete, platform):
    """What the property compares, taken from a FlowIRConcrete."""
    snap = {'components': {}, 'environments': {}, 'status': None, 'output': None}
    for cid in sorted(concrete.get_component_identifiers(True)):
        conf = concrete.get_component_configuration(cid, raw=False, include_default=True, is_primitive=True,
                                                    platform=platform)
        snap['components']['stage%d.%s' % cid] = conf
    names = set()
    for p in ('default', platform):
        try:
            names.update(concrete.get_environments(p).keys())
        except Exception:
            pass
    for conf in snap['components'].values():
        e = conf.get('command', {}).get('environment')
        if isinstance(e, str) and e.lower() not in ('', 'none', 'environment'):
            names.add(e)
    for n in sorted(names):
        try:
            snap['environments'][n.lower()] = concrete.get_environment(n, platform)
        except Exception as e:
            snap['environments'][n.lower()] = 'ERROR %s' % type(e).__name__
    snap['status'] = concrete.get_status()
    snap['output'] = concrete.get_output()
    return snap


def read_sections(conf_dir):
    """{stage.component: {legacy key: text}} as present in the instance stage files."""
    out = {}
    for path in sorted(glob.glob(os.path.join(conf_dir, 'stages.d', 'stage*.instance.conf'))):
        st = os.path.basename(path).split('.')[0][5:]
        cp = configparser.RawConfigParser(strict=False, interpolation=None)
        cp.optionxform = str
        cp.read([path])
        for sec in cp.sections():
            if sec.upper() in ('META', 'DEFAULT'):
                continue
            out['stage%s.%s' % (st, sec)] = {k: v for k, v in cp.items(sec) if k not in cp.defaults()}
    return out


def route_a(doc, platform, scratch):
    m = mods()
    c = m['FlowIRConcrete'](copy.deepcopy(doc), platform, {})
    errs = c.validate()
    if errs:
        return None, None, None, ['%s: %s' % (type(e).__name__, str(e)[:200]) for e in errs[:3]]
    inst = c.instance(ignore_errors=True, fill_in_all=False)
    # "the description that was written" is the instance description (platform already folded into default)
    before = snapshot(m['FlowIRConcrete'](copy.deepcopy(inst), 'default', {}), 'default')
    dos = m['Dosini']()
    dos.dump(inst, scratch, update_existing=True, is_instance=True)
    dos._dump_status(inst, scratch)
    dos._dump_output(inst, scratch)
    load_errors = []
    new = dos.load_from_directory(scratch, [], {}, is_instance=True, out_errors=load_errors)
    c2 = m['FlowIRConcrete'](new, 'default', {})
    after = snapshot(c2, 'default')
    return before, after, read_sections(scratch), ['%s: %s' % (type(e).__name__, str(e)[:200]) for e in load_errors]


def route_b(doc, platform, scratch):
    """Through DOSINIExperimentConfiguration: package (legacy) -> configuration [writes instance files]
    -> configuration loaded from the instance files."""
    m = mods()
    c0 = m['FlowIRConcrete'](copy.deepcopy(doc), platform, {})
    errs = c0.validate()
    if errs:
        return None, None, None, ['%s: %s' % (type(e).__name__, str(e)[:200]) for e in errs[:3]]
    conf_dir = os.path.join(scratch, 'conf')
    os.makedirs(conf_dir)
    dos = m['Dosini']()
    dos.dump(c0.raw(), conf_dir, update_existing=True, is_instance=False)
    DEC = m['conf'].DOSINIExperimentConfiguration
    first = DEC(scratch, platform, [], None, is_instance=False, createInstanceFiles=True, primitive=True)
    written = first.get_unreplicated_flowir().instance(ignore_errors=True, inject_missing_fields=False,
                                                       fill_in_all=False, is_primitive=True)
    before = snapshot(m['FlowIRConcrete'](copy.deepcopy(written), 'default', {}), 'default')
    second = DEC(scratch, None, [], None, is_instance=True, createInstanceFiles=False, primitive=True)
    after = snapshot(second.get_flowir_concrete(), 'default')
    return before, after, read_sections(conf_dir), []


def classify_known(area, comp, path, va, vb, sections):
    """The one recorded mechanism: workflowAttributes.maxRestarts had an integer value, the instance
    file of that component contains the line 'max-restarts = <that value>' (the writer did its job),
    and the loaded component has maxRestarts None (the parser's branch tests the key 'maxRestarts',
    which never reaches it)."""
    if area == 'output' and path.rsplit('.', 1)[-1] in ('description', 'type') and va == '<absent>' and vb is None:
        # second recorded mechanism: parse_output stores None for optional keys the file does not have
        return KEY_OUTPUT_NONE
    if area != 'component' or path != 'workflowAttributes.maxRestarts':
        return None
    if isinstance(va, bool) or not isinstance(va, int) or vb is not None:
        return None
    sec = (sections or {}).get(comp, {})
    if sec.get('max-restarts') == str(va) and 'maxRestarts' not in sec:
        return KEY_MAXRESTARTS
    return None


def judge_doc(doc, platform, route, w, scratch_root):
    scratch = os.path.join(scratch_root, 'rt')
    shutil.rmtree(scratch, ignore_errors=True)
    os.makedirs(scratch)
    try:
        before, after, sections, errors = (route_a if route == 'A' else route_b)(doc, platform, scratch)
    finally:
        pass
    if before is None:
        w.count('generated_document_invalid')
        if len(w.samples) < 1:
            w.sample({'invalid_generated_document': errors, 'doc': doc}, force=True)
        return
    w.evaluated()
    w.count('route_' + route)
    if errors:
        w.count('load_reported_errors')
    used = set()
    for comp in doc['components']:
        sec = sections.get('stage%d.%s' % (comp['stage'], comp['name']), {})
        flat = flatten({k: v for k, v in comp.items() if k not in ('variables', 'stage', 'name', 'executors', 'references')})
        keys = {OPTIONS[p] for p in flat if p in OPTIONS}
        keys.add('executable')
        if comp.get('references'):
            keys.add('references')
        for ex, legacy in (('pre', 'rstage-in'), ('post', 'rstage-out')):
            if comp.get('executors', {}).get(ex):
                keys.add(legacy)
        for k in keys:
            # the generator set a non-default value AND the key is in the written file
            if k in sec:
                used.add(k)
                w.count('opt_' + k)
            else:
                w.count('optnotwritten_' + k)
    w.count('components_compared', len(before['components']))
    # stage-count dimension: what the generator produced (doc_*) and what was actually compared (clause_*, below)
    doc_stages = {c['stage'] for c in doc['components']}
    w.count('doc_stages_%s' % ('1-8' if len(doc_stages) <= 8 else '9-10' if len(doc_stages) <= 10 else 'ge11'))
    if len(doc_stages) >= 11:
        w.count('doc_stages_ge11_route_' + route)
    # components for which the generator set >= 4 legacy options to non-default values
    rich_components = {'stage%d.%s' % (c['stage'], c['name']): len([p_ for p_ in flatten(
        {k: v for k, v in c.items() if k not in ('variables', 'stage', 'name', 'executors', 'references')}) if p_ in OPTIONS])
        for c in doc['components']}
    stages_with_vars = {int(k) for p in doc.get('variables', {}).values() for k, v in p.get('stages', {}).items() if v}
    groups = set()
    for k in used:
        groups.add('k8s' if k.startswith('k8s') else 'lsf' if (k.startswith('lsf') or k in (
            'queue', 'reservation', 'resourceString', 'statusRequestInterval')) else 'opt' if k.startswith('optimizer')
            else 'memo' if k.startswith('memo') else 'req' if k in (
            'numberProcesses', 'numberThreads', 'ranksPerNode', 'threadsPerCore', 'memory') else 'exec' if k.startswith(
            'rstage') else 'wf' if k in ('shutdown-on', 'restart-hook-on', 'restart-hook-file', 'repeatRetries',
                                         'max-restarts', 'replicate', 'aggregate', 'repeat-interval', 'isMigratable')
            else 'cmd')
    scopes = ''.join([
        'g' if doc.get('variables', {}).get('default', {}).get('global') else '-',
        's' if doc.get('variables', {}).get('default', {}).get('stages') else '-',
        'c' if any(c.get('variables') for c in doc['components']) else '-'])
    backends = sorted({c.get('resourceManager', {}).get('config', {}).get('backend', 'dflt') for c in doc['components']})
    w.distinct('|'.join([route, platform != 'default' and 'P' or 'D',
                         str(len({c['stage'] for c in doc['components']})),
                         'S' if doc.get('status-report') else '-', 'O' if doc.get('output') else '-',
                         'E' + ''.join(sorted({c[0] for n in doc.get('environments', {}).get('default', {})
                                               for c in env_name_class(n)})) if doc.get('environments') else '-', scopes, ','.join(backends), ','.join(sorted(groups))]))
    nviol = 0

    def report(area, comp, path, va, vb):
        key = classify_known(area, comp, path, va, vb, sections)
        if key is not None:
            _keyed[key] = _keyed.get(key, 0) + 1
            w.count('reobserved_' + key.split(':', 1)[1])
            if _keyed[key] > 10:
                return
        w.violation('%s %s: %s was %r before writing, %r after loading the legacy files (route %s)' % (
            area, comp or '', path, va, vb, route),
            {'doc': doc, 'platform': platform, 'route': route, 'where': [area, comp, path],
             'before': va, 'after': vb, 'section': (sections or {}).get(comp)}, finding_key=key)

    if set(before['components']) != set(after['components']):
        report('components', None, 'identifiers present on one side only',
               sorted(set(before['components']) - set(after['components'])),
               sorted(set(after['components']) - set(before['components'])))
    for comp in sorted(before['components']):
        if comp not in after['components']:
            continue
        w.count('clause_component')
        st_index = int(comp.split('.', 1)[0][5:])
        if st_index >= 10:
            # compared on both sides: the component lives in a stage whose index has two digits
            w.count('clause_component_in_stage_ge10')
            w.count('clause_component_in_stage_ge10_route_' + route)
            if st_index in stages_with_vars:
                w.count('clause_component_with_stage_variables_in_stage_ge10')
            if rich_components.get(comp, 0) >= 4:
                w.count('clause_component_with_options_in_stage_ge10')
        for path, va, vb in leaf_diff(before['components'][comp], after['components'][comp]):
            report('component', comp, path, va, vb)
    w.count('clause_environments', len(before['environments']))
    # environments clause, names: the loaded instance has exactly the environments that were written (names are
    # not case sensitive; snapshot() lower-cases them).  Counted per class of name so that the floors can demand
    # that names embedding the format's own section prefix were actually round-tripped.
    for n in before['environments']:
        cls = env_name_class(n)
        if cls:
            w.count('clause_env_name_embeds_section_prefix')
        for c in sorted(cls):
            w.count('clause_env_name_prefix_at_' + c)
        if before['environments'][n] != 'ERROR FlowIREnvironmentUnknown' and any(
                (comp_conf.get('command', {}).get('environment') or '').lower() == n
                for comp_conf in before['components'].values()):
            w.count('clause_env_used_by_component')
            if cls:
                w.count('clause_env_embedding_prefix_used_by_component')
    if sorted(before['environments']) != sorted(after['environments']):
        report('environments', None, 'names', sorted(before['environments']), sorted(after['environments']))
    common = set(before['environments']) & set(after['environments'])  # contents: of the environments on both sides
    for path, va, vb in leaf_diff({n: before['environments'][n] for n in common},
                                  {n: after['environments'][n] for n in common}):
        report('environments', None, path, va, vb)
    w.count('clause_status')
    for path, va, vb in leaf_diff(drop_empty(before['status']), drop_empty(after['status'])):
        report('status', None, path, va, vb)
    w.count('clause_output')
    for path, va, vb in leaf_diff(drop_empty(before['output']), drop_empty(after['output'])):
        report('output', None, path, va, vb)
    if w.evaluations % 23 == 1:
        w.sample({'platform': platform, 'route': route, 'doc': doc})


_keyed = {}


def run_job(job, w):
    r = vlib.rng(PROP, 'job', job['id'])
    scratch_root = vlib.mkscratch('c19')
    force = list(OPTIONS)
    r.shuffle(force)
    for i in range(job['docs']):
        # the first documents of every job are steered to cover every option path at least once
        fp = [p for p in force[i * 8:(i + 1) * 8] if p in SIMPLE_PATHS or p == 'command.interpreter']
        route = 'B' if (i % job['route_b_every'] == job['route_b_every'] - 1) else 'A'
        # every job steers one document per route (and per 60 documents) to >= 11 stages, so that both routes
        # compare components of two-digit stages whatever the seed; the random share comes on top
        doc, platform = gen_doc(r, fp, min_stages=11 if i % 60 in (5, 7) else None)
        if route == 'B':
            # slice in which the recorded output-section mechanism cannot trigger (the package loader of
            # route B validates and would stop at it): every output entry spells out description and type
            for e in doc.get('output', {}).values():
                e.setdefault('description', 'some text')
                e.setdefault('type', 'csv')
        try:
            judge_doc(doc, platform, route, w, scratch_root)
        except Exception as e:
            import traceback
            w.count('harness_or_code_exception')
            w.violation('exception during round trip (route %s): %s: %s' % (route, type(e).__name__, str(e)[:300]),
                        {'doc': doc, 'platform': platform, 'route': route, 'where': ['exception', None, type(e).__name__],
                         'traceback': traceback.format_exc()[-1500:]})
    shutil.rmtree(scratch_root, ignore_errors=True)


if "--worker" in sys.argv:
    vlib.worker_main(run_job)


def main():
    c = vlib.Check(PROP, "exploration",
                   rule="generated FlowIR documents restricted to the legacy format; one evaluation = one document "
                        "through a full write/load round trip with every component, environment, status and output "
                        "entry compared; distinct = distinct structural classes (route, platform used, #stages, "
                        "status/output/environment sections present [environments: plus where a name embeds the section prefix: s(tart)/i(nside)/e(nd)], variable scopes used, set of backends, set of option "
                        "groups [cmd, wf, memo, opt, lsf, k8s, req, exec] set to non-default values and found in the files)",
                   assumptions=[
                       "documents use only what the legacy format has a key for: no resourceManager.docker, kubernetes "
                       "qos/podSpec, resourceRequest.gpus, main executors, isMigrated; isRepeat follows repeatInterval",
                       "values are single-line strings without leading/trailing blanks and without a lone '%' "
                       "(the sectioned-file writer rejects those loudly); variable names do not coincide with legacy "
                       "option keys; components are not called META/DEFAULT",
                       "variables are strings (the legacy format has no other type)",
                       "the compared 'resolved configuration' is get_component_configuration(raw=False, "
                       "include_default=True, is_primitive=True); raw spellings (e.g. memory '2Gi' vs bytes) are not compared",
                       "stage weights are two-decimal and sum to one (weight normalisation is C20's subject)",
                       "application dependencies and virtual environments are written but not compared (not in the statement)",
                       "environment names are compared case-insensitively (the format upper-cases section names, FlowIR "
                       "lower-cases environment names); within one document they are distinct case-insensitively; the "
                       "reserved section names SANDBOX / ENVIRONMENT are only used as parts of longer names",
                   ])
    rp = vlib.load_replay(sys.argv)
    if rp is not None:
        wit = rp['witness']
        w = vlib.Worker()
        judge_doc(restore_int_keys(wit['doc']), wit['platform'], wit['route'], w, vlib.mkscratch('c19r'))
        c.merge_worker(w.summary())
        if c.counters.get('generated_document_invalid'):
            c.note_inconclusive('the stored document is not a valid FlowIR document any more: nothing was compared')
        sys.exit(finish_replay(c, 'document with %d components (route %s), %s' % (
            len(wit['doc']['components']), wit['route'], wit['where'])))

    if c.tier == 'quick':
        n_jobs, docs, every = 16, 480, 4
    else:
        n_jobs, docs, every = 64, 9600, 4
    jobs = [{'id': i, 'docs': len(rg), 'route_b_every': every} for i, rg in enumerate(vlib.split(docs, n_jobs))]
    vlib.fanout("checks.C19", jobs, c, timeout=1500)
    c.floor('evaluations', 300 if c.tier == 'quick' else 8000)
    c.floor('route_B', 40 if c.tier == 'quick' else 1000)
    c.floor('clause_component', 600 if c.tier == 'quick' else 16000)
    c.floor('clause_status', 300 if c.tier == 'quick' else 8000)
    c.floor('clause_environments', 300 if c.tier == 'quick' else 8000)
    q = c.tier == 'quick'
    c.floor('doc_stages_9-10', 5 if q else 100)
    c.floor('doc_stages_ge11_route_A', 12 if q else 150)
    c.floor('doc_stages_ge11_route_B', 12 if q else 150)
    c.floor('clause_component_in_stage_ge10_route_A', 40 if q else 800)
    c.floor('clause_component_in_stage_ge10_route_B', 20 if q else 400)
    c.floor('clause_component_with_stage_variables_in_stage_ge10', 30 if q else 600)
    c.floor('clause_component_with_options_in_stage_ge10', 30 if q else 600)
    c.floor('clause_env_name_embeds_section_prefix', 60 if c.tier == 'quick' else 1500)
    for pos in ('start', 'inside', 'end'):
        c.floor('clause_env_name_prefix_at_' + pos, 10 if c.tier == 'quick' else 250)
    c.floor('clause_env_embedding_prefix_used_by_component', 15 if c.tier == 'quick' else 400)
    for k in LEGACY_KEYS:
        c.floor('opt_' + k, 5 if c.tier == 'quick' else 100)
    covered = [k for k in LEGACY_KEYS if c.counters.get('opt_' + k, 0) > 0]
    c.extra['option_key_coverage'] = '%d/%d' % (len(covered), len(LEGACY_KEYS))
    c.extra['option_keys_not_covered'] = [k for k in LEGACY_KEYS if k not in covered]
    sys.exit(c.finish())


if __name__ == "__main__":
    main()
