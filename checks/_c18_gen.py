"""Generators of hostile / benign staging inputs (tar archives, link+copy reference sets) and
deployment inputs (manifests) for C18.  Every case carries, BY CONSTRUCTION, the label

    offending  True : carried out literally it creates or modifies something outside the target
               False: everything it creates lies inside the target (control)
               None : not judged on acceptance (only confinement is judged)
and a structural `cls` used for the distinct-case count and the known-finding classifiers.
"""
from __future__ import annotations

import io
import os
import tarfile
from typing import Any, Dict, List, Optional

import vlib

ODD_NAMES = ["plain.txt", "with space.txt", "ünï.txt", "中文.dat", "semi;colon", "dollar$var", "percent%s", "dash-",
             ".hidden", "a=b", "tab\tname", "quote'q", "back\\slash", "x" * 120, "new\nline", "star*", "..data", "...",
             "..hidden..", "a..b"]


# --------------------------------------------------------------------------------------- archives

def write_tar(path: str, members: List[Dict[str, Any]], compress: str = "", fmt: str = "gnu"):
    f = {"gnu": tarfile.GNU_FORMAT, "pax": tarfile.PAX_FORMAT, "ustar": tarfile.USTAR_FORMAT}[fmt]
    with tarfile.open(path, "w:" + compress if compress else "w", format=f) as t:
        for m in members:
            ti = tarfile.TarInfo(m["name"])
            ti.mtime = 1700000000
            ti.mode = m.get("mode", 0o644)
            k = m.get("kind", "file")
            if k == "file":
                data = m.get("data", "payload of %s" % m["name"]).encode("utf-8", "surrogateescape")
                ti.size = len(data)
                t.addfile(ti, io.BytesIO(data))
            elif k == "dir":
                ti.type = tarfile.DIRTYPE
                ti.mode = 0o755
                t.addfile(ti)
            elif k == "sym":
                ti.type = tarfile.SYMTYPE
                ti.linkname = m["target"]
                t.addfile(ti)
            elif k == "hard":
                ti.type = tarfile.LNKTYPE
                ti.linkname = m["target"]
                t.addfile(ti)
            elif k == "fifo":
                ti.type = tarfile.FIFOTYPE
                t.addfile(ti)


def _benign_members(r, n=None) -> List[Dict[str, Any]]:
    out = []
    for i in range(n if n is not None else r.randint(1, 4)):
        c = r.random()
        if c < 0.5:
            out.append({"name": r.choice(ODD_NAMES[:12]) if r.random() < 0.5 else "f%d.txt" % i})
        elif c < 0.75:
            d = "d%d" % i
            out.append({"name": d, "kind": "dir"})
            out.append({"name": "%s/%s" % (d, r.choice(["inner.txt", "deep/er/file.bin", "./dot.txt"]))})
        elif c < 0.85:
            out.append({"name": "/".join("l%d" % k for k in range(r.randint(5, 30))) + "/leaf"})
        else:
            out.append({"name": "./" + "g%d" % i})
    return out


def gen_archive_case(idx: int, up_levels_available: int, outside_abs: str, outside_rel_from_wd: str,
                     wd: str = "") -> Dict[str, Any]:
    """`outside_abs`: absolute path of a directory of the sandbox OUTSIDE the working directory;
    `outside_rel_from_wd`: the same directory relative to the working directory."""
    r = vlib.rng("C18", "archive", idx)
    kinds = ["dotdot", "dotdot_nested", "dotdot_existing_dir", "absolute", "sym_abs_then_file", "sym_rel_then_file",
             "sym_chain_then_file", "hard_outside_then_overwrite", "two_archives_sym_then_file",
             "benign", "benign", "benign_dotdot_inside", "benign_sym_inside", "benign_sym_outside_unused", "benign_fifo",
             "benign_odd_names", "absolute_prefix_sibling"]
    cls = kinds[idx % len(kinds)]
    pre = _benign_members(r, r.randint(0, 2))
    post = _benign_members(r, r.randint(0, 2))
    ups = r.randint(1, max(1, min(6, up_levels_available)))
    leaf = r.choice(["escaped.txt", "x", "victim.txt", ".bashrc", "cron.d/job"])
    second = None
    offending: Optional[bool] = True
    if cls == "dotdot":
        core = [{"name": "../" * ups + leaf}]
    elif cls == "dotdot_nested":
        depth = r.randint(1, 3)
        core = [{"name": "/".join("n%d" % k for k in range(depth)) + "/" + "../" * (depth + ups) + leaf}]
        # os.makedirs of a not-yet-existing 'n0/..' fails half way: the member is then not written
        # anywhere, so only the variant with the directories present is a guaranteed escape
        offending = None
    elif cls == "dotdot_existing_dir":
        depth = r.randint(1, 3)
        dirs = [{"name": "/".join("n%d" % k for k in range(j + 1)), "kind": "dir"} for j in range(depth)]
        core = dirs + [{"name": "/".join("n%d" % k for k in range(depth)) + "/" + "../" * (depth + ups) + leaf}]
    elif cls == "absolute":
        core = [{"name": os.path.join(outside_abs, "abs_" + leaf.replace("/", "_"))}]
    elif cls == "absolute_prefix_sibling":
        # '<wd>2/x' shares every character of '<wd>' : the classic commonprefix pitfall
        core = [{"name": wd.rstrip("/") + r.choice(["2", "_old", "-bak"]) + "/" + leaf.replace("/", "_")}]
    elif cls == "sym_abs_then_file":
        core = [{"name": "lnk", "kind": "sym", "target": outside_abs}, {"name": "lnk/" + leaf.replace("/", "_")}]
    elif cls == "sym_rel_then_file":
        core = [{"name": "lnk", "kind": "sym", "target": outside_rel_from_wd}, {"name": "lnk/" + leaf.replace("/", "_")}]
    elif cls == "sym_chain_then_file":
        core = [{"name": "one", "kind": "sym", "target": ".."}, {"name": "two", "kind": "sym", "target": "one/.."},
                {"name": "two/" + "chain_" + leaf.replace("/", "_")}]
    elif cls == "hard_outside_then_overwrite":
        core = [{"name": "h", "kind": "hard", "target": os.path.join(outside_rel_from_wd, "victim.txt")},
                {"name": "h", "data": "OVERWRITTEN THROUGH HARD LINK"}]
    elif cls == "two_archives_sym_then_file":
        core = [{"name": "out", "kind": "sym", "target": r.choice([outside_abs, outside_rel_from_wd])}]
        second = [{"name": "out/second_" + leaf.replace("/", "_")}]
    elif cls == "benign_dotdot_inside":
        core = [{"name": "keep", "kind": "dir"}, {"name": "keep/../inside_%d.txt" % r.randint(0, 9)}]
        offending = None
    elif cls == "benign_sym_inside":
        core = [{"name": "real", "kind": "dir"}, {"name": "alias", "kind": "sym", "target": "real"},
                {"name": "alias/through.txt"}]
        offending = False
    elif cls == "benign_sym_outside_unused":
        core = [{"name": "pointer", "kind": "sym", "target": r.choice([outside_abs, outside_rel_from_wd, "/etc/passwd"])}]
        offending = None
    elif cls == "benign_fifo":
        core = [{"name": "pipe", "kind": "fifo"}]
        offending = None
    elif cls == "benign_odd_names":
        core = [{"name": n} for n in r.sample(ODD_NAMES, r.randint(2, 5))]
        offending = None      # some names may legitimately be refused by the file system
    else:
        core = _benign_members(r, r.randint(1, 4))
        offending = False
    if offending is False or cls.startswith("benign"):
        members = pre + core + post
    else:
        members = pre + core + (post if r.random() < 0.5 else [])
    return {"kind": "archive", "idx": idx, "cls": cls, "offending": offending, "members": members, "second": second,
            "compress": r.choice(["", "", "gz", "bz2"]), "format": r.choice(["gnu", "pax", "gnu"]),
            "component": "ext2" if second is not None else "ext"}


def link_depth_combos() -> List[Dict[str, Any]]:
    """Link members at depth 0..3 whose link name carries 0..depth+2 parent segments (so that it
    resolves inside or outside under EACH of the two readings: relative to the member's directory
    - what tar means for symlinks - and relative to the extraction root - what tar means for hard
    links), followed or not by a regular member of the same name; plus hard links at depth to a
    file deeper inside the archive (root-relative link name without parent segments)."""
    out = []
    for kind in ("hard", "sym"):
        for d in range(4):
            for u in range(d + 3):
                for followed in (True, False):
                    out.append({"kind": kind, "depth": d, "ups": u, "followed": followed, "deep_target": False})
    for d in (1, 2, 3):
        for followed in (True, False):
            out.append({"kind": "hard", "depth": d, "ups": 0, "followed": followed, "deep_target": True})
    return out


def gen_link_depth_case(idx: int, n: int) -> Dict[str, Any]:
    """`n` selects the combination; `idx` seeds the decoration (extra members, compression)."""
    r = vlib.rng("C18", "linkdepth", idx)
    combos = link_depth_combos()
    c = combos[n % len(combos)]
    kind, d, u = c["kind"], c["depth"], c["ups"]
    dirs = ["d%d" % k for k in range(d)]
    members: List[Dict[str, Any]] = [{"name": "victim.txt", "data": "inside victim (top)"}]
    for k in range(d):
        members.append({"name": "/".join(dirs[:k + 1]), "kind": "dir"})
        members.append({"name": "/".join(dirs[:k + 1]) + "/victim.txt", "data": "inside victim level %d" % (k + 1)})
    link_path = "/".join(dirs + ["lk"])
    linkname = ("d0/victim.txt" if c["deep_target"] else "../" * u + "victim.txt")
    members.append({"name": link_path, "kind": kind, "target": linkname})
    if c["followed"]:
        members.append({"name": link_path, "data": "WRITTEN THROUGH %s LINK %d/%d" % (kind, d, u)})
    # what tar means: hard-link names are relative to the extraction root, symlink targets to the member's directory
    truly_outside = (u > 0) if kind == "hard" else (u > d)
    other_reading_outside = (u > d) if kind == "hard" else (u > 0)
    offending: Optional[bool] = (True if c["followed"] else None) if truly_outside else False
    pre = _benign_members(r, r.randint(0, 1))
    return {"kind": "archive", "idx": idx, "offending": offending, "members": pre + members, "second": None,
            "cls": "linkdepth_%s_d%d_u%d_%s%s" % (kind, d, u, "followed" if c["followed"] else "alone",
                                                   "_deeptarget" if c["deep_target"] else ""),
            "truly_outside": truly_outside, "outside_under_other_reading": other_reading_outside,
            "compress": r.choice(["", "", "gz"]), "format": r.choice(["gnu", "pax"]), "component": "ext"}


LINK_HOP_MODES = ("file", "dir", "sym", "hardname", "hardtarget", "chain_followed", "chain_alone")
WD_PLACEHOLDER = "<WD>"      # replaced by the working directory of the staged component when the archive is written


def link_hop_combos() -> List[Dict[str, Any]]:
    """A symlink member that is harmless on its own (it resolves to a directory INSIDE the working
    directory: the working directory itself or a directory 1..3 levels below it) followed by a member
    that passes through it and then climbs `ups` parent segments.  Lexically (normpath of the member
    name) such a member always stays inside; where it really lands depends on where the link points,
    which is only visible once the link exists on disk.
      depth d         the link sits d directories below the working directory
      target_depth t  the link resolves to the directory t levels below the working directory
      ups n           parent segments behind the link, 1 <= n <= d + 1 (lexically inside), n <= t + 2
    really outside  <=>  n > t."""
    out = []
    for mode in LINK_HOP_MODES:
        for d in range(3):
            for t in range(4):
                for n in range(1, min(d + 1, t + 2) + 1):
                    out.append({"mode": mode, "depth": d, "target_depth": t, "ups": n})
    return out


def gen_link_hop_case(idx: int, n: int) -> Dict[str, Any]:
    """`n` selects the combination; `idx` seeds the decoration (spelling of the link target, names,
    leaf, compression, whether the link comes from a first archive and the rest from a second one)."""
    r = vlib.rng("C18", "linkhop", idx)
    combos = link_hop_combos()
    c = combos[n % len(combos)]
    mode, d, t, ups = c["mode"], c["depth"], c["target_depth"], c["ups"]
    chain = ["c0", "c1", "c2"]
    # a victim.txt at every level: every hard-link name resolves to an existing file whichever way it is read
    members: List[Dict[str, Any]] = [{"name": "victim.txt", "data": "inside victim (top)"}]
    for k in range(3):
        members.append({"name": "/".join(chain[:k + 1]), "kind": "dir"})
        members.append({"name": "/".join(chain[:k + 1]) + "/victim.txt", "data": "inside victim level %d" % (k + 1)})
    lkname = r.choice(["up", "here", "lk", "latest", "cur rent"])
    lk = "/".join(chain[:d] + [lkname])
    form = r.choice(["rel", "rel", "abs"])
    if form == "abs":
        target = WD_PLACEHOLDER + "".join("/" + x for x in chain[:t])
    else:
        common = min(d, t)
        target = "/".join([".."] * (d - common) + chain[common:t]) or "."
        if target != "." and r.random() < 0.3:
            target = "./" + target
    members.append({"name": lk, "kind": "sym", "target": target})
    n_first = len(members)
    hop = lk + "/" + "/".join([".."] * ups)
    leaf = r.choice(["escaped.txt", "x", ".bashrc", "victim.txt", "cron.d/job"])
    if mode == "file":
        tail = [{"name": hop + "/" + leaf, "data": "WRITTEN BEHIND LINK d%d t%d n%d" % (d, t, ups)}]
    elif mode == "dir":
        nd = hop + "/newdir_%d" % r.randint(0, 9)
        tail = [{"name": nd, "kind": "dir"}, {"name": nd + "/inner.txt"}]
    elif mode == "sym":
        tail = [{"name": hop + "/planted", "kind": "sym", "target": "."}]
    elif mode == "hardname":
        tail = [{"name": hop + "/hl", "kind": "hard", "target": "victim.txt"}]
    elif mode == "hardtarget":
        tail = [{"name": "hl", "kind": "hard", "target": hop + "/victim.txt"},
                {"name": "hl", "data": "WRITTEN THROUGH HARD LINK BEHIND LINK d%d t%d n%d" % (d, t, ups)}]
    else:
        tail = [{"name": "out", "kind": "sym", "target": hop}]
        if mode == "chain_followed":
            tail.append({"name": "out/" + leaf, "data": "WRITTEN THROUGH SECOND LINK d%d t%d n%d" % (d, t, ups)})
    really_outside = ups > t
    offending: Optional[bool] = (None if mode == "chain_alone" else True) if really_outside else False
    pre = _benign_members(r, r.randint(0, 1))
    split = r.random() < 0.25
    post = _benign_members(r, 1) if (not really_outside or r.random() < 0.3) else []
    if split:
        first, second = pre + members, tail + post
    else:
        first, second = pre + members + tail + post, None
    return {"kind": "archive", "idx": idx, "offending": offending, "members": first, "second": second,
            "cls": "linkhop_%s_d%d_t%d_n%d%s" % (mode, d, t, ups, "_split" if split else ""),
            "family": "linkhop", "mode": mode, "really_outside": really_outside, "levels_above": max(0, ups - t),
            "link": {"name": lk, "target": target, "form": form}, "n_members_up_to_link": n_first + len(pre),
            "compress": r.choice(["", "", "gz"]), "format": r.choice(["gnu", "pax"]),
            "component": "ext2" if split else "ext"}


def gen_copylink_case(idx: int) -> Dict[str, Any]:
    r = vlib.rng("C18", "copylink", idx)
    cls = ["copy_dir_with_outward_symlinks", "link_dir_then_copy_file", "copy_file_odd_name"][idx % 3]
    return {"kind": "copylink", "idx": idx, "cls": cls, "offending": False, "component": "cl",
            "outward": r.choice(["abs", "rel"]), "n_files": r.randint(1, 4)}


# -------------------------------------------------------------------------------------- manifests

def gen_manifest_case(idx: int, up_levels_available: int) -> Dict[str, Any]:
    r = vlib.rng("C18", "manifest", idx)
    kinds = ["dotdot", "dotdot_nested", "dotdot_after_real_dir", "absolute", "nested_under_link", "conf_linked",
             "dotdot_only", "benign", "benign", "benign_nested", "benign_dotdot_inside", "benign_link", "benign_odd_names"]
    cls = kinds[idx % len(kinds)]
    method = r.choice(["copy", "link", "copy", ""])
    ups = r.randint(1, max(1, min(4, up_levels_available)))
    leaf = r.choice(["x", "escaped", "bin", ".ssh"])
    entries: List[List[str]] = []      # ordered [key, source-dir-name, method]
    offending: Optional[bool] = True

    def benign(n):
        out = []
        for i in range(n):
            out.append(["%s%d" % (r.choice(["data", "bin", "hooks", "extra"]), i), r.choice(["src1", "src2"]),
                        r.choice(["copy", "link", ""])])
        return out

    if cls == "dotdot":
        entries = [["../" * ups + leaf, "src1", method]]
    elif cls == "dotdot_nested":
        entries = [["a/" + "../" * (1 + ups) + leaf, "src1", method]]
        offending = True if method != "link" else None    # the link flavour needs 'a' to exist
    elif cls == "dotdot_after_real_dir":
        entries = [["a", "src2", "copy"], ["a/" + "../" * (1 + ups) + leaf, "src1", method]]
    elif cls == "absolute":
        entries = [["<ABS>/" + leaf, "src1", method]]
    elif cls == "nested_under_link":
        entries = [["shared", "src1", "link"], ["shared/" + leaf.lstrip("."), "src2", r.choice(["copy", "link"])]]
    elif cls == "conf_linked":
        entries = [["conf", "src1", "link"]]
    elif cls == "dotdot_only":
        entries = [[r.choice(["..", "../", "a/../.."]), "src1", method]]
        offending = None      # target exists already: refused by the file system, nothing to create
    elif cls == "benign_nested":
        entries = [["nest/ed/deep", "src1", "copy"]]
        offending = False
    elif cls == "benign_dotdot_inside":
        entries = [["a", "src2", "copy"], ["a/../b", "src1", method]]
        offending = None
    elif cls == "benign_link":
        entries = [["linked", "src1", "link"], ["copied", "src2", "copy"]]
        offending = False
    elif cls == "benign_odd_names":
        entries = [[n, "src1", "copy"] for n in r.sample(["with space", "ünï", "a=b", "percent%s", "..data", "semi;colon"],
                                                          r.randint(1, 3))]
        offending = None
    else:
        entries = benign(r.randint(1, 3))
        offending = False
    if cls not in ("benign", "benign_nested", "benign_link", "benign_odd_names", "conf_linked") and r.random() < 0.5:
        extra = benign(r.randint(1, 2))
        entries = (extra + entries) if r.random() < 0.5 else (entries + extra)
    return {"kind": "manifest", "idx": idx, "cls": cls, "offending": offending, "entries": entries,
            "via": ["expand", "expand", "expand", "newInstanceDirectory", "manifest_file"][idx % 5]}


# ------------------------------------------------------------- directory references (:link/:copy/:copyout)

DIRREF_SOURCES = {
    # key: (reference without method, category, last path element, path relative to the instance directory)
    "A_results": ("stage0.pa/results", "component", "results", "stages/stage0/pa/results"),
    "B_results": ("stage0.pb/results", "component", "results", "stages/stage0/pb/results"),
    "B_other": ("stage0.pb/other", "component", "other", "stages/stage0/pb/other"),
    "A_whole": ("stage0.pa", "component", "pa", "stages/stage0/pa"),
    "P_results": ("data/ra/results", "direct", "results", "data/ra/results"),
    "Q_results": ("data/rb/results", "direct", "results", "data/rb/results"),
    "Q_tables": ("data/rb/tables", "direct", "tables", "data/rb/tables"),
}
DIRREF_METHODS = ("link", "copy", "copyout")
DIRREF_DEST_KINDS = ("absent", "file", "directory", "symlink_inside", "symlink_outside")


def dirref_consumers() -> List[Dict[str, Any]]:
    """The consumer components of the directory-reference experiment: every ordered pair of methods
    over source pairs with equal last path elements (component/component, package/package,
    package declared before component, component declared before package) and with different ones,
    every method alone, and two triples.  Deterministic (part of the FlowIR of the experiment)."""
    pairs = [("A_results", "B_results"), ("P_results", "Q_results"), ("P_results", "B_results"), ("A_results", "Q_results"),
             ("A_results", "B_other"), ("P_results", "Q_tables"), ("A_whole", "Q_tables")]
    out: List[List[List[str]]] = []
    for s1, s2 in pairs:
        for m1 in DIRREF_METHODS:
            for m2 in DIRREF_METHODS:
                out.append([[s1, m1], [s2, m2]])
    for s in ("A_results", "P_results", "A_whole"):
        for m in DIRREF_METHODS:
            out.append([[s, m]])
    out.append([["A_results", "link"], ["B_other", "copy"], ["B_results", "copyout"]])
    out.append([["P_results", "link"], ["Q_tables", "link"], ["B_results", "copy"]])
    return [{"name": "k%02d" % i, "refs": refs} for i, refs in enumerate(out)]


def dirref_flowir() -> str:
    lines = ["components:"]
    for p in ("pa", "pb"):
        lines += ["- name: %s" % p, "  command:", "    executable: echo", "    arguments: produce"]
    for c in dirref_consumers():
        lines += ["- name: %s" % c["name"], "  command:", "    executable: echo", "    arguments: consume", "  references:"]
        lines += ["  - %s:%s" % (DIRREF_SOURCES[s][0], m) for s, m in c["refs"]]
    return "\n".join(lines) + "\n"


def _dir_contents(r, tag: str) -> List[Dict[str, Any]]:
    """Entries (relative to the source directory) of one generated source directory: files, nested
    directories, symlinks that stay inside the source and symlinks that point out of it."""
    out: List[Dict[str, Any]] = [{"name": "energies.csv", "data": "output of %s" % tag}]
    for i in range(r.randint(0, 3)):
        c = r.random()
        if c < 0.35:
            out.append({"name": r.choice(ODD_NAMES[:10] + ["extra.log", "f%d.dat" % i]), "data": "%s file %d" % (tag, i)})
        elif c < 0.65:
            d = "/".join("n%d" % k for k in range(r.randint(1, 3)))
            out.append({"name": d, "kind": "dir"})
            out.append({"name": d + "/deep_%s.txt" % tag, "data": "deep %s" % tag})
        elif c < 0.8:
            out.append({"name": "inner_link_%d" % i, "kind": "sym", "target": "energies.csv"})
        elif c < 0.9:
            out.append({"name": "outward_dir_%d" % i, "kind": "sym", "target": "<OUTSIDE>"})
        else:
            out.append({"name": "outward_file_%d" % i, "kind": "sym", "target": "<OUTSIDE>/victim.txt"})
    return out


def gen_dirref_case(idx: int) -> Dict[str, Any]:
    """One staging of one consumer: which consumer (hence which references, methods, declaration order),
    what its source directories contain, and what already exists in the working directory under the last
    path element of one of its references (left by an earlier staging): nothing / a file / a directory /
    a symlink to a directory inside the working directory / a symlink to a directory OUTSIDE of it.

    Staging order (Job.stageIn as documented: 'copy'/'link' references first, 'copyout' references in a second
    phase; references to package/instance files before references to components; otherwise as declared).
    offending True (literal execution writes outside the working directory, by construction):
      * the name is a pre-existing symlink to an outside directory and every reference with that last path
        element is a directory :copy/:copyout (the copy would be made through the link);
      * nothing pre-exists under that name, and a :link reference is certainly staged before a :copy/:copyout
        reference with the same last path element (the copy would be made through the staged link into
        the link's source directory).
    offending False: all last path elements differ and nothing pre-exists under any of them.
    Otherwise None (confinement only)."""
    r = vlib.rng("C18", "dirref", idx)
    consumers = dirref_consumers()
    n = len(consumers)
    cons = consumers[idx % n]
    dest_kind = DIRREF_DEST_KINDS[(idx // n + idx % n) % len(DIRREF_DEST_KINDS)]
    refs = [{"source": s, "method": m, "reference": "%s:%s" % (DIRREF_SOURCES[s][0], m),
             "category": DIRREF_SOURCES[s][1], "basename": DIRREF_SOURCES[s][2]} for s, m in cons["refs"]]
    which = r.randrange(len(refs))
    pre_name = refs[which]["basename"] if dest_kind != "absent" else None
    basenames = [x["basename"] for x in refs]
    equal = len(set(basenames)) < len(basenames)

    def phase(x):
        return (1 if x["method"] == "copyout" else 0, 0 if x["category"] == "direct" else 1)

    offending: Optional[bool] = None
    reason = ""
    if dest_kind == "symlink_outside":
        if all(x["method"] in ("copy", "copyout") for x in refs if x["basename"] == pre_name):
            offending, reason = True, "copy_through_preexisting_outward_link"
    elif dest_kind == "absent":
        if not equal:
            offending = False
        else:
            for i, a in enumerate(refs):
                for j, b in enumerate(refs):
                    if a["basename"] == b["basename"] and a["method"] == "link" and b["method"] in ("copy", "copyout"):
                        pa, pb = phase(a), phase(b)
                        if pa < pb or (pa == pb and i < j):
                            # nothing else may claim the name before the link does
                            earlier = [c for k, c in enumerate(refs) if c["basename"] == a["basename"] and c is not a and
                                       (phase(c) < pa or (phase(c) == pa and k < i))]
                            if not earlier:
                                offending, reason = True, "copy_through_staged_link_of_same_name"
    # any other occupied name (file, directory, symlink to inside): whether the reference is refused or merged into
    # what is there is not judged, only confinement
    sources = sorted({x["source"] for x in refs} | ({"A_results"} if any(x["source"] == "A_whole" for x in refs) else set()))
    contents = {s: _dir_contents(r, s) for s in sources if s != "A_whole"}
    methods = "+".join(x["method"] for x in refs)
    shape = "equal" if equal else "different"
    cats = "+".join(x["category"][0] for x in refs)
    return {"kind": "dirrefs", "family": "dirrefs", "idx": idx, "component": cons["name"], "refs": refs,
            "dest_kind": dest_kind, "pre_name": pre_name, "offending": offending, "offending_reason": reason,
            "contents": contents, "outside_target": r.choice(["input", "other_producer"]),
            "link_spelling": r.choice(["abs", "rel"]),
            "cls": "dirrefs_%s_%s_%s_%s" % (methods, shape, cats, dest_kind)}
