"""C04 - the routes through which users consume a resolved configuration.

Besides asking a FlowIRConcrete directly, the configuration of a component on a platform reaches
its users through

  instance   concrete.instance(platform=P, <loader flags>) -> FlowIR in which the layers of P are
             collapsed; the component is read from a FlowIRConcrete of that FlowIR (what is stored
             as conf/flowir_instance.yaml and loaded again)
  replicate  concrete.replicate(platform=P, ignore_errors=True) -> the FlowIR an experiment runs
  package    conf/flowir_package.yaml on disk, ExperimentConfigurationFactory.
             configurationForExperiment(path, platform=P, variable_files=[user file], primitive=False)
             and configurationForNode("stage<S>.<name>")

All of them are judged with the SAME reference layering (ref/c04_layering.py).

Domain restriction for these routes (`scope_stable`).  The instantiated FlowIR stores the variables
of the global scope and of every stage scope already substituted *at that scope*, so a definition
made at global (stage) scope that references a variable whose winning definition lies in a HIGHER
scope (stage / component) is bound to the lower-scope value there, whereas a live FlowIRConcrete
binds it after layering.  The statement does not say which reading the collapsed FlowIR must have,
therefore such (component, platform) pairs are not judged through these routes (they are counted).
Scopes: global = default/platform global sections; stage = default/platform stage sections and the
user-supplied variables (they are supplied per stage); component = definition and override.
References made by component-scope definitions (the component's own variables, options, override)
are always judged: every layer is below or at their scope.
"""
from __future__ import annotations

import copy
import os

from ref import c04_layering as ref

SCOPE = {"builtin": 0, "dg": 0, "pg": 0, "ds": 1, "ps": 1, "user": 1, "comp": 2, "ovr": 2}

INSTANCE_FLAG_SETS = [
    # conf.py: store_unreplicated_flowir_to_disk / dosini dump of the instance
    {"ignore_errors": True, "inject_missing_fields": False, "fill_in_all": False, "is_primitive": True},
    # what replicate() passes
    {"ignore_errors": True, "fill_in_all": False},
]


def refs_of(value):
    out = set()
    if isinstance(value, str):
        out |= set(ref.REF.findall(value))
    elif isinstance(value, dict):
        for v in value.values():
            out |= refs_of(v)
    elif isinstance(value, (list, tuple)):
        for v in value:
            out |= refs_of(v)
    return out


def variable_winners(vlayers):
    """name -> (winning layer name, value)."""
    out = {}
    for lname, content in vlayers:
        for k, v in content.items():
            out[k] = (lname, v)
    return out


def option_leaves(olayers):
    """(path, winning layer, value) for every non-dict leaf of the layered (unsubstituted) options."""
    merged = {}
    for _, content in olayers:
        merged = ref.layer(merged, content)
    out = []

    def walk(d, path):
        for k, v in d.items():
            if isinstance(v, dict):
                walk(v, path + (k,))
            else:
                out.append((path + (k,), ref.winner(olayers, path + (k,)), v))
    walk(merged, ())
    return out


def scope_stable(info):
    """True when no definition of global (stage) scope references a variable whose winning
    definition lies in a higher scope.  `info` is what ref.resolve returns next to the outcome."""
    win = variable_winners(info["vlayers"])
    for name, (lname, value) in win.items():
        for y in refs_of(value):
            if y in win and SCOPE[win[y][0]] > SCOPE[lname]:
                return False
    for _, lname, value in option_leaves(info["olayers"]):
        if lname is None:
            continue
        for y in refs_of(value):
            if y in win and SCOPE[win[y][0]] > SCOPE[lname]:
                return False
    return True


def chain_inside_component(info):
    """Names A such that A's winning definition is the component's (definition or override), A
    references B, B's winning definition is the component's too, and a stage-scoped lower layer
    (default stage, platform stage, user variables) defines B with a different value."""
    win = variable_winners(info["vlayers"])
    lower = {}
    for lname, content in info["vlayers"]:
        if lname in ("ds", "ps", "user"):
            for k, v in content.items():
                lower.setdefault(k, []).append((lname, v))
    out = []
    for a, (la, va) in win.items():
        if la not in ("comp", "ovr"):
            continue
        for b in refs_of(va):
            if b in win and win[b][0] in ("comp", "ovr") and any(v != win[b][1] for _, v in lower.get(b, [])):
                out.append((a, la, b, sorted(set(l for l, _ in lower[b]))))
    return out


def read_from_flowir(flowir, comp_id, platform):
    """The component as a reader of the produced FlowIR sees it."""
    from experiment.model.frontends.flowir import FlowIRConcrete
    return FlowIRConcrete(flowir, platform, {}).get_component_configuration(
        tuple(comp_id), raw=False, include_default=True)


def produce_instance(live, platform, flags):
    return live.instance(platform=platform, **flags)


def produce_replicate(live, platform):
    return live.replicate(platform=platform, ignore_errors=True)


def write_package(doc, user, root):
    """conf/flowir_package.yaml (+ the user variable file) under `root`."""
    import yaml
    pkg = os.path.join(root, "case.package")
    os.makedirs(os.path.join(pkg, "conf"), exist_ok=True)
    with open(os.path.join(pkg, "conf", "flowir_package.yaml"), "w") as f:
        yaml.safe_dump(copy.deepcopy(doc), f)
    files = []
    if user is not None:
        path = os.path.join(root, "user-variables.yaml")
        with open(path, "w") as f:
            yaml.safe_dump(copy.deepcopy(user), f)
        files = [path]
    return pkg, files


def load_package(pkg, files, platform):
    import experiment.model.conf as conf
    return conf.ExperimentConfigurationFactory.configurationForExperiment(
        pkg, platform=platform, variable_files=list(files), createInstanceFiles=False, updateInstanceFiles=False,
        primitive=False, validate=False, format_priority=["flowir"])


def node_name(comp_id):
    return "stage%d.%s" % (comp_id[0], comp_id[1])


def node_name_round_trips(comp_id):
    from experiment.model.frontends.flowir import FlowIR  # noqa: F401
    import experiment.model.conf as conf
    try:
        s, n, _ = conf.ParseProducerReference(node_name(comp_id))
    except Exception:
        return False
    return (s, n) == tuple(comp_id)
