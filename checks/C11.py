"""C11 - a workflow that loads is structurally executable; a broken one is rejected.

Workload : seeded well-formed FlowIR documents (checks/_c11_gen.py: 2-7 components over 1-3 stages,
           relative/absolute references with ref/output/copy/link, variables in global/stage/component
           layers and chains, array variables indexed by a literal / another variable / %(replica)s in
           arguments, executable, lsf.queue and numberThreads, options with documented values, replication/aggregation, declaration order
           shuffled; in 2 of 5 documents one or two components are called like a special folder / application
           dependency / manifest folder up to case (Data, INPUT, MyApp, Mydata; folder declared or not); in 3 of 4 documents some references are spelled through variables - the producer, its name,
           the stage number, the stage prefix, producer and file or the method held in a global / stage /
           component / platform variable or a chain, in the list and/or on the command line - and 1 in 3 of those
           is loaded for a second platform whose variables hold or override them) and, per document, EVERY
           applicable single-fault mutant: drop a referenced component,
           rename a reference, add a back edge / self reference, duplicate an id, misspell or add a key at
           every level, give every present (and two absent) option(s) a value of the wrong type (per documented
           type every kind of value that is not acceptable for it: float with a fraction / text / list / dictionary
           for an integer, ... - in the body, the override of the loaded platform or a blueprint), remove a
           used variable that one layer defines (plain, array and array-index variables), rename the array /
           the index variable at the place of use; the reference faults also through variables: a variable
           whose value names a missing producer, a spelled-out reference replaced by one that reaches the
           missing producer through a new variable, a back edge / self reference held in a new variable, the
           variable of a reference removed; the variable `replica`: the replication that defines it removed
           (replicate missing / 0 / null) from a component that uses it, `%(replica)s` used (arguments, array
           index, executable, component / global variable) by a component outside any replication.
Observed : WorkflowGraph.graphFromFlowIR(doc, manifest, primitive=False)            (dictionary API)
           ExperimentConfigurationFactory.configurationForExperiment(pkg, validate=True, primitive=False)
                                                                                     (file API, package on disk)
           for accepted base documents also Experiment.experimentFromPackage + validateExperiment(
           checkExecutables=False) on the materialised package.
Oracle   : accepted  => graph is a DAG, identifiers unique, every reference of every node resolves to a node
                        or a direct (folder) reference, configurationForNode succeeds for every node;
           base document => accepted by both APIs;
           mutant    => rejected with the invalid-configuration family: ExperimentInvalidConfigurationError, or
                        on the dictionary API also a FlowIRException / FlowIRSyntaxException subclass.  Any
                        other exception type, acceptance, or a reproduced watchdog time-out is a violation.
"""
from __future__ import annotations

import copy
import json
import os
import re
import shutil
import signal
import subprocess
import sys
import traceback

import vlib

vlib.bootstrap()

from checks import _c11_gen as G  # noqa: E402

PROP = "C11"

K_BOOLWORD = "C11:aggregate-word-accepted"
K_RAWCTOR = "C11:dict-api-concrete-constructor-raw-exception"
K_VARCYCLE = "C11:cycle-through-variable-spelled-reference"
K_REPLFLOAT = "C11:replicate-fractional-float-truncated"
K_REPLICAVAR = "C11:replica-variable-outside-replication"


from checks import _c11_watchdog as WD  # noqa: E402

CaseTimeout = WD.CaseTimeout


# --------------------------------------------------------------------------- observation (real code)

def _exc_record(e, phase):
    import experiment.model.errors as E
    tb = traceback.extract_tb(e.__traceback__)
    last = tb[-1] if tb else None
    fam = None
    if isinstance(e, E.ExperimentInvalidConfigurationError):
        fam = "ExperimentInvalidConfigurationError"
    elif isinstance(e, E.FlowIRException):
        fam = "FlowIRException"
    elif isinstance(e, E.FlowIRSyntaxException):
        fam = "FlowIRSyntaxException"
    inner = []
    try:
        if fam == "ExperimentInvalidConfigurationError":
            ue = e.underlyingError
            inner = [type(x).__name__ for x in getattr(ue, "underlyingErrors", [])][:6] or [type(ue).__name__]
    except Exception:  # noqa
        pass
    return {"status": "rejected" if fam else "other", "family": fam, "type": type(e).__name__, "phase": phase,
            "inner": inner, "msg": str(e)[:300].replace("\n", " "),
            "frames": ["%s:%s" % (os.path.basename(f.filename), f.name) for f in tb][-8:],
            "where": "%s:%s %s" % (os.path.basename(last.filename), last.lineno, last.name) if last else None}


_ABSREF = re.compile(r"^stage(\d+)\.([^/:]+)(/[^:]*)?:(\w+)$")


def accept_side(wg, manifest_keys):
    """structural checks on an accepted workflow -> list of problems"""
    import networkx
    problems = []
    try:
        g = wg.graph
        nodes = list(g.nodes)
    except CaseTimeout:
        raise
    except BaseException as e:  # noqa
        return None, _exc_record(e, "graph")
    if not networkx.is_directed_acyclic_graph(g):
        problems.append("graph has a cycle: %r" % (list(networkx.find_cycle(g))[:4],))
    concrete = wg.configuration.get_flowir_concrete(return_copy=False)
    raw_ids = ["stage%s.%s" % (c.get("stage", 0), c.get("name")) for c in concrete.get_components()]
    if len(raw_ids) != len(set(raw_ids)):
        problems.append("component identifiers are not unique: %r" % (sorted(raw_ids),))
    if sorted(raw_ids) != sorted(nodes):
        problems.append("graph nodes %r differ from component identifiers %r" % (sorted(nodes), sorted(raw_ids)))
    folders = set(manifest_keys) | {"input", "data", "bin", "conf"}
    try:
        for dep in concrete.get_application_dependencies():
            folders.add(os.path.splitext(os.path.basename(dep))[0])
    except Exception:  # noqa
        pass
    nset = set(nodes)
    for n in nodes:
        mst = re.match(r"stage(\d+)\.", n)
        try:
            conf = wg.configuration.configurationForNode(n)
        except CaseTimeout:
            raise
        except BaseException as e:  # noqa
            problems.append("configurationForNode(%s) raises %s: %s" % (n, type(e).__name__, str(e)[:150]))
            continue
        for ref in conf.get("references", []):
            m = _ABSREF.match(ref)
            if m and ("stage%s.%s" % (m.group(1), m.group(2))) in nset:
                continue
            first = ref.split(":")[0].split("/")[0]
            if first in folders:
                continue
            # a reference held in a variable keeps its relative form: it is relative to the stage of its owner
            if mst and ("stage%s.%s" % (mst.group(1), first)) in nset:
                continue
            problems.append("reference %r of %s points to nothing (nodes %r)" % (ref, n, sorted(nset)))
    return {"nodes": sorted(nodes), "n_edges": g.number_of_edges(), "problems": problems}, None


def observe_dict(doc, manifest, platform=None, primitive=False):
    import experiment.model.graph
    try:
        wg = experiment.model.graph.WorkflowGraph.graphFromFlowIR(copy.deepcopy(doc), dict(manifest), primitive=primitive,
                                                                  platform=platform)
    except CaseTimeout:
        raise
    except BaseException as e:  # noqa
        if isinstance(e, (KeyboardInterrupt, SystemExit)):
            raise
        return _exc_record(e, "load")
    info, late = accept_side(wg, list(manifest))
    if late is not None:
        late["late"] = True
        return late
    return {"status": "accepted", **info}


def write_package(doc, files, root):
    import yaml
    pkg = os.path.join(root, "wf.package")
    os.makedirs(os.path.join(pkg, "conf"))
    with open(os.path.join(pkg, "conf", "flowir_package.yaml"), "w") as f:
        yaml.safe_dump(doc, f, sort_keys=False)
    for rel, text in (files or {}).items():
        p = os.path.join(pkg, rel)
        os.makedirs(os.path.dirname(p), exist_ok=True)
        with open(p, "w") as f:
            f.write(text)
    return pkg


def observe_file(doc, files, materialise=False, platform=None, manifest=None, primitive=False):
    import experiment.model.conf
    root = vlib.mkscratch("c11pkg")
    try:
        pkg = write_package(doc, files, root)
        try:
            conf = experiment.model.conf.ExperimentConfigurationFactory.configurationForExperiment(
                pkg, platform=platform, validate=True, primitive=primitive, createInstanceFiles=False,
                updateInstanceFiles=False, manifest=dict(manifest) if manifest else None)
        except CaseTimeout:
            raise
        except BaseException as e:  # noqa
            if isinstance(e, (KeyboardInterrupt, SystemExit)):
                raise
            return _exc_record(e, "load")
        out = {"status": "accepted", "problems": []}
        try:
            concrete = conf.get_flowir_concrete(return_copy=False)
            ids = ["stage%s.%s" % (c.get("stage", 0), c.get("name")) for c in concrete.get_components()]
            out["nodes"] = sorted(ids)
            if len(ids) != len(set(ids)):
                out["problems"].append("component identifiers are not unique: %r" % (sorted(ids),))
            for n in ids:
                try:
                    conf.configurationForNode(n)
                except CaseTimeout:
                    raise
                except BaseException as e:  # noqa
                    out["problems"].append("configurationForNode(%s) raises %s: %s" % (n, type(e).__name__, str(e)[:150]))
        except CaseTimeout:
            raise
        except BaseException as e:  # noqa
            out["problems"].append("inspecting the accepted configuration raises %s: %s" % (type(e).__name__, str(e)[:150]))
        if materialise:
            import experiment.model.storage
            import experiment.model.data
            try:
                ep = experiment.model.storage.ExperimentPackage.packageFromLocation(
                    pkg, platform=platform, manifest=dict(manifest) if manifest else None)
                exp = experiment.model.data.Experiment.experimentFromPackage(ep, location=root, platform=platform)
                exp.validateExperiment(checkExecutables=False)
                import networkx
                if not networkx.is_directed_acyclic_graph(exp.graph):
                    out["problems"].append("materialised experiment graph has a cycle")
                out["materialised"] = True
            except CaseTimeout:
                raise
            except BaseException as e:  # noqa
                rec = _exc_record(e, "materialise")
                out["problems"].append("materialising / validateExperiment raises %s: %s (%s)" % (
                    rec["type"], rec["msg"][:200], rec["inner"]))
        return out
    finally:
        shutil.rmtree(root, ignore_errors=True)


def observe(case):
    primitive = case["api"].endswith("-primitive")
    if case["api"].startswith("dict"):
        return observe_dict(case["doc"], case.get("manifest") or {}, platform=case.get("platform"), primitive=primitive)
    return observe_file(case["doc"], case.get("files") or {}, materialise=case.get("materialise", False),
                        platform=case.get("platform"), manifest=case.get("manifest") or None, primitive=primitive)


def warmup():
    """import everything the loader needs BEFORE the watchdog is armed (an alarm that fires in the middle
    of an import leaves a half-initialised module behind)"""
    import yaml  # noqa
    import networkx  # noqa
    import experiment.model.graph  # noqa
    import experiment.model.conf  # noqa
    import experiment.model.storage  # noqa
    import experiment.model.data  # noqa
    import experiment.model.errors  # noqa
    try:
        observe_dict({"components": [{"name": "warm", "command": {"executable": "echo"}}]}, {})
        observe_file({"components": [{"name": "warm", "command": {"executable": "echo"}}]}, {}, materialise=True)
    except Exception:  # noqa
        pass


def observe_guarded(case, w=None):
    """observe() under the per-case watchdog (see _c11_watchdog)"""
    return WD.guarded("checks.C11", case, observe, w)


def _intkeys(doc):
    """JSON turned the integer stage keys of variables.<platform>.stages into strings; restore them."""
    try:
        for plat in doc.get("variables", {}).values():
            if isinstance(plat, dict) and isinstance(plat.get("stages"), dict):
                plat["stages"] = {int(k) if isinstance(k, str) and k.lstrip("-").isdigit() else k: v
                                  for k, v in plat["stages"].items()}
    except AttributeError:
        pass
    return doc



# --------------------------------------------------------------------------- oracle

def judge_mutant(out, api):
    st = out["status"]
    if st == "rejected":
        if out["family"] == "ExperimentInvalidConfigurationError":
            return None
        if api.startswith("dict") and out["family"] in ("FlowIRException", "FlowIRSyntaxException"):
            return None
        return "rejected with %s (family %s) on the %s API, expected ExperimentInvalidConfigurationError" % (
            out["type"], out["family"], api)
    if st == "accepted":
        return "broken workflow accepted (%s API)%s" % (api, "; then: " + "; ".join(out["problems"][:2]) if out.get("problems") else "")
    if st == "hang":
        return "loading does not terminate (watchdog reproduced 3x in fresh processes; %s)" % (out.get("where"),)
    if st == "other":
        return "raises %s (%s) at %s instead of an invalid-configuration error (%s API, phase %s)" % (
            out["type"], out["msg"][:120], out.get("where"), api, out.get("phase"))
    return None


def judge_base(out, api, ids):
    st = out["status"]
    if st == "accepted":
        ps = list(out.get("problems") or [])
        if not ids.get("replicated") and sorted(out.get("nodes") or []) != sorted(ids["ids"]):
            ps.append("nodes %r, expected %r" % (out.get("nodes"), ids["ids"]))
        return ("accepted workflow is not structurally executable: " + "; ".join(ps[:3])) if ps else None
    if st == "rejected":
        return "well-formed workflow rejected (%s API): %s %s %s" % (api, out["type"], out["inner"], out["msg"][:200])
    if st == "hang":
        return "loading a well-formed workflow does not terminate (%s)" % (out.get("where"),)
    if st == "other":
        return "well-formed workflow raises %s (%s) at %s" % (out["type"], out["msg"][:150], out.get("where"))
    return None


def cycle_only_through_variables(doc, platform):
    """True when the references of doc close a dependency cycle, and no cycle is left once the references
    whose producer is spelled with a variable are ignored (read back from the document, not from the loader)"""
    import networkx
    full, literal = networkx.DiGraph(), networkx.DiGraph()
    for a, b, through_variable in G.resolved_edges(doc, platform):
        full.add_edge(a, b)
        if not through_variable:
            literal.add_edge(a, b)
    return (not networkx.is_directed_acyclic_graph(full)) and networkx.is_directed_acyclic_graph(literal)


def classify(mut, out_by_api, case=None):
    """known-finding classifier over the witness"""
    if not mut:
        return None
    path = list(mut.get("where") or [])[1:]
    # the only load-time cycle detector (the topological sort of FlowIR.propagate_replicate) does not see a
    # reference whose producer is spelled with a variable: a cycle that needs such a reference is accepted
    if (mut.get("class") == "cycle" and case is not None
            and all(o["status"] == "accepted" for o in out_by_api.values())
            and cycle_only_through_variables(case["doc"], case.get("platform"))):
        return K_VARCYCLE
    if (mut["kind"] == "wrong-type" and mut.get("class") == "word-for-bool" and mut.get("doc_type") == "bool"
            and path == ["workflowAttributes", "aggregate"]
            and isinstance(mut.get("value"), str)
            and mut["value"].lower() not in ("true", "false", "yes", "no", "y", "n", "0", "1", "")
            and all(o["status"] == "accepted" for o in out_by_api.values())):
        return K_BOOLWORD
    # workflowAttributes.replicate is read by the replication step itself (FlowIR.apply_replicate: int(value)), which
    # truncates a float with a fractional part >= 1 (2.5 -> 2 replicas) before any schema sees it
    if (mut["kind"] == "wrong-type" and mut.get("class") == "nonintegral-float-for-int"
            and path == ["workflowAttributes", "replicate"] and mut.get("location") == "body"
            and isinstance(mut.get("value"), float) and mut["value"] != int(mut["value"]) and mut["value"] >= 1
            and all(o["status"] == "accepted" for o in out_by_api.values())):
        return K_REPLFLOAT
    # `replica` is only defined inside replicas, but FlowIRConcrete.validate always resolves components as if the
    # workflow were still primitive (is_primitive=True tolerates an unknown `replica`): a component outside any
    # replication that uses it is accepted and fails later (configurationForNode), or - dictionary API, array index -
    # raises the bare ValueError of FlowIR.interpolate while the graph is built
    if mut["kind"] in ("remove-replication", "replica-outside-replication") and mut.get("class") == "undefined-variable":
        def about_replica(o):
            if o["status"] == "accepted":
                ps = o.get("problems") or []
                return bool(ps) and all(("replica" in p_) and ("FlowIRVariableUnknown" in p_ or "ValueError: ArrayIndex" in p_) for p_ in ps)
            return (o["status"] == "other" and o["type"] == "ValueError" and o["msg"].startswith('ArrayIndex "replica"')
                    and "flowir.py:interpolate" in (o.get("frames") or []))
        if all(about_replica(o) or o["status"] == "rejected" for o in out_by_api.values()) \
                and any(about_replica(o) for o in out_by_api.values()):
            return K_REPLICAVAR
    # so a non-FlowIR exception raised while it indexes a wrongly typed 'references' / 'stage' escapes as is
    o = out_by_api.get("dict")
    if (mut["kind"] == "wrong-type" and path in (["references"], ["stage"]) and o is not None
            and o["status"] == "other" and o.get("phase") == "load" and o["type"] in ("TypeError", "ValueError")):
        fr = o.get("frames") or []
        if "graph.py:graphFromFlowIR" in fr:
            k = fr.index("graph.py:graphFromFlowIR")
            if fr[k + 1:k + 2] == ["flowir.py:__init__"] and not any(x.startswith("conf.py:") for x in fr):
                return K_RAWCTOR
    return None


# --------------------------------------------------------------------------- worker

def base_key(base):
    d = base["doc"]
    comps = d["components"]
    layers = sorted({l[0][0] for l in base["var_layers"].values()})
    sp = base.get("spelled") or []
    return "b|c%d|s%d|e%d|r%d|%s|a%d|v%d%s|p%d" % (
        len(comps), len({c.get("stage", 0) for c in comps}), min(len(G.edges_of(base.get("lit") or d)), 6),
        int(base["replicated"]), "".join(x[0] for x in layers), min(len(base.get("arrays", [])), 3),
        min(len(sp), 3), "".join(sorted({x["form"][0] + x["form"][-1] for x in sp}))[:8], int(bool(base.get("platform"))))


def mut_key(m, base):
    where = m["where"]
    opt = ".".join(str(x) for x in where[1:]) if m["kind"] in ("wrong-type", "misspelt-key", "extra-key") else ""
    return "m|%s|%s|%s|c%d|r%d|%s|p%d|%s" % (m["kind"], m.get("class"), opt, len(base["doc"]["components"]),
                                             int(base["replicated"]), m.get("spell"), int(bool(base.get("platform"))),
                                             m.get("location")) + "|h%d|rel%d" % (
        int(bool(base.get("hazard"))), int(bool(m.get("relative"))))


ALWAYS_FILE_API = ("duplicate-id", "remove-index-variable", "remove-array-variable", "rename-index-at-use",
                   "rename-array-at-use", "index-out-of-range", "remove-replication", "replica-outside-replication")
# mutants whose fault sits in / behind a reference spelled with a variable: every second one also on the file API
# an undefined variable other than `replica` must also be rejected by a PRIMITIVE (unreplicated) validated load: these
# kinds additionally go through graphFromFlowIR(primitive=True) and configurationForExperiment(primitive=True)
PRIMITIVE_TOO = ("remove-index-variable", "remove-array-variable", "rename-index-at-use", "rename-array-at-use")
SPELLED_KINDS = ("back-edge-through-variable", "self-reference-through-variable", "rename-reference-in-variable",
                 "rename-reference-through-variable", "remove-reference-variable")


def run_job(job, w):
    warmup()
    produced = 0
    idx = job["start"]
    while produced < job["count"]:
        rnd = vlib.rng(PROP, "base", idx)
        this = idx
        idx += job["stride"]
        base = G.gen_base(rnd, small=job.get("small", False))
        produced += 1
        doc = base["doc"]
        ok = True
        platform = base.get("platform")
        for api in ("dict", "file"):
            declared = any(h["declared"] for h in base.get("hazard") or [])
            case = {"api": api, "doc": doc, "files": base["files"], "manifest": base.get("manifest") or {},
                    "platform": platform,
                    # a declared application dependency / manifest folder has no real source to link or copy
                    "materialise": api == "file" and (this % job["materialise_every"] == 0) and not declared}
            out = observe_guarded(case, w)
            if out["status"] == "unknown":
                w.note_inconclusive("watchdog fired on a base document but confirmation was not conclusive")
                ok = False
                continue
            w.evaluated()
            w.count("base_%s_api" % api)
            if case["materialise"]:
                w.count("base_materialised")
            bad = judge_base(out, api, base)
            if bad:
                ok = False
                w.violation(bad, {"kind": "base", "case": case, "ids": {"ids": base["ids"], "replicated": base["replicated"]},
                                  "outcome": out})
            else:
                w.count("base_accept_side_held")
                w.count("accept_side_nodes_checked", len(out.get("nodes") or []))
        if not ok:
            continue
        w.count("base_documents")
        w.distinct(base_key(base))
        if base["replicated"]:
            w.count("base_replicated")
        if base.get("hazard"):
            w.count("base_with_folder_like_component_names")
            for h in base["hazard"]:
                w.count("folder_like_name_%s_%s" % (h["kind"], "declared" if h["declared"] else "undeclared"))
        if base.get("spelled"):
            w.count("base_with_variable_spelled_references")
            w.count("variable_spelled_reference_sites", len(base["spelled"]))
            if platform:
                w.count("base_loaded_for_a_non_default_platform")
            for sp in base["spelled"]:
                w.count("spelled_form_%s_%s" % (sp["form"], sp["where"]))
                for rec in sp["vars"]:
                    w.count("spelled_variable_layer_" + ("chain" if rec.get("chain") else "+".join(l[0] for l in rec["layers"])))
        if base.get("arrays"):
            w.count("base_with_array_variables")
            w.count("array_access_sites", len(base["arrays"]))
            for a in base["arrays"]:
                w.count("array_site_" + ".".join(a["path"]) + ("_replica" if a.get("replica") else ("_var_index" if a["idx"] else "_literal_index")))
        ms = G.mutants(rnd, base, all_values=job.get("all_values", True))
        if len(w.samples) < 1:
            w.sample({"base": doc, "n_mutants": len(ms), "first_mutant": {k: ms[0][k] for k in ("kind", "class", "where")}})
        for k, m in enumerate(ms):
            apis = ["dict"]
            spelled_fault = m["kind"] in SPELLED_KINDS or bool(m.get("spell")) or bool(m.get("via_variable"))
            if (m["kind"] in ALWAYS_FILE_API or (this + k) % job["file_every"] == 0
                    or (spelled_fault and (this + k) % 2 == 0)):
                apis.append("file")
            if m["kind"] in PRIMITIVE_TOO and not any(a.get("replica") for a in base.get("arrays") or []):
                apis += ["dict-primitive", "file-primitive"]
            outs = {}
            for api in apis:
                case = {"api": api, "doc": m["doc"], "files": base["files"], "manifest": base.get("manifest") or {},
                        "platform": platform}
                out = observe_guarded(case, w)
                if out["status"] == "unknown":
                    w.note_inconclusive("watchdog fired on a mutant but confirmation was not conclusive")
                    continue
                outs[api] = out
            mrec = {kk: m[kk] for kk in m if kk != "doc"}
            for api, out in outs.items():
                if m.get("info_only"):
                    # not covered by the statement's fault list: recorded, never judged
                    w.count("info_%s_%s" % (m["kind"], out["status"] if out["status"] != "rejected" else "rejected_" + str(out.get("family"))))
                    continue
                w.evaluated()
                w.count("mutant_cases")
                w.count("mutant_%s_api" % api.replace("-", "_"))
                w.count("mutant_" + m["kind"])
                if m["kind"] == "wrong-type":
                    w.count("mistype_%s" % m.get("class"))
                    w.count("mistype_written_in_%s" % m.get("location"))
                    if m.get("class") == "nonintegral-float-for-int" and m.get("location") == "body":
                        w.count("mistype_nonintegral-float-for-int_in_body")
                if base.get("hazard") and m.get("class") in ("cycle", "dangling-reference"):
                    w.count("mutant_%s_in_document_with_folder_like_names" % m["class"])
                    if m.get("relative"):
                        w.count("mutant_relative_closing_edge_in_document_with_folder_like_names")
                if m.get("relative"):
                    w.count("mutant_relative_closing_edge")
                if spelled_fault:
                    w.count("mutant_fault_at_variable_spelled_reference")
                    w.count("mutant_fault_at_variable_spelled_reference_%s_api" % api)
                bad = judge_mutant(out, api)
                if bad:
                    case = {"api": api, "doc": m["doc"], "files": base["files"], "manifest": base.get("manifest") or {},
                            "platform": platform}
                    at = "/".join(map(str, m["where"])) + (" = %r (written in the %s)" % (m.get("value"), m["location"])
                                                             if m.get("location") else "")
                    w.violation("mutant %s/%s at %s: %s" % (m["kind"], m.get("class"), at, bad),
                                {"kind": "mutant", "mutation": mrec, "case": case,
                                 "outcome": out, "outcomes_all_apis": outs},
                                classify(mrec, outs if api != "dict" or out["status"] != "other" else {"dict": out}, case))
                else:
                    w.count("mutant_rejected_properly")
                    w.count("rejected_family_" + str(out.get("family")))
                    if out.get("late"):
                        w.count("rejected_late_at_graph_access")
            w.distinct(mut_key(m, base))


def run_one(argv):
    import resource
    # never outlive the parent as a spinning orphan: hard CPU limit for this confirmation process
    resource.setrlimit(resource.RLIMIT_CPU, (60, 70))
    i = argv.index("--one")
    with open(argv[i + 1]) as f:
        case = json.load(f)
    case["doc"] = _intkeys(case["doc"])
    warmup()
    out = observe(case)
    tmp = argv[i + 2] + ".tmp"
    with open(tmp, "w") as f:
        json.dump(out, f, default=repr)
    os.replace(tmp, argv[i + 2])
    sys.stdout.flush()
    os._exit(0)


if "--worker" in sys.argv:
    vlib.worker_main(run_job)
if "--one" in sys.argv:
    run_one(sys.argv)


# --------------------------------------------------------------------------- main

def replay(c, rp):
    warmup()
    w = vlib.Worker()
    wit = rp["witness"]
    case = wit["case"]
    case["doc"] = _intkeys(case["doc"])
    out = observe_guarded(case, w)
    w.evaluated()
    if wit["kind"] == "base":
        bad = judge_base(out, case["api"], wit["ids"])
        key = None
    else:
        bad = judge_mutant(out, case["api"])
        key = classify(wit.get("mutation"), {case["api"]: out}, case)
    if bad:
        w.violation(bad, {**wit, "outcome": out}, key)
    c.merge_worker(w.summary())
    print("replay of %s case on the %s API: %s" % (wit["kind"], case["api"], "still violates: " + bad if bad else "no longer violates"))


def main():
    c = vlib.Check(PROP, "fault_enumeration",
                   rule="distinct structural classes: base documents by (#components, #stages, #edges, replicated, "
                        "variable layers used, #array sites, #variable-spelled references and their forms, platform); "
                        "mutants by (fault kind, value class, option path / key level, #components, replicated, "
                        "spelling form of the faulty reference, platform)",
                   assumptions=[
                       "component names that equal a special folder (Data, INPUT, Bin, conF), an application dependency "
                       "(MyApp vs myapp.application) or a manifest folder (Mydata vs mydata) UP TO CASE are generated; the "
                       "exact lower-case spellings are not (data/input/bin/conf are reserved; a component called exactly like "
                       "a declared dependency / manifest folder is shadowed by the folder); documents that declare the "
                       "dependency / manifest folder are loaded (manifest handed to both APIs) but not materialised",
                       "base documents contain no DoWhile / $import documents and no component 'override' sections; "
                       "loop placeholders are therefore not exercised (see C05); a second platform only contributes "
                       "variables (global / stage) and is then the platform that both APIs load",
                       "a reference whose producer replicates is never spelled through a variable (replication does not "
                       "follow such references: the loader rejects the document as a dangling reference - C03 territory); "
                       "a whole reference held in one variable ('%(r)s' = 'stage0.b:ref') is not generated: the loader "
                       "requires the ':method' to be visible and rejects it with an invalid-configuration error; one "
                       "variable is never defined in two layers of different kind",
                       "faults inside the 'override' section of a platform that is not the one being loaded are recorded "
                       "as information only (info_override-unselected-platform-* counters): a replicated load validates "
                       "the instance of the selected platform, the statement does not say which platform's options count",
                       "wrongly typed values: the verdict per (documented option type, kind of written value) is fixed in "
                       "checks/_c11_gen.py TYPE_VERDICTS from the documented types (FlowIR component schema / DSL model), "
                       "never from the loader's converter. Judged (must be rejected): integer option <- float with a "
                       "fraction, non-integral numeric text, word, list, dictionary; number <- word, list, dictionary; "
                       "boolean <- float with a fraction, non-boolean word, list, dictionary; string <- list, dictionary; "
                       "enumeration <- unknown constant, integer, float, list, dictionary; list <- any scalar, dictionary",
                       "NOT judged, only recorded in info_mistype_<kind>-for-<type>_{body,layer}_<outcome> counters, because "
                       "the loader documents / customarily performs a conversion and the statement does not decide: "
                       "integer <- integral float (2.0), boolean (true), numeric text ('2'), null; number <- boolean, "
                       "numeric text, null; boolean <- 0/1/2, 1.0, 'yes'/'False', numeric text, null; string <- number, "
                       "boolean, null; enumeration <- boolean (YAML reads 'no' as false), null; list <- null; memory <- "
                       "boolean, float; a float for kubernetes.gracePeriod (schema: integer, DSL model: float)",
                       "a mistyped option is written in the component body, in the component's override of the platform "
                       "being loaded, or (only for an option the body does not set) in a blueprint global/stage section of "
                       "the loaded or the default platform; base documents themselves still carry options in bodies only",
                       "misspelt / extra keys are generated inside components only (top-level unknown sections of the "
                       "dictionary API are ignored by design of FlowIRConcrete and are not an 'option key')",
                       "a reference renamed only inside command.arguments is not generated: undeclared text is not a reference",
                       "on the dictionary API a FlowIRException / FlowIRSyntaxException subclass is an accepted "
                       "rejection (duplicate identifiers are detected while FlowIRConcrete is constructed, before the "
                       "loader's error collection starts)",
                       "the array-variable mutants (undefined array / index variable) additionally go through the PRIMITIVE "
                       "validated loads graphFromFlowIR(primitive=True) / configurationForExperiment(primitive=True): only "
                       "`replica` may be unknown there; documents that contain an access %(arr)s[%(replica)s] are not sent "
                       "through the primitive loads (with the index unknowable the primitive loader leaves the whole option "
                       "string alone and cannot see an undefined array / index in it; the replicated loads reject it - judged "
                       "there)",
                       "the file API is exercised for every duplicate-id and array-variable mutant, every second mutant whose "
                       "fault sits in or behind a variable-spelled reference and a deterministic 1-in-k sample of the others",
                       "an out-of-range literal array index is recorded as information only (info_index-out-of-range_* counters), not judged",
                   ])
    rp = vlib.load_replay(sys.argv)
    if rp is not None:
        replay(c, rp)
        sys.exit(c.finish())
    thorough = c.tier == "thorough"
    # count-driven: the mandatory jobs reach the floors whatever the machine load; surplus jobs are only
    # started while the time budget lasts
    import time
    per = 8 if thorough else 5
    n_mand = (1000 // per) if thorough else (155 // per)
    n_extra = (600 // per) if thorough else (40 // per)
    n_jobs = n_mand + n_extra
    jobs = [{"start": j, "stride": n_jobs, "count": per, "tier": c.tier, "file_every": 8 if thorough else 4,
             "materialise_every": 4 if thorough else 2, "all_values": thorough, "small": not thorough} for j in range(n_jobs)]
    budget = 780 if thorough else 60
    env = {"PYTHONWARNINGS": "ignore::SyntaxWarning"}
    vlib.fanout("checks.C11", jobs[:n_mand], c, timeout=2400 if thorough else 1800, env=env)
    if c.elapsed() < budget:
        vlib.fanout("checks.C11", jobs[n_mand:], c, timeout=600, env=env, deadline=c.t0 + budget)
    else:
        c.count("surplus_jobs_not_started", n_extra)
    c.exhaustive = True
    c.extra["exhaustive_scope"] = "mutation positions per base document (dictionary API); base documents are sampled"
    c.floor("base_documents", 1000 if thorough else 150)
    c.floor("mutant_cases", 100000 if thorough else 2500)
    c.floor("mutant_file_api", 10000 if thorough else 400)
    c.floor("base_materialised", 200 if thorough else 60)
    for kind in ("drop-referenced-component", "rename-reference", "back-edge", "self-reference", "duplicate-id",
                 "misspelt-key", "extra-key", "wrong-type", "remove-variable"):
        c.floor("mutant_" + kind, 1000 if thorough else 100)
    for kind in ("remove-index-variable", "remove-array-variable", "rename-index-at-use", "rename-array-at-use"):
        c.floor("mutant_" + kind, 300 if thorough else 40)
    c.floor("base_with_array_variables", 300 if thorough else 60)
    c.floor("mutant_replica-outside-replication", 3000 if thorough else 400)
    c.floor("mutant_dict_primitive_api", 1500 if thorough else 200)
    c.floor("mutant_file_primitive_api", 1500 if thorough else 200)
    # component names that equal a special folder / application dependency / manifest folder up to case
    c.floor("base_with_folder_like_component_names", 250 if thorough else 40)
    c.floor("mutant_cycle_in_document_with_folder_like_names", 5000 if thorough else 500)
    c.floor("mutant_dangling-reference_in_document_with_folder_like_names", 1500 if thorough else 150)
    c.floor("mutant_relative_closing_edge", 3000 if thorough else 600)
    c.floor("mutant_remove-replication", 150 if thorough else 15)
    # classes of mistyped options (documented type <- kind of value), and where they are written
    for cls_, q, t in (("nonintegral-float-for-int", 80, 1500), ("nonintegral-numeric-string-for-int", 60, 1200),
                       ("word-for-int", 60, 1200), ("nonintegral-float-for-bool", 25, 500), ("word-for-bool", 40, 800),
                       ("nonintegral-float-for-enum", 20, 400), ("int-for-enum", 15, 300), ("list-for-scalar", 300, 5000),
                       ("dict-for-scalar", 200, 3000), ("scalar-for-list", 100, 1500), ("word-for-number", 150, 3000)):
        c.floor("mistype_" + cls_, t if thorough else q)
    c.floor("mistype_nonintegral-float-for-int_in_body", 400 if thorough else 40)
    c.floor("mistype_written_in_override", 3000 if thorough else 200)
    c.floor("mistype_written_in_blueprint-global", 500 if thorough else 40)
    c.floor("mistype_written_in_blueprint-stage", 1000 if thorough else 80)
    # references spelled through variables
    c.floor("base_with_variable_spelled_references", 300 if thorough else 50)
    c.floor("base_loaded_for_a_non_default_platform", 100 if thorough else 10)
    c.floor("variable_spelled_reference_sites", 500 if thorough else 70)
    for kind in ("back-edge-through-variable", "self-reference-through-variable"):
        c.floor("mutant_" + kind, 1000 if thorough else 100)
    c.floor("mutant_rename-reference-through-variable", 1000 if thorough else 80)
    for kind in ("rename-reference-in-variable", "remove-reference-variable"):
        c.floor("mutant_" + kind, 400 if thorough else 50)
    c.floor("mutant_fault_at_variable_spelled_reference_file_api", 2000 if thorough else 300)
    sys.exit(c.finish())


if __name__ == "__main__":
    main()
