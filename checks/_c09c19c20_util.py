"""Small helpers shared by the C09 / C19 / C20 check modules."""
import warnings


def quiet():
    # the repository has invalid escape sequences in non-raw strings; with PYTHONDONTWRITEBYTECODE the
    # SyntaxWarnings would be printed on every import
    warnings.filterwarnings('ignore', category=SyntaxWarning)
    warnings.filterwarnings('ignore', category=DeprecationWarning)


def finish_replay(c, label):
    """Verdict of a --replay run.  Does NOT rewrite the evidence file (a replay explores one case)."""
    for k, v in sorted(c.known_seen.items()):
        print("KNOWN-FINDING: property=%s %s [%s] (replayed case %s)" % (c.prop, c.known[k].get('what', v['what']), k, label))
    if c.violations:
        for v in c.violations[:5]:
            print("VIOLATION property=%s replay=%s  # still violates: %s" % (c.prop, label, v['what'][:400]))
        return 1
    if c.inconclusive:
        for wmsg in c.inconclusive[:3]:
            print("INCONCLUSIVE property=%s %s" % (c.prop, wmsg))
        return 2
    if not c.known_seen:
        print("HELD property=%s replayed case %s no longer violates" % (c.prop, label))
    return 0
