"""C05 - DoWhile unrolling is wired correctly for any number of iterations.

Workload: seeded DoWhile package shapes (checks/_c05_gen.py).  For every shape a real instance
directory is created (Experiment.experimentFromPackage) and
WorkflowGraph.instantiate_dowhile_next_iteration(doc, k, True) is called for k = 1..K exactly the way
Controller._instantiate_next_dowhile_iteration does.  After EVERY call the monitor reads the graph
nodes / edges / references / arguments, the placeholder metadata, the DoWhile state and
DataReference.resolve() of outside references, and the by-construction truth of the generator decides.
"""
from __future__ import annotations

import os
import sys
import time
import traceback

import vlib

vlib.bootstrap()

from checks import _c05_gen as G  # noqa: E402

PROP = "C05"
KEY_LATEST = "C05:latest-is-lexicographic-max"
KEY_AGG = "C05:aggregate-order-lexicographic"
KEY_MAP = "C05:map-placeholder-lexicographic-max"
KEY_REPL_CARRIED = "C05:replicated-carried-producer-unknown-at-next-iteration"
KEY_SEQ_SUB = "C05:import-rewrite-substitutes-references-sequentially"
KEY_NAMESAKE = "C05:looped-component-matched-by-name-ignoring-stage"
KEY_LOOPOUT_LATEST = "C05:loopoutput-true-reference-names-latest-instance-only"


def classify_members(method, k, tr, exp_latest):
    """KEY_LOOPOUT_LATEST iff the aggregate is a :loopoutput, more than one instance exists and the producers
    named are exactly the single instance of the newest iteration (what a non-aggregate reference answers)"""
    if method == "loopoutput" and k >= 1 and tr is not None and [tuple(x) for x in tr] == [exp_latest]:
        return KEY_LOOPOUT_LATEST
    return None


def sequential_substitution(plan, prefix="-v ", suffix=" --tag=%(loopIteration)s"):
    """the argument string if every distinct spelled reference (in order of first appearance) is replaced by its
    correct rewrite with re.sub(r'\\b'+spelling+r'\\b', rewrite, text_so_far, count=1)"""
    import re
    text = prefix + " ".join(sp for sp, _ in plan) + suffix
    done = []
    for sp, new in plan:
        if sp in done:
            continue
        done.append(sp)
        text = re.sub(r"\b" + re.escape(sp) + r"\b", new.replace("\\", "\\\\"), text, 1)
    return text


def single_pass_substitution(plan, prefix="-v ", suffix=" --tag=%(loopIteration)s"):
    return prefix + " ".join(new for _, new in plan) + suffix


def classify_exception(shape, exc):
    """KEY_REPL_CARRIED iff the shape has a loop binding whose producer is a replicated looped component and
    the exception is the loader's 'unknown reference' complaint naming exactly that un-rewritten binding
    (stage<consumer stage>.<binding>) on behalf of a consumer instance of an iteration k >= 1."""
    import re
    if type(exc).__name__ != "FlowIRReferenceToUnknownComponent" and "Unknown reference(s)" not in str(exc):
        return None
    m = re.search(r"Unknown reference\(s\) \['stage(\d+)\.([^']+)'\] by \"stage(\d+)\.(\d+)#([^\"]+)\"", str(exc))
    if not m:
        return None
    ref_stage, ref_name, c_stage, it, consumer = int(m.group(1)), m.group(2), int(m.group(3)), int(m.group(4)), m.group(5)
    by_name = {c["name"]: c for c in shape["body"]}
    b = shape["bindings"].get(ref_name)
    if not b or not b["loop"] or it < 1 or consumer not in by_name:
        return None
    prod = by_name.get(b["loop"]["comp"])
    prod_replicated = prod is not None and (prod.get("replicate") is not None or prod.get("follows") is not None)
    uses = any(bd["binding"] == ref_name for bd in by_name[consumer]["binds"])
    if prod_replicated and uses and ref_stage == c_stage == shape["S"] + by_name[consumer]["off"]:
        return KEY_REPL_CARRIED
    return None


def lex_max(k):
    return max(range(k + 1), key=lambda i: str(i))


def lex_order(k):
    return sorted(range(k + 1), key=lambda i: str(i))


def iter_of(node_or_name):
    """iteration number of 'stage2.10#echo' / '10#echo' (None if not an instance name)"""
    nm = node_or_name.split(".", 1)[1] if node_or_name.startswith("stage") and "." in node_or_name else node_or_name
    head = nm.split("#", 1)[0]
    return int(head) if "#" in nm and head.isdigit() else None


# ----------------------------------------------------------------------------- one shape

class ShapeRun:
    def __init__(self, shape, w, only_clause=None):
        self.only_clause = only_clause
        self.shape = shape
        self.w = w
        self.truth = G.Truth(shape)
        self.n_viol = 0
        self._forwarded = {}

    def viol(self, clause, k, what, detail, key=None):
        """Report; at most 2 reports per (clause, classifier key) and shape are forwarded (the rest is only
        counted) so that a flood of one mechanism can never push a different violation over the
        worker's cap of 200 witnesses."""
        if self.only_clause is not None and clause != self.only_clause:
            self.w.count("replay_other_clause_ignored_" + clause)
            return
        self.n_viol += 1
        self.w.count("viol_clause_" + clause)
        if key is not None:
            self.w.count("classified_" + key.split(":", 1)[1])
        n = self._forwarded.get((clause, key), 0)
        self._forwarded[(clause, key)] = n + 1
        if n >= 2:
            self.w.count("witnesses_not_forwarded_same_clause_same_shape")
            return
        witness = {"shape": self.shape, "k": k, "clause": clause, "detail": detail}
        self.w.violation("%s at k=%d: %s" % (clause, k, what), witness, finding_key=key)

    # -- setup
    def build(self):
        import experiment.model.data
        import experiment.model.storage
        root = vlib.mkscratch("c05")
        pkg = os.path.join(root, "s%d.package" % self.shape["idx"])
        os.makedirs(os.path.join(pkg, "conf"))
        main, dw = G.render(self.shape)
        with open(os.path.join(pkg, "conf", "flowir_package.yaml"), "w") as f:
            f.write(main)
        with open(os.path.join(pkg, "conf", "dowhile.yaml"), "w") as f:
            f.write(dw)
        if self.shape.get("twin"):
            with open(os.path.join(pkg, "conf", "twin.yaml"), "w") as f:
                f.write(G.render_twin(self.shape))
        self.root = root
        os.chdir(root)
        package = experiment.model.storage.ExperimentPackage.packageFromLocation(pkg)
        self.exp = experiment.model.data.Experiment.experimentFromPackage(package, location=root)
        self.g = self.exp.experimentGraph
        self.inst = self.exp.instanceDirectory.location
        docs = self.g._documents["DoWhile"]
        self.dw_id = "stage%d.%s" % (self.shape["S"], self.shape["dw_name"])
        self.twin_id = None
        if self.shape.get("twin"):
            self.twin_id = "stage%d.%s" % (self.shape["twin"]["stage"], self.shape["twin"]["name"])
        assert sorted(docs.keys()) == sorted(x for x in (self.dw_id, self.twin_id) if x), docs.keys()

    def workdir(self, stage, name):
        return os.path.join(self.inst, "stages", "stage%d" % stage, name)

    def materialise(self, k):
        """create working directories + output files of the instances of iteration k (what the engine
        would have produced) so that :output / :loopoutput can be resolved"""
        t = self.truth
        for c in t.body:
            for sfx in t.suffixes(c["name"]):
                nm = "%d#%s%s" % (k, c["name"], sfx)
                d = self.workdir(t.stage(c["name"]), nm)
                os.makedirs(d, exist_ok=True)
                with open(os.path.join(d, "out.stdout"), "w") as f:
                    f.write("OUT[%s]\n" % nm)
                for fn in ("res.txt",):
                    with open(os.path.join(d, fn), "w") as f:
                        f.write("FILE[%s/%s]\n" % (nm, fn))

    def inloop_aggregate(self, k, c, it, node, got_pred):
        """Aggregate loop references held by instance `it` of a LOOPED component (reader inside the loop): after k
        further iterations each of them lists ALL instances 0..k of the sibling it names, in increasing iteration
        order (paths for :loopref, contents for :loopoutput), and the reader waits for the instances 0..it that
        exist when it is created.  Read from the DataReference objects the instance really carries."""
        g, t, w = self.g, self.truth, self.w
        spec = g.graph.nodes[node]["componentSpecification"]
        held = list(spec.dataReferences)
        for a in c["agg"]:
            tn, method, file = a["to"], a["method"], a["file"]
            tst = t.stage(tn)
            w.count("clause_inloop_aggregate_resolve")
            if k >= 10:
                w.count("clause_inloop_aggregate_resolve_k_ge_10")
            if it < k:
                w.count("clause_inloop_aggregate_resolve_older_instance")
            mine = [dr for dr in held if dr.method == method]
            if len(mine) != 1:
                self.viol("inloop_aggregate", k, "instance %s holds %d :%s references (%s), expected one to %s" % (
                    node, len(mine), method, [dr.absoluteReference for dr in held], G.ref_str(tst, tn, file, method)),
                          {"node": node, "held": [dr.absoluteReference for dr in held], "method": method})
                continue
            dirs = [self.workdir(tst, "%d#%s" % (i, tn)) for i in range(k + 1)]
            if method == "loopref":
                exp = " ".join((os.path.join(d, file) if file else d) for d in dirs)
            else:
                exp = " ".join(("FILE[%d#%s/%s]" % (i, tn, file)) if file else ("OUT[%d#%s]" % (i, tn)) for i in range(k + 1))
            try:
                got = mine[0].resolve(g)
            except Exception as e:
                self.viol("inloop_aggregate", k, "instance %s: resolve(%s) raised %s: %s" % (
                    node, mine[0].absoluteReference, type(e).__name__, str(e)[:300]),
                          {"node": node, "reference": mine[0].absoluteReference, "error": repr(e)[:600]})
                continue
            if got != exp:
                self.viol("inloop_aggregate", k, "instance %s: %s resolves to %s expected instances 0..%d in order" % (
                    node, mine[0].absoluteReference, got.replace(self.inst, "$I"), k),
                          {"node": node, "reference": mine[0].absoluteReference, "got": got.replace(self.inst, "$I"),
                           "expected": exp.replace(self.inst, "$I")})
            tr = mine[0].true_reference_to_component_id(g)
            exp_tr = sorted((tst, "%d#%s" % (i, tn)) for i in range(k + 1))
            w.count("clause_inloop_aggregate_members")
            if tr is None or sorted(tuple(x) for x in tr) != exp_tr:
                self.viol("inloop_aggregate_members", k, "instance %s: %s covers %s expected %s" % (
                    node, mine[0].absoluteReference, tr, exp_tr),
                          {"node": node, "reference": mine[0].absoluteReference, "got": tr, "expected": exp_tr},
                          classify_members(method, k, tr, (tst, "%d#%s" % (k, tn))))
            need = set(t.instance_id(tn, i) for i in range(it + 1))
            w.count("clause_inloop_aggregate_edge")
            if not need <= set(got_pred):
                self.viol("inloop_aggregate_edge", k, "instance %s aggregates %s but has no edge from %s" % (
                    node, tn, sorted(need - set(got_pred))),
                          {"node": node, "predecessors": got_pred, "needed": sorted(need)})

    # -- observation + oracle after iteration k
    def observe(self, k):
        import experiment.model.graph as MG
        import experiment.model.frontends.flowir as MF
        g, t, w = self.g, self.truth, self.w
        S = t.S
        w.count("iterations_observed")
        if k >= 10:
            w.count("iterations_observed_k_ge_10")

        # (1) exactly the instances 0..k of every looped component (and nothing else changes)
        got_nodes = sorted(g.graph.nodes)
        exp_nodes = sorted(t.nodes(k))
        w.count("clause_nodes")
        if got_nodes != exp_nodes:
            self.viol("nodes", k, "graph nodes differ from instances 0..k",
                      {"missing": sorted(set(exp_nodes) - set(got_nodes)),
                       "unexpected": sorted(set(got_nodes) - set(exp_nodes))})
            return False  # everything below would be noise

        # (2) wiring of every instance: references, arguments, predecessors.  ALL instances 0..k are
        # re-read at the checkpoints (every k <= 12, then every 3rd, and K) - a later iteration must not disturb
        # older instances - in between only the instances of the two newest iterations are re-read.
        full = k <= 12 or k % 3 == 0 or k == self.shape["K"]
        w.count("wiring_full_sweeps" if full else "wiring_newest_only_sweeps")
        for c in t.body:
            nm = c["name"]
            st = t.stage(nm)
            for it in (range(0, k + 1) if full else range(max(0, k - 1), k + 1)):
                for sfx in t.suffixes(nm):
                    node = t.instance_id(nm, it, sfx)
                    exp_in = t.instance_inputs(nm, it, sfx)
                    exp_refs = sorted(set(exp_in), key=repr)
                    got_refs = sorted(set(G.parse_ref(x, st) for x in g.dataReferencesForNode(node)), key=repr)
                    w.count("clause_references")
                    carried = any(self.shape["bindings"][b["binding"]]["loop"] for b in c["binds"])
                    if it > 0 and carried:
                        w.count("clause_carried_inputs")
                        if it >= 10:
                            w.count("clause_carried_inputs_it_ge_10")
                    if got_refs != exp_refs:
                        self.viol("references", k, "instance %s has references %s expected %s" % (
                            node, got_refs, exp_refs), {"node": node, "got": got_refs, "expected": exp_refs})
                    exp_pred = sorted(set("stage%d.%s" % (p[0], p[1]) for p in t.instance_inputs(nm, it, sfx, with_agg=False)))
                    got_pred = sorted(g.graph.predecessors(node))
                    w.count("clause_edges")
                    if c.get("agg"):
                        # reader of in-loop aggregate references: its ordinary inputs are judged as a lower bound here,
                        # the aggregates by inloop_aggregate() below (the statement does not fix the exact edge set)
                        if not set(exp_pred) <= set(got_pred):
                            self.viol("edges", k, "instance %s has producers %s, expected at least %s" % (
                                node, got_pred, exp_pred), {"node": node, "got": got_pred, "expected_subset": exp_pred})
                        self.inloop_aggregate(k, c, it, node, got_pred)
                    elif got_pred != exp_pred:
                        self.viol("edges", k, "instance %s has producers %s expected %s" % (
                            node, got_pred, exp_pred), {"node": node, "got": got_pred, "expected": exp_pred})
                    # arguments: every by-construction reference token, rewritten, appears once (aggregators
                    # expand one token into many; the token multiset is still what we expect)
                    conf = g.configurationForNode(node, raw=True)
                    args = (conf.get("command", {}).get("arguments") or "").split()
                    got_tok = sorted((G.parse_ref(x, st) for x in args if ":" in x and not x.startswith("-")), key=repr)
                    w.count("clause_arguments")
                    exp_tok = list(exp_in)
                    plain_comp = not t.is_repl(nm) and not c["aggregate"]
                    if plain_comp and c.get("dup") is not None:
                        exp_tok.append(exp_in[c["dup"]])
                        w.count("clause_arguments_repeated_token")
                    if plain_comp and it > 0 and any(x.get("spelling") == "rel" for x in c["intra"]):
                        w.count("clause_arguments_relative_spelling_it_gt_0")
                    if got_tok != sorted(exp_tok, key=repr):
                        key = None
                        if plain_comp:
                            # classifier: the text is exactly what substituting the references ONE AFTER THE OTHER
                            # (first occurrence only, in the text produced so far) yields
                            plan = t.arg_plan(nm, it)
                            if sequential_substitution(plan) == " ".join(args) != single_pass_substitution(plan):
                                key = KEY_SEQ_SUB
                        self.viol("arguments", k, "instance %s has arguments %r, reference tokens %s expected %s" % (
                            node, " ".join(args), got_tok, sorted(exp_tok, key=repr)),
                                  {"node": node, "got": got_tok, "expected": sorted(exp_tok, key=repr),
                                   "arguments": " ".join(args)}, key)

        # (3) placeholder metadata
        for p_id, nm, sfx in t.placeholder_ids():
            ph = g._placeholders.get(p_id)
            w.count("clause_placeholder")
            if ph is None:
                self.viol("placeholder", k, "no placeholder entry for %s" % p_id,
                          {"placeholder": p_id, "known": sorted(g._placeholders)})
                continue
            exp_rep = sorted(t.instance_id(nm, i, sfx) for i in range(k + 1))
            if sorted(ph["represents"]) != exp_rep:
                self.viol("represents", k, "placeholder %s represents %s expected %s" % (
                    p_id, sorted(ph["represents"]), exp_rep),
                          {"placeholder": p_id, "got": sorted(ph["represents"]), "expected": exp_rep})
            exp_latest = t.instance_id(nm, k, sfx)
            w.count("clause_latest")
            if k >= 10:
                w.count("clause_latest_k_ge_10")
            if ph["latest"] != exp_latest:
                key = None
                if k >= 10 and ph["latest"] == t.instance_id(nm, lex_max(k), sfx):
                    key = KEY_LATEST
                self.viol("latest", k, "placeholder %s latest=%s expected %s" % (p_id, ph["latest"], exp_latest),
                          {"placeholder": p_id, "got": ph["latest"], "expected": exp_latest, "site": "placeholder"},
                          key)
            # map_placeholder_id_to_iteration (flowir.py) answers the same question from component ids
            ids = g._concrete.get_component_identifiers(True)
            got = MF.map_placeholder_id_to_iteration((t.stage(nm), nm + sfx), [], ids)
            exp_m = (t.stage(nm), "%d#%s%s" % (k, nm, sfx))
            w.count("clause_map_placeholder")
            if got is None or tuple(got) != exp_m:
                key = None
                if k >= 10 and got is not None and tuple(got) == (t.stage(nm), "%d#%s%s" % (lex_max(k), nm, sfx)):
                    key = KEY_MAP
                tw0 = self.shape.get("twin")
                if tw0 and got is not None and nm == tw0["cond"] and got[0] == tw0["stage"] and iter_of(got[1]) is not None \
                        and 0 <= iter_of(got[1]) <= t.twin_iters(k) and got[1].split("#", 1)[1] == nm:
                    key = KEY_NAMESAKE      # the namesake of the package's second loop was returned
                self.viol("map_placeholder", k, "map_placeholder_id_to_iteration(%s) = %s expected %s" % (
                    (t.stage(nm), nm + sfx), got, exp_m), {"got": got, "expected": list(exp_m)}, key)

        # (4) loop state
        st = g._documents["DoWhile"][self.dw_id]["state"]
        ec = t.condition(k)
        w.count("clause_state")
        if k >= 10:
            w.count("clause_state_k_ge_10")
        got_c = G.parse_ref(st["currentCondition"], S)
        if st["currentIteration"] != k or got_c != ec:
            key = None
            tw0 = self.shape.get("twin")
            if tw0 and got_c[0] == tw0["stage"] and got_c[1] == "%d#%s" % (st["currentIteration"], tw0["cond"]) \
                    and 0 <= st["currentIteration"] <= t.twin_iters(k):
                key = KEY_NAMESAKE
            self.viol("state", k, "DoWhile state %s expected iteration %d condition %s" % (st, k, ec),
                      {"got": st, "expected": {"currentIteration": k, "currentCondition": list(ec)}}, key)

        # (4b) the second loop of the package (namesake condition component in another stage)
        tw = self.shape.get("twin")
        if tw:
            T, tk = tw["stage"], t.twin_iters(k)
            main_cond_stage = t.stage(self.shape["cond"]["comp"])
            w.count("clause_twin_state")
            st2 = g._documents["DoWhile"][self.twin_id]["state"]
            ec2 = (T, "%d#%s" % (tk, tw["cond"]), None, "output")
            got2 = G.parse_ref(st2["currentCondition"], T)
            if st2["currentIteration"] != tk or got2 != ec2:
                key = None
                # classifier: the state was taken from the NAMESAKE component of the other loop (right name, the
                # other loop's stage, an iteration that the other loop really has)
                if got2[0] == main_cond_stage and got2[1] == "%d#%s" % (st2["currentIteration"], tw["cond"]) \
                        and 0 <= st2["currentIteration"] <= k and got2[2:] == (None, "output"):
                    key = KEY_NAMESAKE
                self.viol("twin_state", k, "second DoWhile %s state %s expected iteration %d condition %s" % (
                    self.twin_id, st2, tk, ec2), {"got": st2, "expected": {"currentIteration": tk, "currentCondition": list(ec2)},
                                                  "namesake_stage": main_cond_stage}, key)
            for nm2 in (tw["cond"], tw["work"]):
                p_id = "stage%d.%s" % (T, nm2)
                ph = g._placeholders.get(p_id)
                w.count("clause_twin_placeholder")
                exp_rep = sorted("stage%d.%d#%s" % (T, i, nm2) for i in range(tk + 1))
                if ph is None or sorted(ph["represents"]) != exp_rep or ph["latest"] != "stage%d.%d#%s" % (T, tk, nm2):
                    self.viol("twin_placeholder", k, "placeholder %s is %s expected instances 0..%d" % (p_id, ph, tk),
                              {"placeholder": p_id, "got": ph, "expected_represents": exp_rep})
            for i in range(tk + 1):
                node = "stage%d.%d#%s" % (T, i, tw["work"])
                got_refs = sorted(set(G.parse_ref(x, T) for x in g.dataReferencesForNode(node)), key=repr)
                exp_refs = [(T, "%d#%s" % (i, tw["cond"]), None, "ref")]
                w.count("clause_twin_wiring")
                if got_refs != exp_refs or sorted(g.graph.predecessors(node)) != ["stage%d.%d#%s" % (T, i, tw["cond"])]:
                    self.viol("twin_wiring", k, "%s reads %s / %s expected %s" % (
                        node, got_refs, sorted(g.graph.predecessors(node)), exp_refs), {"node": node, "got": got_refs})
            # flowir.map_placeholder_id_to_iteration for both namesakes
            ids = g._concrete.get_component_identifiers(True)
            for stage_q, exp_it in ((T, tk), (main_cond_stage, k)):
                got = MF.map_placeholder_id_to_iteration((stage_q, tw["cond"]), [], ids)
                w.count("clause_twin_map_placeholder")
                if got is None or tuple(got) != (stage_q, "%d#%s" % (exp_it, tw["cond"])):
                    other = main_cond_stage if stage_q == T else T
                    other_it = k if stage_q == T else tk
                    key = KEY_NAMESAKE if (got is not None and got[0] == other and iter_of(got[1]) is not None
                                           and 0 <= iter_of(got[1]) <= other_it
                                           and got[1].split("#", 1)[1] == tw["cond"]) else None
                    self.viol("twin_map_placeholder", k, "map_placeholder_id_to_iteration((%d, %r)) = %s expected iteration %d" % (
                        stage_q, tw["cond"], got, exp_it), {"got": got, "stage": stage_q}, key)

        # (5) what references from outside the loop resolve to
        for cons in self.shape["consumers"]:
            tn = cons["target"]
            tst = t.stage(tn)
            method, file = cons["method"], cons["file"]
            for sfx in t.suffixes(tn):
                rs = G.ref_str(tst, tn + sfx, file, method)
                ref = MG.DataReference(rs, stageIndex=cons["stage"])
                dirs = [self.workdir(tst, "%d#%s%s" % (i, tn, sfx)) for i in range(k + 1)]

                def path_of(d):
                    return os.path.join(d, file) if file else d

                def content_of(i):
                    nm_i = "%d#%s%s" % (i, tn, sfx)
                    return ("FILE[%s/%s]" % (nm_i, file)) if file else ("OUT[%s]" % nm_i)

                try:
                    got = ref.resolve(g)
                except Exception as e:  # resolving a well-formed outside reference must not fail
                    self.viol("resolve_error", k, "resolve(%s) raised %r" % (rs, e), {"reference": rs, "error": repr(e)})
                    continue
                if method in ("loopref", "loopoutput"):
                    w.count("clause_aggregate_order")
                    if k >= 10:
                        w.count("clause_aggregate_order_k_ge_10")
                    if method == "loopref":
                        exp = " ".join(path_of(d) for d in dirs)
                        lex = " ".join(path_of(dirs[i]) for i in lex_order(k))
                    else:
                        exp = " ".join(content_of(i) for i in range(k + 1))
                        lex = " ".join(content_of(i) for i in lex_order(k))
                    if got != exp:
                        key = KEY_AGG if (k >= 10 and got == lex) else None
                        self.viol("aggregate_order", k, "%s resolves to %s expected increasing iteration order" % (
                            rs, got.replace(self.inst, "$I")),
                                  {"reference": rs, "got": got.replace(self.inst, "$I"),
                                   "expected": exp.replace(self.inst, "$I")}, key)
                    # membership of the aggregate
                    tr = ref.true_reference_to_component_id(g)
                    exp_tr = sorted((tst, "%d#%s%s" % (i, tn, sfx)) for i in range(k + 1))
                    w.count("clause_aggregate_members")
                    w.count("clause_aggregate_members_" + method)
                    if tr is None or sorted(tuple(x) for x in tr) != exp_tr:
                        self.viol("aggregate_members", k, "%s covers %s expected %s" % (rs, tr, exp_tr),
                                  {"reference": rs, "got": tr, "expected": exp_tr},
                                  classify_members(method, k, tr, (tst, "%d#%s%s" % (k, tn, sfx))))
                else:
                    w.count("clause_outside_resolve")
                    if k >= 10:
                        w.count("clause_outside_resolve_k_ge_10")
                    if method == "output":
                        exp = content_of(k)
                        lex = content_of(lex_max(k))
                    else:
                        exp = path_of(dirs[k])
                        lex = path_of(dirs[lex_max(k)])
                    if got != exp:
                        key = KEY_LATEST if (k >= 10 and got == lex) else None
                        self.viol("outside_resolve", k, "%s resolves to %s expected iteration %d" % (
                            rs, got.replace(self.inst, "$I"), k),
                                  {"reference": rs, "got": got.replace(self.inst, "$I"),
                                   "expected": exp.replace(self.inst, "$I"), "site": "resolve"}, key)
                    tr = ref.true_reference_to_component_id(g)
                    exp_tr = [(tst, "%d#%s%s" % (k, tn, sfx))]
                    w.count("clause_outside_true_reference")
                    if tr is None or [tuple(x) for x in tr] != exp_tr:
                        key = None
                        if k >= 10 and tr is not None and [tuple(x) for x in tr] == [
                                (tst, "%d#%s%s" % (lex_max(k), tn, sfx))]:
                            key = KEY_LATEST
                        self.viol("outside_true_reference", k, "%s refers to %s expected %s" % (rs, tr, exp_tr),
                                  {"reference": rs, "got": tr, "expected": exp_tr, "site": "true_reference"}, key)
            # the consumer waits for (has a dataflow edge from) the newest instance(s) it reads
            for cnode in [n for n in g.graph.nodes if n.split(".", 1)[1] in
                          ([cons["name"]] + [cons["name"] + str(r) for r in range(t.nrep or 0)])
                          and n.startswith("stage%d." % cons["stage"])]:
                preds = set(g.graph.predecessors(cnode))
                sfxs = t.suffixes(tn)
                cn = cnode.split(".", 1)[1]
                if t.is_repl(tn) and not cons["aggregate"]:
                    sfxs = [cn[len(cons["name"]):]]
                need = set(t.instance_id(tn, k, s) for s in sfxs)
                w.count("clause_outside_edge")
                if not need <= preds:
                    self.viol("outside_edge", k, "%s has no edge from newest instance %s" % (cnode, sorted(need - preds)),
                              {"node": cnode, "predecessors": sorted(preds), "needed": sorted(need)})
        return True

    def run(self):
        K = self.shape["K"]
        self.build()
        self.materialise(0)
        ok = self.observe(0)
        for k in range(1, K + 1):
            if not ok:
                break
            dw_node = self.g._documents["DoWhile"][self.dw_id]
            # exactly what Controller._instantiate_next_dowhile_iteration does
            self.g.instantiate_dowhile_next_iteration(dw_node["document"], k, True)
            self.materialise(k)
            if self.twin_id and k % 2 == 0:
                tw_node = self.g._documents["DoWhile"][self.twin_id]
                self.g.instantiate_dowhile_next_iteration(tw_node["document"], self.truth.twin_iters(k), True)
                self.w.count("twin_iterations_instantiated")
            ok = self.observe(k)
        return ok


def class_key(shape):
    body = shape["body"]
    nrep = [c["replicate"] for c in body if c.get("replicate") is not None]
    return "S%d|body%d.maxoff%d|rep%s%s%s|carried%d|inv%d|cons%s|cond%s%s" % (
        shape["S"], len(body), max(c["off"] for c in body), nrep[0] if nrep else "-",
        "v" if shape.get("repl_via_var") else "", ("+carried" if shape.get("repl_carried") else "") +
        ("+combo" if shape.get("combo") else "") + ("+twin" if shape.get("twin") else "") +
        ("+dup" if any(c.get("dup") is not None for c in body) else "") +
        "".join("+inagg:" + ",".join(a["method"] for a in c["agg"]) for c in body if c.get("agg")) +
        ("+rel" if any(x.get("spelling") == "rel" for c in body for x in c["intra"]) else ""),
        sum(1 for b in shape["bindings"].values() if b["loop"]),
        sum(1 for b in shape["bindings"].values() if not b["loop"]),
        ",".join(sorted(set(c["method"] for c in shape["consumers"]))),
        [c for c in body if c["name"] == shape["cond"]["comp"]][0]["off"],
        "f" if shape["cond"]["file"] else "")


def run_job(job, w):
    w.max_samples = 1
    if "controller" in job:
        # second slice: the loop is unrolled by a real Controller and the aggregate / latest references are
        # resolved by the real code when the consumers outside the loop are launched
        from rt import dowhile_rt
        dowhile_rt.run_controller_scenarios(job, w)
        return
    shapes = []
    if "shape" in job:
        shapes.append(job["shape"])
    else:
        for idx in job["indices"]:
            shapes.append(G.draw_shape(vlib.rng(PROP, "shape", idx), idx, job["K"]))
    for shape in shapes:
        run = ShapeRun(shape, w, only_clause=job.get("only_clause"))
        try:
            ok = run.run()
        except Exception as exc:
            if job.get("only_clause") not in (None, "exception"):
                raise
            key = classify_exception(shape, exc)
            if key is not None:
                w.count("classified_" + key.split(":", 1)[1])
                w.violation("exception while unrolling shape %d: %s" % (shape["idx"], str(exc)[-300:]),
                            {"shape": shape, "clause": "exception", "detail": traceback.format_exc()[-3000:]},
                            finding_key=key)
                w.evaluated()
                w.count("shapes_run")
                w.count("shapes_stopped_by_known_exception")
                import shutil
                os.chdir("/")
                shutil.rmtree(getattr(run, "root", "") or "/nonexistent", ignore_errors=True)
                continue
            # the generator only emits documents of the supported family: a crash while unrolling is a
            # violation of "the workflow contains the instances 0..k" only if we can name the iteration;
            # we report it as inconclusive-with-trace unless it is reproducible (it is deterministic, so
            # it is) -> violation with the trace as detail.
            w.count("viol_clause_exception")
            w.violation("exception while unrolling shape %d: %s" % (shape["idx"], traceback.format_exc()[-600:]),
                        {"shape": shape, "clause": "exception", "detail": traceback.format_exc()[-3000:]})
            ok = False
        import shutil
        os.chdir("/")
        shutil.rmtree(getattr(run, "root", "") or "/nonexistent", ignore_errors=True)   # keep scratch small
        w.evaluated()
        w.count("shapes_run")
        if ok:
            w.count("shapes_completed_to_K")
            w.distinct(class_key(shape))
        main, dw = G.render(shape)
        w.sample({"shape_idx": shape["idx"], "K": shape["K"], "class": class_key(shape),
                  "flowir_package.yaml": main, "dowhile.yaml": dw})


if "--worker" in sys.argv:
    vlib.worker_main(run_job)


def main():
    tier = vlib.tier()
    K, n_shapes = (12, 64) if tier == "quick" else (30, 352)   # 1 shape in 8 carries a replicated producer (known finding stops it at k=1)
    c = vlib.Check(PROP, "exploration",
                   rule="one case = one generated DoWhile package shape unrolled to K further iterations with the "
                        "oracle evaluated after EVERY iteration; distinct = distinct structural classes (import stage, "
                        "body size and max stage offset, replication, #carried/#invariant bindings, outside reference methods, "
                        "condition placement) among shapes that were unrolled to K; non-trivial = K >= 10",
                   assumptions=[
                       "names are mutually substring-free (textual substitution during replication / resolveArguments "
                       "belongs to C03/C10); repeated tokens and relative spellings only in non-replicated components",
                       "loop-carried producers sit in a body stage <= their consumer's; a replicated producer is only carried "
                       "into the replicated head of the same chain; replication inside the loop is the "
                       "replicate -> [follower] -> aggregate chain only",
                       ":loopref/:loopoutput are used by consumers outside the loop and, inside the loop, by one extra looped "
                       "component that nobody reads (a sink, so 'all instances' cannot close a cycle) and that aggregates "
                       "non-replicated siblings; for such a reader only a lower bound of its graph predecessors is judged "
                       "(its ordinary inputs and the instances 0..i of the aggregated sibling); at most two DoWhile documents per "
                       "package (the second is a fixed two-component loop with a namesake condition component)",
                       "outputs of instances are materialised by the harness at stages/stage<N>/<instance>/ "
                       "(out.stdout, res.txt) as the engine would have produced them",
                       "iterations are requested the way Controller._instantiate_next_dowhile_iteration does "
                       "(document taken from the graph, store_flowir_to_disk=True); the controller itself is not run",
                   ])
    rp = vlib.load_replay(sys.argv)
    if rp is not None:
        # re-run exactly the witness shape (to its K); only the witness' own clause decides the verdict
        shape = rp["witness"]["shape"]
        clause = rp["witness"].get("clause")
        vlib.fanout("checks.C05", [{"shape": shape, "only_clause": clause}], c, timeout=1800)
        c.extra["replayed"] = {"clause": clause, "shape_idx": shape.get("idx")}
        c.distinct("replay-a"), c.distinct("replay-b")   # schema wants >= 2; a replay is a single case
        print("REPLAY %s clause=%s: %s" % (sys.argv[sys.argv.index("--replay") + 1], clause,
                                           "still violates" if (c.violations or c.known_seen) else "no longer violates"))
        sys.exit(c.finish())

    per = 2 if tier == "quick" else 4
    idxs = list(range(n_shapes))
    jobs = [{"indices": idxs[i:i + per], "K": K} for i in range(0, len(idxs), per)]
    from rt import dowhile_rt
    crng = vlib.rng(PROP, "controller")
    n_ctl = 4 if tier == "quick" else 16
    for i in range(n_ctl):
        jobs.append({"controller": dowhile_rt.make_scenarios(crng, 4, 3 if (tier == "quick" or i % 4) else 12),
                     "K_dil": 20.0})
    vlib.fanout("checks.C05", jobs, c, timeout=600 if tier == "quick" else 1500)
    c.floor("clause_rt_aggregate_checked", 8 if tier == "quick" else 40)
    c.floor("clause_rt_latest_checked", 8 if tier == "quick" else 40)
    c.extra["K"] = K
    c.extra["shapes"] = n_shapes
    c.floor("shapes_completed_to_K", 25 if tier == "quick" else 300)
    c.floor("clause_latest_k_ge_10", 25 * 3 if tier == "quick" else 300 * 21)
    c.floor("clause_state_k_ge_10", 25 * 3 if tier == "quick" else 300 * 21)
    c.floor("clause_carried_inputs_it_ge_10", 25 if tier == "quick" else 300)
    c.floor("clause_aggregate_order_k_ge_10", 10 if tier == "quick" else 100)
    c.floor("clause_outside_resolve_k_ge_10", 10 if tier == "quick" else 100)
    c.floor("clause_inloop_aggregate_resolve_k_ge_10", 100 if tier == "quick" else 2000)
    sys.exit(c.finish())


if __name__ == "__main__":
    main()
