"""C15 – what runs inside ONE child process (one PYTHONHASHSEED): listing-order shim, materialisation of the
package with child-specific (but semantically equal) key order (+ archived streams of repeating components), loading
through four entry points, canonical dump (incl. what every reference resolves to in the experiment instance).
"""
from __future__ import annotations

import glob as _glob
import json
import os
import random
import re
import shutil
import sys
import traceback
from typing import Any, Dict, List

from checks import _c15_gen as gen

SHIM = {"calls": 0, "reordered": 0}
STREAM_LOG: List[Any] = []  # [glob pattern, [basenames in the order answered]] for listings of a `streams` directory
_ORIG = {}


def install_listing_shim(r: random.Random):
    """Shuffle what os.listdir / os.scandir / glob.glob / glob.iglob return (the file system here always answers
    in the same order; a different file system would not).  Installed BEFORE the repository is imported."""
    if _ORIG:
        return
    _ORIG["listdir"], _ORIG["scandir"] = os.listdir, os.scandir
    _ORIG["glob"], _ORIG["iglob"] = _glob.glob, _glob.iglob

    def _shuffle(lst):
        SHIM["calls"] += 1
        if len(lst) > 1:
            before = list(lst)
            r.shuffle(lst)
            if lst != before:
                SHIM["reordered"] += 1
        return lst

    def listdir(*a, **k):
        return _shuffle(list(_ORIG["listdir"](*a, **k)))

    class _Scan:
        def __init__(self, *a, **k):
            with _ORIG["scandir"](*a, **k) as it:
                self._e = _shuffle(list(it))
            self._i = iter(self._e)

        def __iter__(self):
            return self

        def __next__(self):
            return next(self._i)

        def __enter__(self):
            return self

        def __exit__(self, *exc):
            return False

        def close(self):
            pass

    def glob(*a, **k):
        out = _shuffle(list(_ORIG["glob"](*a, **k)))
        try:
            if a and isinstance(a[0], str) and os.path.basename(os.path.dirname(a[0])) == "streams":
                STREAM_LOG.append([a[0], [os.path.basename(x) for x in out]])
        except Exception:
            pass
        return out

    def iglob(*a, **k):
        return iter(_shuffle(list(_ORIG["iglob"](*a, **k))))

    os.listdir, os.scandir = listdir, _Scan
    _glob.glob, _glob.iglob = glob, iglob


# ----------------------------------------------------------------------------- materialise

def _yaml():
    import yaml
    return yaml


def materialise(case: Dict[str, Any], root: str, r: random.Random) -> Dict[str, Any]:
    """Write the package + variable files under `root`; mapping keys in an order drawn from `r`."""
    yaml = _yaml()
    pkg = os.path.join(root, "pkg-%d.package" % case["index"])
    os.makedirs(os.path.join(pkg, "conf"))
    files = list(case["files"].items())
    r.shuffle(files)  # creation order (no effect on this fs, harmless)
    for rel, text in files:
        p = os.path.join(pkg, rel)
        os.makedirs(os.path.dirname(p), exist_ok=True)
        with open(p, "w") as f:
            f.write(text)
    if case["kind"] == "flowir":
        with open(os.path.join(pkg, "conf", "flowir_package.yaml"), "w") as f:
            yaml.safe_dump(gen.shuffled(case["doc"], r), f, sort_keys=False, default_flow_style=False)
    elif case["kind"] == "dsl":
        with open(os.path.join(pkg, "conf", "dsl.yaml"), "w") as f:
            yaml.safe_dump(gen.shuffled(case["doc"], r), f, sort_keys=False, default_flow_style=False)
    else:
        items = list(case["doc"].items())
        r.shuffle(items)
        for rel, sections in items:
            p = os.path.join(pkg, rel)
            os.makedirs(os.path.dirname(p), exist_ok=True)
            with open(p, "w") as f:
                # component sections of a stage file keep their order (order of definition is content)
                f.write(gen.ini_text(sections, r, keep_section_order="stages.d" in rel))
    vpaths = []
    for i, d in enumerate(case["varfiles"]):
        # names whose lexical order is unrelated to the order in which they are given
        p = os.path.join(root, "uservars-%d" % case["index"], "%s-v%d.yaml" % ("zyxwvu"[i % 6], i))
        os.makedirs(os.path.dirname(p), exist_ok=True)
        with open(p, "w") as f:
            yaml.safe_dump(gen.shuffled(d, r), f, sort_keys=False, default_flow_style=False)
        vpaths.append(p)
    return {"pkg": pkg, "varfiles": vpaths, "given": [vpaths[i] for i in case["var_order"]]}


# ----------------------------------------------------------------------------- canonical dump

def _canon(o: Any) -> Any:
    if isinstance(o, dict):
        return {str(k): _canon(v) for k, v in o.items()}
    if isinstance(o, (list, tuple)):
        return [_canon(v) for v in o]
    if isinstance(o, (set, frozenset)):
        return sorted((_canon(v) for v in o), key=repr)
    if isinstance(o, (str, int, float, bool)) or o is None:
        return o
    return repr(o)


def _scrub(text: str, subs: List[Any]) -> str:
    for old, new in subs:
        text = text.replace(old, new)
    # instance directory names carry a timestamp
    text = re.sub(r"-\d{4}-\d{2}-\d{2}T\d{6}\.\d+\.instance", "-<TS>.instance", text)
    return text


def dump_graph(g, conf, with_hashes: bool) -> Dict[str, Any]:
    nodes = sorted(g.graph.nodes)
    out: Dict[str, Any] = {"nodes": nodes, "edges": sorted([list(e) for e in g.graph.edges])}
    comps = {}
    for n in nodes:
        d: Dict[str, Any] = {}
        try:
            d["config"] = _canon(g.configurationForNode(n))
        except Exception as e:  # deterministic outcome too
            d["config"] = "EXC %s" % type(e).__name__  # class only: messages are not part of the statement
        try:
            env = _canon(g.environmentForNode(n))
            if isinstance(env, dict):
                env.pop("FLOW_RUN_ID", None)  # a fresh uuid per instance by design: identity of the run, not of the package
            d["environment"] = env
        except Exception as e:
            d["environment"] = "EXC %s" % type(e).__name__  # class only: messages are not part of the statement
        spec = g.graph.nodes[n].get("componentSpecification")
        if spec is not None:
            try:
                d["producers"] = sorted(p.identification.identifier for p in spec.producers.values()) \
                    if isinstance(spec.producers, dict) else sorted(
                    p.identification.identifier for p in spec.producers)
            except Exception as e:
                d["producers"] = "EXC %s" % type(e).__name__
            try:
                d["datarefs"] = [x.absoluteReference for x in spec.dataReferences]
            except Exception as e:
                d["datarefs"] = "EXC %s" % type(e).__name__
            if with_hashes:
                d["hash"] = spec.memoization_hash
                d["hash_fuzzy"] = spec.memoization_hash_fuzzy
                # what every reference resolves to in the materialised instance (file / value), the stdout file of
                # the component and the command line with the references substituted
                res_ = []
                for x in spec.dataReferences:
                    row = [x.absoluteReference]
                    for fn in (x.location, x.resolve):
                        try:
                            row.append(_canon(fn(g)))
                        except Exception as e:
                            row.append("EXC %s" % type(e).__name__)
                    res_.append(row)
                d["resolved"] = res_
                try:
                    d["stdout_path"] = spec.path_to_stdout()
                except Exception as e:
                    d["stdout_path"] = "EXC %s" % type(e).__name__
                try:
                    d["resolved_arguments"] = spec.resolveArguments()
                except Exception as e:
                    d["resolved_arguments"] = "EXC %s" % type(e).__name__
        comps[n] = d
    out["components"] = comps
    concrete = conf.get_flowir_concrete(return_copy=False)
    raw = concrete.raw()
    out["environments_defined"] = _canon(raw.get("environments", {}))
    out["variables_defined"] = _canon(raw.get("variables", {}))
    out["platform"] = conf.get_platform_name()
    out["user_variables"] = _canon(conf.get_user_variables())
    return out


def _fake_outputs(exp, case=None, r=None):
    """Give every component a deterministic output so that strong hashes of consumers exist too.  Repeating
    components listed in case['streams'] additionally get the archived streams a RepeatingEngine leaves behind
    (streams/<i>.stdout + streams/<i>.stderr, contiguous indices, distinct contents), created in an order drawn
    from `r`."""
    g = exp.experimentGraph
    streams = (case or {}).get("streams") or {}
    for n in g.graph.nodes:
        spec = g.graph.nodes[n].get("componentSpecification")
        if spec is None:
            continue
        try:
            wd = exp.instanceDirectory.workingDirectoryForComponent(spec.identification.stageIndex,
                                                                    spec.identification.componentName)
            os.makedirs(wd, exist_ok=True)
            for fn in ("out.stdout", "out.txt"):
                with open(os.path.join(wd, fn), "w") as f:
                    f.write("output of %s %s\n" % (n, fn))
            if n in streams:
                first, count = streams[n]
                sd = os.path.join(wd, "streams")
                os.makedirs(sd, exist_ok=True)
                todo = [(i, ext) for i in range(first, first + count) for ext in ("stdout", "stderr")]
                if r is not None:
                    r.shuffle(todo)
                for i, ext in todo:
                    with open(os.path.join(sd, "%d.%s" % (i, ext)), "w") as f:
                        f.write("repetition-%d-of-%s-%s\n" % (i, n.replace(".", "_"), ext))
        except Exception:
            pass
    for n in g.graph.nodes:
        spec = g.graph.nodes[n].get("componentSpecification")
        if spec is not None:
            spec.memoization_reset()


def load_and_dump(case: Dict[str, Any], root: str, r: random.Random) -> Dict[str, Any]:
    import experiment.model.conf
    import experiment.model.data
    import experiment.model.graph
    import experiment.model.storage

    m = materialise(case, root, r)
    subs = [(root, "<ROOT>")]
    platform = case["platform"]
    given = m["given"]
    res: Dict[str, Any] = {}

    def record(entry, fn):
        try:
            d = fn()
            d["outcome"] = "ok"
        except BaseException as e:
            d = {"outcome": "EXC", "type": type(e).__name__, "msg": str(e)[:600]}
            if os.environ.get("VERIF_DEBUG"):
                d["tb"] = traceback.format_exc()[-3000:]
        text = _scrub(json.dumps(d, sort_keys=True, default=repr), subs)
        res[entry] = json.loads(text)

    def vf_order(conf):
        # monitoring only: the order in which the configuration is about to layer the files
        try:
            return [m["varfiles"].index(p) for p in conf._variable_files]
        except Exception:
            return None

    # (1) configuration factory (FlowIRExperimentConfiguration.__init__ path)
    def e_factory():
        conf = experiment.model.conf.ExperimentConfigurationFactory.configurationForExperiment(
            m["pkg"], platform=platform, variable_files=list(given), primitive=False,
            createInstanceFiles=False, updateInstanceFiles=False)
        g = experiment.model.graph.WorkflowGraph(configuration=conf, platform=conf.get_platform_name(),
                                                 primitive=False)
        d = dump_graph(g, conf, with_hashes=False)
        d["layering_order_seen"] = vf_order(conf)
        return d

    # (2) graph from package (parametrize path)
    def e_graph():
        pkg = experiment.model.storage.ExperimentPackage.packageFromLocation(m["pkg"], platform=platform)
        g = experiment.model.graph.WorkflowGraph.graphFromPackage(
            pkg, platform=platform, primitive=False, variable_files=list(given),
            createInstanceConfiguration=False, updateInstanceConfiguration=False)
        d = dump_graph(g, g.configuration, with_hashes=False)
        d["layering_order_seen"] = vf_order(g.configuration)
        return d

    # (3) full experiment instance (with memoization hashes)
    def e_experiment():
        inst_root = os.path.join(root, "inst-%d" % case["index"])
        os.makedirs(inst_root, exist_ok=True)
        pkg = experiment.model.storage.ExperimentPackage.packageFromLocation(m["pkg"], platform=platform)
        exp = experiment.model.data.Experiment.experimentFromPackage(
            pkg, location=inst_root, variable_files=list(given) if given else None, platform=platform)
        _fake_outputs(exp, case, r)
        d = dump_graph(exp.experimentGraph, exp.configuration, with_hashes=True)
        d["top_level_folders"] = sorted(getattr(exp.instanceDirectory, "_top_level_folders", []) or [])
        try:
            yaml = _yaml()
            with open(os.path.join(exp.instanceDirectory.location, "conf", "flowir_instance.yaml")) as f:
                stored = _canon(yaml.safe_load(f))
            # The ORDER of the component list in the stored file follows the iteration order of a set of component
            # ids (FlowIRConcrete.instance) and so varies with the hash seed.  The statement speaks about names,
            # graph, environments, resolved configurations and hashes - not about the order of that list - so the
            # list is compared as a collection; the order is reported separately (informational counter).
            if isinstance(stored, dict) and isinstance(stored.get("components"), list):
                d["info_stored_component_order"] = ["stage%s.%s" % (x.get("stage", 0), x.get("name")) for x in stored["components"]]
                stored["components"] = sorted(stored["components"], key=lambda x: (x.get("stage", 0), str(x.get("name"))))
            d["stored_instance"] = stored
        except Exception as e:
            d["stored_instance"] = "EXC %s" % type(e).__name__
        return d

    # (2b) the PRIMITIVE graph (no replication) of the same package + options
    def e_graph_primitive():
        pkg = experiment.model.storage.ExperimentPackage.packageFromLocation(m["pkg"], platform=platform)
        g = experiment.model.graph.WorkflowGraph.graphFromPackage(
            pkg, platform=platform, primitive=True, variable_files=list(given),
            createInstanceConfiguration=False, updateInstanceConfiguration=False)
        d = dump_graph(g, g.configuration, with_hashes=False)
        d["layering_order_seen"] = vf_order(g.configuration)
        return d

    record("factory", e_factory)
    record("graph", e_graph)
    record("graph_primitive", e_graph_primitive)
    del STREAM_LOG[:]
    record("experiment", e_experiment)
    # monitoring only: in which order this child's file-system shim answered the listings of `streams` directories
    res["_info"] = json.loads(_scrub(json.dumps({"stream_listings": list(STREAM_LOG)}), subs))
    if case["kind"] == "flowir":
        # monitoring only (no repository code involved): the order in which a SET of (stage, name) identifiers, filled
        # in document order, lists the stages in THIS process - it varies with the string hash function
        ids = set()
        for comp in case["doc"]["components"]:
            ids.add((comp["stage"], comp["name"]))
        res["_info"]["stage_order_of_an_identifier_set"] = list(dict.fromkeys(st for st, _ in ids))
    del STREAM_LOG[:]
    if not os.environ.get("VERIF_KEEP_TMP"):
        shutil.rmtree(m["pkg"], ignore_errors=True)
        shutil.rmtree(os.path.join(root, "inst-%d" % case["index"]), ignore_errors=True)
    return res
