"""C06 - DSL 2.0 compilation preserves the dataflow and parameter bindings.

Workload : seeded namespaces generated from an abstract model whose flat result is known BY CONSTRUCTION
           (checks/_c06_gen.py: nesting <= 3, templates instantiated several times, parameters
           forwarded/defaulted/overridden/shadowed, references to siblings, into sibling workflows, passed
           down as (partial) arguments, all documented spellings, SEVERAL references in one parameter value
           written directly / forwarded / completed per reference), their single-fault mutants, and
           naming-hazard variants (step names the '<step>[-<roman>]' scheme cannot keep apart/express).
Observed : namespace_to_flowir(Namespace(**doc)) -> components / references / arguments / variables,
           FlowIRConcrete.validate(); or the exception class and DSLInvalidError.underlying_errors.
Oracle   : positive  - one uniquely named component per leaf, identical producer/consumer relation,
                       every parameter replaced by the chain value, validator silent;
           mutant    - DSLInvalidError with a non-empty list of located errors (pydantic.ValidationError
                       raised by Namespace(**doc) itself also lists locations and is accepted);
           hazard    - (still valid namespaces) either compiled correctly with unique names or rejected
                       with DSLInvalidError; anything else is a violation;
           any case  - a per-case watchdog; a time-out that reproduces in 3 fresh processes is a hang.
"""
from __future__ import annotations

import copy
import json
import os
import re
import signal
import subprocess
import sys
import time
import traceback

import vlib

vlib.bootstrap()

from checks import _c06_gen as G  # noqa: E402

PROP = "C06"

K_DIGIT = "C06:step-name-digit-suffix-attributeerror"
K_COLLIDE = "C06:dedup-name-collision-componentexists"
K_HANG = "C06:reference-stops-at-workflow-hang"


from checks import _c06_watchdog as WD  # noqa: E402

CaseTimeout = WD.CaseTimeout


# --------------------------------------------------------------------------- observation (real code)

def observe(doc):
    """Run the real compiler on `doc`; never raises (except CaseTimeout)."""
    import pydantic
    import experiment.model.frontends.dsl as dsl
    import experiment.model.errors as E
    try:
        try:
            ns = dsl.Namespace(**copy.deepcopy(doc))
        except pydantic.ValidationError as e:
            return {"status": "pydantic", "n": len(e.errors()),
                    "errors": [{"loc": list(x.get("loc", ())), "msg": x.get("msg")} for x in e.errors()[:5]]}
        flowir = dsl.namespace_to_flowir(ns)
    except CaseTimeout:
        raise
    except E.DSLInvalidError as e:
        errs = []
        ok_shape = True
        for u in (e.underlying_errors or []):
            if not isinstance(u, E.DSLInvalidFieldError) or not isinstance(getattr(u, "location", None), (list, tuple)):
                ok_shape = False
                errs.append({"loc": None, "msg": repr(u)[:200]})
            else:
                errs.append({"loc": [x for x in u.location], "msg": u.underlying_to_str()[:200]})
        return {"status": "dsl-error", "n": len(errs), "errors": errs[:8], "shape_ok": ok_shape,
                "located": sum(1 for x in errs if x["loc"])}
    except BaseException as e:  # noqa
        if isinstance(e, (KeyboardInterrupt, SystemExit)):
            raise
        tb = traceback.extract_tb(e.__traceback__)
        last = tb[-1] if tb else None
        return {"status": "other", "type": type(e).__name__, "msg": str(e)[:300],
                "mro": [c.__name__ for c in type(e).__mro__],
                "where": "%s:%s %s" % (os.path.basename(last.filename), last.lineno, last.name) if last else None,
                "frames": [f.name for f in tb][-6:]}
    try:
        raw = flowir.raw()
        comps = []
        for c in raw.get("components", []):
            comps.append({"stage": c.get("stage"), "name": c.get("name"),
                          "arguments": c.get("command", {}).get("arguments"),
                          "executable": c.get("command", {}).get("executable"),
                          "environment": c.get("command", {}).get("environment"),
                          "references": list(c.get("references", [])),
                          "numberThreads": c.get("resourceRequest", {}).get("numberThreads"),
                          "variables": dict(c.get("variables", {}))})
        verrs = [("%s: %s" % (type(x).__name__, x))[:300] for x in flowir.validate()]
        return {"status": "ok", "components": comps,
                "globals": dict(raw.get("variables", {}).get("default", {}).get("global", {})),
                "environments": raw.get("environments", {}).get("default", {}),
                "output": raw.get("output", {}), "validate": verrs}
    except CaseTimeout:
        raise
    except BaseException as e:  # noqa
        if isinstance(e, (KeyboardInterrupt, SystemExit)):
            raise
        return {"status": "other", "type": type(e).__name__, "msg": str(e)[:300], "phase": "inspect",
                "mro": [c.__name__ for c in type(e).__mro__], "where": None, "frames": []}


def warmup():
    """import everything the compiler needs BEFORE the watchdog is armed (an alarm that fires in the middle
    of an import leaves a half-initialised module behind)"""
    import yaml  # noqa
    import pydantic  # noqa
    import experiment.model.frontends.dsl as dsl
    import experiment.model.errors  # noqa
    import experiment.model.frontends.flowir  # noqa
    try:
        ns = dsl.Namespace(**{"entrypoint": {"entry-instance": "c", "execute": [{"target": "<entry-instance>"}]},
                              "components": [{"signature": {"name": "c"}, "command": {"executable": "echo"}}]})
        dsl.namespace_to_flowir(ns).validate()
    except Exception:  # noqa
        pass


def observe_guarded(doc, w=None):
    """observe() under the per-case watchdog (see _c06_watchdog)"""
    return WD.guarded("checks.C06", doc, observe, w)


# --------------------------------------------------------------------------- oracle

_ID = re.compile(r"--id=(\S+)")
_PARAM = re.compile(r"%\(([a-zA-Z0-9_.-]+)\)s")


def judge_positive(truth, out):
    """-> (list of violation strings, counters dict). `out` has status ok."""
    v = []
    cnt = {}

    def hit(name):
        cnt[name] = cnt.get(name, 0) + 1

    leaves = truth["leaves"]
    comps = out["components"]
    if len(comps) != len(leaves):
        v.append("expected %d components (one per leaf), got %d" % (len(leaves), len(comps)))
    hit("clause_component_count")
    keys = [(c["stage"], c["name"]) for c in comps]
    if len(set(keys)) != len(keys):
        v.append("component names are not unique: %r" % (sorted(keys),))
    hit("clause_unique_names")
    by_ident = {}
    for c in comps:
        m = _ID.search(c["arguments"] or "") if isinstance(c["arguments"], str) else None
        if not m:
            v.append("component stage%s.%s carries no identity token; arguments=%r" % (c["stage"], c["name"], c["arguments"]))
            continue
        if m.group(1) in by_ident:
            v.append("two components carry identity %s" % m.group(1))
        by_ident[m.group(1)] = c
    mapping = {}
    for i, l in enumerate(leaves):
        c = by_ident.get(l["ident"])
        if c is None:
            v.append("no component is bound to leaf %s (identity %s)" % ("/".join(l["loc"]), l["ident"]))
        mapping[i] = c
    if v:
        return v, cnt

    def ref_str(e):
        i, f, m = e
        p = mapping[i]
        s = "stage%s.%s" % (p["stage"], p["name"])
        if f:
            s += "/" + f
        return s + ":" + m

    for i, l in enumerate(leaves):
        c = mapping[i]
        where = "leaf %s -> stage%s.%s" % ("/".join(l["loc"]), c["stage"], c["name"])
        st, base = G.split_stage(l["step"])
        if c["stage"] != st:
            v.append("%s: stage %r, step name says %r" % (where, c["stage"], st))
        if c["name"] == base or (c["name"].startswith(base + "-") and re.fullmatch(r"[IVX]+", c["name"][len(base) + 1:])):
            hit("name_is_step_or_roman_suffixed")
        exp = "".join(p[1] if p[0] == "lit" else ref_str(p[1:]) for p in l["args"])
        if c["arguments"] != exp:
            v.append("%s: arguments %r, expected %r" % (where, c["arguments"], exp))
        hit("clause_arguments_bound")
        eref = sorted({ref_str(e) for e in l["edges"]})
        if sorted(c["references"]) != eref:
            v.append("%s: references %r, expected %r" % (where, sorted(c["references"]), eref))
        if len(c["references"]) != len(set(c["references"])):
            v.append("%s: duplicated references %r" % (where, c["references"]))
        hit("clause_edges_equal")
        if l["edges"]:
            hit("leaves_with_edges")
        if l.get("max_refs_in_one_value", 0) >= 2:
            # one parameter value of this leaf holds >= 2 output references: every one of them must have
            # become a producer (references) and must still be in the command line (arguments), see above
            hit("leaves_with_multi_ref_value")
            if l["max_refs_in_one_value"] >= 3:
                hit("leaves_with_3plus_refs_in_one_value")
        if c["executable"] != l["fields"]["command.executable"]:
            v.append("%s: executable %r, expected %r" % (where, c["executable"], l["fields"]["command.executable"]))
        if "resourceRequest.numberThreads" in l["fields"]:
            hit("clause_typed_field")
            if c["numberThreads"] != l["fields"]["resourceRequest.numberThreads"] or \
                    type(c["numberThreads"]) is not type(l["fields"]["resourceRequest.numberThreads"]):
                v.append("%s: numberThreads %r, expected %r" % (where, c["numberThreads"],
                                                                l["fields"]["resourceRequest.numberThreads"]))
        for fld in ("arguments", "executable"):
            if isinstance(c[fld], str):
                left = [n for n in _PARAM.findall(c[fld]) if n in l["params"]]
                if left:
                    v.append("%s: parameter reference(s) %r left in %s" % (where, left, fld))
        hit("clause_no_parameter_left")
        if c["variables"] != l["variables"]:
            v.append("%s: variables %r, expected %r" % (where, c["variables"], l["variables"]))
        if l["env"] is not None:
            hit("clause_environment")
            envs = out["environments"] or {}
            if l["env"] == {}:
                ok = c["environment"] == "none"
            else:
                got = envs.get(c["environment"]) if isinstance(c["environment"], str) else None
                ok = isinstance(got, dict) and all(str(got.get(k)) == str(val) for k, val in l["env"].items()) \
                    and set(got) == set(l["env"])
            if not ok:
                v.append("%s: environment %r -> %r, expected %r" % (
                    where, c["environment"], envs.get(c["environment"]) if isinstance(c["environment"], str) else None,
                    l["env"]))
    for k, val in truth["globals"].items():
        hit("clause_entry_parameter")
        if k not in out["globals"] or str(out["globals"][k]) != str(val):
            v.append("entry parameter %s: global variable %r, expected %r" % (k, out["globals"].get(k), val))
    for k, e in truth["outputs"].items():
        hit("clause_key_output")
        got = (out["output"] or {}).get(k, {}).get("data-in")
        if got != ref_str(e):
            v.append("key output %s: data-in %r, expected %r" % (k, got, ref_str(e)))
    hit("clause_validator")
    if out["validate"]:
        v.append("FlowIR validator rejects the result: %r" % (out["validate"][:3],))
    return v, cnt


def judge_rejection(out):
    """-> violation string or None for a namespace that must be rejected."""
    st = out["status"]
    if st == "pydantic":
        return None if out["n"] > 0 else "pydantic.ValidationError without entries"
    if st == "dsl-error":
        if out["n"] == 0:
            return "DSLInvalidError with an empty list of errors"
        if not out.get("shape_ok", True):
            return "DSLInvalidError whose entries are not located field errors: %r" % (out["errors"][:2],)
        if out.get("located", 0) == 0:
            return "DSLInvalidError that lists no location: %r" % (out["errors"][:2],)
        return None
    if st == "ok":
        return "invalid namespace accepted (%d components)" % len(out["components"])
    if st == "hang":
        return "compilation does not terminate (watchdog reproduced 3x in fresh processes; %s)" % (out.get("where"),)
    if st == "other":
        return "rejected with %s (%s) at %s instead of DSLInvalidError" % (out["type"], out["msg"][:120], out.get("where"))
    return None


# --------------------------------------------------------------------------- classifiers (known findings)

def leaf_step_names(doc):
    """step names of all component instances reachable from the entrypoint (multiset, by instance)."""
    wf = {w["signature"]["name"]: w for w in doc.get("workflows", [])}
    names = []

    def walk(tname, depth):
        if depth > 8 or tname not in wf:
            return
        for s, t in wf[tname]["steps"].items():
            if t in wf:
                walk(t, depth + 1)
            else:
                names.append(s)

    walk(doc["entrypoint"]["entry-instance"], 0)
    return names


def classify_crash(doc, out):
    if out["status"] != "other":
        return None
    hz = G.naming_hazards(leaf_step_names(doc))
    if (out["type"] == "AttributeError" and "groupdict" in out["msg"] and "digit-suffix" in hz
            and (out.get("where") or "").endswith("namespace_to_flowir")):
        return K_DIGIT
    if (out["type"] == "FlowIRComponentExists" and ("literal-roman-suffix" in hz or "stage-prefix-alias" in hz)
            and "namespace_to_flowir" in (out.get("frames") or [])):
        return K_COLLIDE
    return None


def classify_hang(doc, mut, out):
    """hang while a step argument holds a reference whose longest existing prefix is a workflow instance."""
    if out["status"] != "hang" or not mut:
        return None
    if not any("can_template_replicate" in x for x in (out.get("where") or [])):
        return None
    try:
        w = doc["workflows"][mut["where"][1]]
        ex = w["execute"][mut["where"][3]]
        wfnames = {x["signature"]["name"]: x for x in doc["workflows"]}
        for val in (ex.get("args") or {}).values():
            if not isinstance(val, str):
                continue
            for m in re.finditer(r"<([^<>]+)>", val):
                segs = m.group(1).split("/")
                if segs[0] in w["steps"] and w["steps"][segs[0]] in wfnames:
                    inner = wfnames[w["steps"][segs[0]]]
                    if len(segs) == 1 or segs[1] not in inner["steps"]:
                        return K_HANG
    except (KeyError, IndexError, TypeError):
        return None
    return None


# --------------------------------------------------------------------------- worker

def profile_for(rnd, tier):
    return {"max_depth": rnd.choice([1, 2, 2, 3, 3]), "max_steps": rnd.choice([2, 3, 4]),
            "p_nest": rnd.choice([0.3, 0.5, 0.7]), "p_reuse": rnd.choice([0.0, 0.3, 0.6]),
            "reuse_step_names": rnd.random() < 0.6, "max_leaves": 14,
            # how often a complete / copy-link reference parameter receives SEVERAL references in one value
            "p_multi": rnd.choice([0.0, 0.3, 0.5, 0.7])}


def class_key(model, truth):
    T = model["templates"]
    insts = {}
    for l in truth["leaves"]:
        insts[l["template"]] = insts.get(l["template"], 0) + 1
    steps = [l["step"] for l in truth["leaves"]]
    return "d%d|l%d|e%d|w%d|r%d|s%d|%s" % (
        truth["depth"], min(len(truth["leaves"]), 9), min(sum(len(l["edges"]) for l in truth["leaves"]), 9),
        min(truth["wf_instances"], 6), max(insts.values()) if insts else 0, len(steps) - len(set(steps)),
        ",".join(f[:6] for f in model["flags"]))


def run_case(w, kind, doc, truth=None, mut=None, model_flags=None):
    """Judge one case; returns True if it was evaluated."""
    out = observe_guarded(doc, w)
    if out["status"] == "unknown":
        w.count("case_watchdog_unconfirmed")
        w.note_inconclusive("watchdog fired but the confirmation runs were not conclusive (%s)" % kind)
        return False
    w.evaluated()
    wit = {"kind": kind, "doc": doc, "truth": truth, "mutation": mut and {k: mut[k] for k in mut if k != "doc"},
           "outcome": out}
    if kind == "positive":
        w.count("positive_cases")
        if out["status"] != "ok":
            w.violation("valid namespace not compiled: %s" % summarize(out), wit, classify_crash(doc, out))
            return True
        vs, cnt = judge_positive(truth, out)
        for k, n in cnt.items():
            w.count(k, n)
        if vs:
            w.violation("compiled result differs from the by-construction flattening: " + "; ".join(vs[:3]), wit)
        else:
            w.count("positive_held")
    elif kind == "hazard":
        w.count("hazard_cases")
        w.count("hazard_" + "+".join(mut["hazards"]))
        if out["status"] == "ok":
            vs, cnt = judge_positive(truth, out)
            if vs:
                w.violation("naming-hazard namespace compiled wrongly: " + "; ".join(vs[:3]), wit)
            else:
                w.count("hazard_compiled_correctly")
        else:
            bad = judge_rejection(out)
            if bad:
                w.violation("naming-hazard namespace (%s): %s" % ("+".join(mut["hazards"]), bad), wit,
                            classify_crash(doc, out))
            else:
                w.count("hazard_rejected_properly")
    else:
        w.count("mutant_cases")
        w.count("mutant_" + mut["mutation"])
        bad = judge_rejection(out)
        if bad:
            key = classify_hang(doc, mut, out) if out["status"] == "hang" else None
            w.violation("mutant %s (%s): %s" % (mut["mutation"], mut["why"], bad), wit, key)
        else:
            w.count("mutant_rejected_properly")
            w.count("rejected_by_" + out["status"])
    return True


def summarize(out):
    if out["status"] == "other":
        return "%s: %s at %s" % (out["type"], out["msg"][:150], out.get("where"))
    if out["status"] == "dsl-error":
        return "DSLInvalidError %r" % (out["errors"][:2],)
    if out["status"] == "pydantic":
        return "pydantic.ValidationError %r" % (out["errors"][:2],)
    if out["status"] == "hang":
        return "hang at %r" % (out.get("where"),)
    return out["status"]


HANG_PRONE = ("reference-to-missing-inner-step", "reference-to-workflow-step")


def run_job(job, w):
    warmup()
    known = vlib.load_known_findings(PROP)
    hang_budget = job.get("hang_budget")          # None = unlimited
    if K_HANG not in known or os.environ.get("C06_NO_HANG_BUDGET"):
        hang_budget = None
    hangs_seen = {}
    confirmed_hangs = {}
    produced = 0
    idx = job["start"]
    tries = 0
    while produced < job["count"] and tries < job["count"] * 20:
        tries += 1
        rnd = vlib.rng(PROP, "doc", idx)
        idx += job["stride"]
        try:
            g = G.generate(rnd, profile_for(rnd, job["tier"]))
        except G.GenFail:
            w.count("generator_gave_up")
            continue
        model, truth = g["model"], g["truth"]
        doc = G.render(model)
        produced += 1
        if not run_case(w, "positive", doc, truth=truth):
            continue
        ck = class_key(model, truth)
        w.distinct(ck)
        for f in model["flags"]:
            w.count("shape_" + f)
        if truth["depth"] >= 3:
            w.count("shape_depth3")
        if any(len(l["edges"]) for l in truth["leaves"]):
            w.count("docs_with_edges")
        if len(w.samples) < 1 and len(truth["leaves"]) >= 3:
            w.sample({"doc": doc, "expected_leaves": [
                {"loc": "/".join(l["loc"]), "ident": l["ident"], "edges": l["edges"]} for l in truth["leaves"]]})
        # negative half
        ms = G.mutants(rnd, model, doc, truth)
        if job.get("mutants_per_doc"):
            rnd.shuffle(ms)
            ms = ms[: job["mutants_per_doc"]]
        for m in ms:
            if m["mutation"] in HANG_PRONE and hang_budget is not None:
                if hangs_seen.get(m["mutation"], 0) >= hang_budget.get(m["mutation"], 0):
                    w.count("mutant_skipped_known_hang_class")
                    continue
                hangs_seen[m["mutation"]] = hangs_seen.get(m["mutation"], 0) + 1
            if confirmed_hangs.get(m["mutation"], 0) >= 2:
                # two hangs of this mutation kind were already confirmed (3 fresh processes each) in this
                # job and are reported; do not spend the budget on more of the same kind
                w.count("mutant_skipped_after_two_confirmed_hangs")
                continue
            nv = len(w.violations)
            run_case(w, "mutant", m["doc"], mut=m)
            if len(w.violations) > nv and w.violations[-1]["witness"]["outcome"]["status"] == "hang":
                confirmed_hangs[m["mutation"]] = confirmed_hangs.get(m["mutation"], 0) + 1
            w.distinct("mut|" + m["mutation"] + "|d%d" % truth["depth"])
        # naming hazards (still valid namespaces)
        for how in ("digit", "roman", "stage-alias"):
            if rnd.random() < job.get("p_hazard", 0.5):
                try:
                    hm = G.rename_leaf_steps(rnd, model, how)
                    if hm is None:
                        continue
                    ht = G.evaluate(hm)
                except G.GenFail:
                    continue
                hz = G.naming_hazards([l["step"] for l in ht["leaves"]])
                if not hz:
                    continue
                run_case(w, "hazard", G.render(hm), truth=ht, mut={"mutation": "hazard-" + how, "hazards": hz})
                w.distinct("hz|" + "+".join(hz) + "|d%d" % ht["depth"])


def run_one(argv):
    """--one <doc.json> <out.json> : confirmation run of one case in a fresh process."""
    import resource
    # never outlive the parent as a spinning orphan: hard CPU limit for this confirmation process
    resource.setrlimit(resource.RLIMIT_CPU, (60, 70))
    i = argv.index("--one")
    with open(argv[i + 1]) as f:
        doc = json.load(f)
    warmup()
    out = observe(doc)
    tmp = argv[i + 2] + ".tmp"
    with open(tmp, "w") as f:
        json.dump(out, f, default=repr)
    os.replace(tmp, argv[i + 2])
    sys.stdout.flush()
    os._exit(0)


if "--worker" in sys.argv:
    vlib.worker_main(run_job)
if "--one" in sys.argv:
    run_one(sys.argv)


# --------------------------------------------------------------------------- main

def replay(c, rp):
    warmup()
    w = vlib.Worker()
    wit = rp["witness"]
    mut = wit.get("mutation")
    kind = wit["kind"]
    run_case(w, kind, wit["doc"], truth=wit.get("truth"), mut=mut)
    c.merge_worker(w.summary())
    print("replay of %s case: %s" % (kind, "still violates" if w.violations else "no longer violates"))


def main():
    c = vlib.Check(PROP, "exploration",
                   rule="distinct structural classes of generated namespaces: (nesting depth, #leaves, #edges, "
                        "#workflow instances, max instances of one template, #repeated step names, generator "
                        "shape flags); mutants by (mutation kind, depth); hazards by (hazard set, depth)",
                   assumptions=[
                       "positive namespaces use only the documented shapes: references to sibling steps or into "
                       "sibling workflows, partial references completed with /path:method by a workflow argument or "
                       "with :method by the component command line; methods ref/output in command lines, copy/link "
                       "only through parameters that do not appear in the command line",
                       "a parameter value may hold several COMPLETE references separated by text that contains "
                       "white space (free text may precede, separate and follow them); a partial reference is "
                       "always alone in its value",
                       "a component completing a partial reference with a path (%(p)s/file:ref) is not generated: "
                       "the compiler documents it as unsupported",
                       "no explicit null arguments, no 'replica', 'input.*' or 'data.*' parameters, no replication",
                       "component names are only required to be unique, not to follow a particular scheme",
                       "pydantic.ValidationError raised by Namespace(**doc) is accepted as a located rejection",
                       "data-dependency cycles between sibling steps are not generated as mutants "
                       "(namespace_to_flowir does not build the graph; the FlowIR loader decides those, see C11)",
                   ])
    rp = vlib.load_replay(sys.argv)
    if rp is not None:
        replay(c, rp)
        sys.exit(c.finish())
    thorough = c.tier == "thorough"
    n_docs = 10400 if thorough else 480
    n_jobs = max(1, min(vlib.NPROC, 32)) * (4 if thorough else 1)
    per = (n_docs + n_jobs - 1) // n_jobs
    jobs = []
    for j in range(n_jobs):
        jobs.append({"start": j, "stride": n_jobs, "count": per, "tier": c.tier,
                     "mutants_per_doc": 3 if thorough else 0, "p_hazard": 0.5,
                     # while the hang is a listed known finding only 4 jobs re-observe it (one kind each):
                     # every confirmation costs ~35 CPU-s
                     "hang_budget": {HANG_PRONE[j % 2]: 1} if j < 4 else {}})
    vlib.fanout("checks.C06", jobs, c, timeout=1500 if thorough else 400,
                env={"PYTHONWARNINGS": "ignore::SyntaxWarning"})
    c.floor("positive_cases", 10000 if thorough else 400)
    c.floor("mutant_cases", 10000 if thorough else 400)
    c.floor("clause_edges_equal", 20000 if thorough else 800)
    c.floor("leaves_with_edges", 5000 if thorough else 200)
    c.floor("leaves_with_multi_ref_value", 1000 if thorough else 40)
    c.floor("shape_depth3", 1000 if thorough else 40)
    c.floor("shape_template_reused", 1000 if thorough else 40)
    c.floor("hazard_cases", 400 if thorough else 20)
    sys.exit(c.finish())


if __name__ == "__main__":
    main()
