"""C04 - Resolved component configuration follows the documented layering order.

Workload : generated FlowIR documents in which every layer (default/platform x global/stage
           blueprints and variables, user variable file, component, component override) defines or
           omits each leaf of a palette of typed options and each variable, with values tagged by
           the layer they come from; 3 platforms, 2 stages, variable chains, undefined references,
           falsy values (0, "", False, []).  Plus the exhaustive presence lattice of one leaf.
           Plus update histories (gen/c04_updates.py): ONE live object is queried, one variable of one
           layer is changed through the public setters (every platform section, also the default
           one while another platform is queried) or the user variable file is applied to the
           already queried object, and it is queried again.  Between the queries the histories also
           run operations that only READ the description (instance() / replicate() with the loader's
           flag combinations, raw(), get_component_configuration() with other flags / components /
           platforms, get_component_variables()); documents carry stage blueprints with variable
           references and a dict-valued option (kubernetes.podSpec) in every layer.
           Plus the route slice (gen/c04_routes.py, checks/_c04_routes.py): every component is ALSO read
           from concrete.instance(platform=P, loader flags), from concrete.replicate(platform=P) and
           from a package written to disk and loaded with configurationForExperiment(platform=P,
           variable_files=[user file], primitive=False) + configurationForNode; documents carry
           chains inside one component (A -> B, both defined by the component / its override, B also
           defined with another value by a stage-scoped lower layer).  A third of the checkpoints of
           the update histories read through instance() / replicate() of the live object as well.
Observe  : FlowIRConcrete.get_component_configuration(c, raw=False, include_default=True, platform=P)
           (through FlowIRExperimentConfiguration when a user variable file is part of the case).
Oracle   : ref/c04_layering.py, an independent resolver of the two lattices in the statement.
"""
from __future__ import annotations

import copy
import json
import os
import sys

import vlib

vlib.bootstrap()

from ref import c04_layering as ref  # noqa: E402

PROP = "C04"
KEY_FOREIGN = "C04:foreign-override-interpolated"

from gen.c04_docs import PALETTE, VAR_ORDER, gen_doc  # noqa: E402
from gen.c04_updates import apply_to_document, gen_history  # noqa: E402
from gen.c04_routes import gen_route_doc  # noqa: E402
from checks import _c04_routes as routes  # noqa: E402


# ----------------------------------------------------------------------------- lattice slice

N_HIST_QUICK, N_HIST_THOROUGH, HIST_PER_JOB = 160, 1600, 10
N_ROUTE_QUICK, N_ROUTE_THOROUGH, ROUTE_PER_JOB = 200, 2000, 8

LATTICE_MODES = [("opt", ("resourceManager", "config", "backend")), ("opt", ("command", "environment")), ("var", "lv")]


def lattice_cases():
    """Every presence pattern of one leaf over the configurable layers x 3 selected platforms.
    Slots of the platform that is NOT selected and of the other stage are always filled with
    decoy values: they must never show up."""
    out = []
    for mode, leaf in LATTICE_MODES:
        layers = ["dg", "ds", "pg", "ps", "comp", "ovr"] + (["user"] if mode == "var" else [])
        for bits in range(1 << len(layers)):
            present = [layers[i] for i in range(len(layers)) if bits >> i & 1]
            for plat in ("default", "p1", "p2"):
                out.append({"mode": mode, "leaf": list(leaf) if mode == "opt" else leaf,
                            "present": present, "platform": plat})
    return out


def lattice_doc(lc):
    mode, present, plat = lc["mode"], set(lc["present"]), lc["platform"]
    sel = plat if plat != "default" else "p1"     # whose pg/ps slots the pattern talks about
    other = "p2" if sel == "p1" else "p1"

    def val(tag):
        return "%s-value" % tag

    def put(container, tag):
        if mode == "opt":
            ref.set_path(container, tuple(lc["leaf"]), val(tag))
        else:
            container.setdefault("variables", {})[lc["leaf"]] = val(tag)

    def scoped(field, platform, scope, stage, tag):
        d = doc[field].setdefault(platform, {"global": {}, "stages": {}})
        tgt = d["global"] if scope == "global" else d["stages"].setdefault(stage, {})
        if mode == "opt" and field == "blueprint":
            ref.set_path(tgt, tuple(lc["leaf"]), val(tag))
        elif mode == "var" and field == "variables":
            tgt[lc["leaf"]] = val(tag)

    doc = {"platforms": ["default", "p1", "p2"],
           "variables": {p: {"global": {}, "stages": {}} for p in ("default", "p1", "p2")},
           "blueprint": {p: {"global": {}, "stages": {}} for p in ("default", "p1", "p2")},
           "components": []}
    field = "blueprint" if mode == "opt" else "variables"
    if "dg" in present:
        scoped(field, "default", "global", 0, "dg")
    if "ds" in present:
        scoped(field, "default", "stage", 0, "ds")
    if "pg" in present:
        scoped(field, sel, "global", 0, "pg")
    if "ps" in present:
        scoped(field, sel, "stage", 0, "ps")
    # decoys: other platform, other stage
    scoped(field, other, "global", 0, "DECOY-otherplatform-global")
    scoped(field, other, "stage", 0, "DECOY-otherplatform-stage")
    scoped(field, "default", "stage", 1, "DECOY-default-stage1")
    scoped(field, sel, "stage", 1, "DECOY-platform-stage1")
    comp = {"stage": 0, "name": "c", "command": {"executable": "echo"}, "variables": {}, "override": {}}
    if mode == "var":
        comp["command"]["arguments"] = "%%(%s)s" % lc["leaf"]
    if "comp" in present:
        put(comp, "comp")
    ovr_slot = plat
    if "ovr" in present:
        o = {}
        put(o, "ovr")
        comp["override"][ovr_slot] = o
    for p in ("default", "p1", "p2"):
        if p != ovr_slot:
            o = {}
            put(o, "DECOY-override-" + p)
            comp["override"][p] = o
    decoy = {"stage": 1, "name": "d", "command": {"executable": "echo"}, "variables": {}}
    put(decoy, "DECOY-component-d")
    doc["components"] = [comp, decoy]
    user = None
    if "user" in present:
        user = {"global": {lc["leaf"]: val("user")}, "stages": {1: {"unrelated": "DECOY-user-stage1"}}}
    return doc, user


# ----------------------------------------------------------------------------- evaluation

def fix_keys(doc, user):
    """JSON turns the integer stage keys into strings; undo that (replay files, job files)."""
    def ints(d):
        return {int(k): v for k, v in (d or {}).items()}
    doc = copy.deepcopy(doc)
    for field in ("variables", "blueprint"):
        for plat in doc.get(field, {}):
            if "stages" in doc[field][plat]:
                doc[field][plat]["stages"] = ints(doc[field][plat]["stages"])
    if user is not None:
        user = copy.deepcopy(user)
        user["stages"] = ints(user.get("stages"))
    return doc, user


_BUILTIN = None


def builtin_defaults():
    global _BUILTIN
    if _BUILTIN is None:
        from experiment.model.frontends.flowir import FlowIR
        _BUILTIN = FlowIR.default_component_structure()
    return copy.deepcopy(_BUILTIN)


def observe(doc, user, comp_id, platform, scratch):
    """Run the real code.  Returns ("ok", config) | ("raised", {class, message, label, variable})."""
    from experiment.model.frontends.flowir import FlowIRConcrete
    import experiment.model.errors as errors
    concrete = FlowIRConcrete(copy.deepcopy(doc), platform, None)
    if user is not None:
        import yaml
        import experiment.model.conf as conf
        path = os.path.join(scratch, "variables.yaml")
        with open(path, "w") as f:
            yaml.safe_dump(user, f)
        cfg = conf.FlowIRExperimentConfiguration(
            path=None, platform=platform, variable_files=[path], system_vars=None, is_instance=False,
            createInstanceFiles=False, primitive=True, concrete=concrete, updateInstanceFiles=False,
            variable_substitute=True, manifest=None, validate=False)
        concrete = cfg.get_flowir_concrete(return_copy=False)
    try:
        got = concrete.get_component_configuration(tuple(comp_id), raw=False, include_default=True, platform=platform)
        return "ok", got
    except errors.FlowIRVariableUnknown as e:
        return "raised", {"class": type(e).__name__, "message": str(e)[:400], "label": e.label,
                          "variable": e.variable_route}
    except Exception as e:  # any other report of an error
        return "raised", {"class": type(e).__name__, "message": str(e)[:400], "label": None, "variable": None}


def diff(expected, observed, path=()):
    """First difference between expected and observed (value or, for palette leaves, type)."""
    if isinstance(expected, dict):
        if not isinstance(observed, dict):
            return path, expected, observed
        for k in expected:
            if k not in observed:
                return path + (k,), expected[k], "<missing>"
            d = diff(expected[k], observed[k], path + (k,))
            if d:
                return d
        for k in observed:
            if k not in expected:
                return path + (k,), "<absent>", observed[k]
        return None
    kind = ref.DECLARED.get(tuple(path))
    if kind and not ref.type_ok(kind, observed):
        return path, expected, "%r (%s)" % (observed, type(observed).__name__)
    if isinstance(expected, bool) != isinstance(observed, bool):
        return path, expected, observed
    if isinstance(expected, str) != isinstance(observed, str):
        return path, expected, observed
    if expected != observed:
        return path, expected, observed
    return None


def foreign_override_label(label, platform, comp):
    """The structural classifier of the known finding: the real code raised while interpolating
    a string that sits inside the component's override section of a platform OTHER than the one
    being resolved (label 'components.stageS.NAME.override.<Q>.…', Q != selected platform)."""
    if not label:
        return None
    marker = "components.stage%s.%s.override." % (comp[0], comp[1])
    if not label.startswith(marker):
        return None
    rest = label[len(marker):]
    others = [q for q in (comp[2].get("override") or {}) if q != platform]
    # longest platform name first ('p1x' before 'p1', 'p.q' before 'p')
    for q in sorted(others, key=len, reverse=True):
        if rest.startswith(q + "."):
            return q
    return None


def evaluate(case, w, scratch):
    doc, user = fix_keys(case["doc"], case.get("user"))
    comp_id, platform = tuple(case["comp"]), case["platform"]
    comp_dict = [c for c in doc["components"] if c["stage"] == comp_id[0] and c["name"] == comp_id[1]][0]
    (status, exp), info = ref.resolve(doc, comp_id, platform, builtin_defaults(), user)
    ostatus, obs = observe(doc, user, comp_id, platform, scratch)
    w.evaluated()
    w.count("via_user_variable_file" if user is not None else "via_flowir_concrete")
    w.count("platform_default" if platform == "default" else "platform_other")

    witness = {"doc": case["doc"], "user": case.get("user"), "comp": list(comp_id), "platform": platform,
               "expected": {"status": status, "value": exp if status != "ok" else None},
               "observed": obs if ostatus == "raised" else None}
    judge(w, witness, comp_id, platform, comp_dict, status, exp, info, ostatus, obs)
    return status


def judge(w, witness, comp_id, platform, comp_dict, status, exp, info, ostatus, obs, pre="", cnt=""):
    """Compare the outcome of the real code (ostatus, obs) with the reference layering (status, exp).
    `pre` is put in front of the description of a violation, `cnt` in front of the names of the
    counters (the update slice keeps its own).  Returns True when the two agree."""

    def bad(what, key=None, extra=None):
        wt = dict(witness)
        if extra:
            wt.update(extra)
        w.violation(pre + what, wt, finding_key=key)
        return False

    if status == "undefined":
        w.count(cnt + "expect_undefined_error")
        if ostatus == "ok":
            return bad("reference to undefined variable %r was not reported for %s on platform %s" % (
                exp, comp_id, platform), extra={"observed_config": vlib.jsonable(obs)})
        w.count(cnt + "undefined_reported_as_" + obs["class"])
        if obs.get("variable") == exp:
            w.count(cnt + "undefined_same_variable_named")
        return True

    # expected a proper configuration
    if ostatus == "raised":
        q = foreign_override_label(obs.get("label"), platform, (comp_id[0], comp_id[1], comp_dict))
        if obs["class"] == "FlowIRVariableUnknown" and q is not None:
            return bad("resolving %s on platform %r raised %s: %s" % (
                comp_id, platform, obs["class"], obs["message"][:160]), key=KEY_FOREIGN, extra={"foreign_platform": q})
        return bad("resolving %s on platform %r raised %s (%s) although every reference is defined" % (
            comp_id, platform, obs["class"], obs["message"][:160]))

    # winners, for the evidence counters
    if not cnt:
        for path, kind, _ in PALETTE:
            wl = ref.winner(info["olayers"], path)
            if wl:
                w.count("option_winner_" + wl)
                present, v = ref.get_path(exp["options"], path)
                if present and v in (0, "", False, [], 0.0) and v is not None:
                    w.count("option_winner_is_falsy_value")
        for name in exp["variables"]:
            wl = None
            for lname, content in info["vlayers"]:
                if name in content:
                    wl = lname
            w.count("variable_winner_" + wl)

    expected_cfg = dict(exp["options"])
    observed_cfg = {k: obs.get(k, "<missing>") for k in expected_cfg}
    d = diff(expected_cfg, observed_cfg)
    if d:
        path, e, o = d
        wl = ref.winner(info["olayers"], path) or "builtin"
        return bad("option %s of %s on platform %r is %r, layering gives %r (from layer %s)" % (
            ".".join(map(str, path)), comp_id, platform, o, e, wl))
    ev, ov = exp["variables"], obs.get("variables")
    if not isinstance(ov, dict) or set(ev) != set(ov):
        return bad("variables of %s on platform %r are %r, layering gives %r" % (
            comp_id, platform, sorted(ov) if isinstance(ov, dict) else ov, sorted(ev)))
    for name in ev:
        if ev[name] != ov[name] or type(ev[name]) is not type(ov[name]):
            wl = [ln for ln, c in info["vlayers"] if name in c][-1]
            return bad("variable %s of %s on platform %r is %r, layering gives %r (from layer %s)" % (
                name, comp_id, platform, ov[name], ev[name], wl))
    if obs.get("name") != comp_id[1] or obs.get("stage") != comp_id[0]:
        return bad("identity of %s changed to (%r, %r)" % (comp_id, obs.get("stage"), obs.get("name")))
    w.count(cnt + "configurations_equal_to_reference")
    return True


def class_keys(case, status):
    """Structural classes reached by one configuration: for every palette leaf / variable that at
    least one layer defines, the triple (leaf, bitmask of the layers that define it, selected
    platform is the default one).  The union over a run measures how much of the per-leaf
    presence lattice the random part covered (at most 23*63*2 + 9*127*2 classes)."""
    doc, user = fix_keys(case["doc"], case.get("user"))
    comp_id, platform = tuple(case["comp"]), case["platform"]
    comp = [c for c in doc["components"] if c["stage"] == comp_id[0] and c["name"] == comp_id[1]][0]
    ol = ref.option_layers(doc, comp, platform)
    vl = ref.variable_layers(doc, comp, platform, user)
    isdef = int(platform == "default")
    out = []
    for path, _, _ in PALETTE:
        mask = sum(1 << i for i, (_, c) in enumerate(ol) if ref.get_path(c, path)[0])
        if mask:
            out.append("O:%s:%d:%d" % (".".join(path), mask, isdef))
    for name in VAR_ORDER:
        mask = sum(1 << i for i, (_, c) in enumerate(vl) if name in c)
        if mask:
            out.append("V:%s:%d:%d" % (name, mask, isdef))
    return out


# ----------------------------------------------------------------------------- update slice

def describe_step(step):
    if step["op"] == "user":
        return "applying the user variable file (FlowIRExperimentConfiguration(concrete=<the queried object>))"
    plat = repr(step.get("platform")) if step.get("explicit", True) else "None"
    if step["op"] == "ro":
        flags = "".join(", %s=%r" % kv for kv in sorted((step.get("flags") or {}).items()))
        if step["call"] == "raw":
            return "raw()"
        if step["call"] in ("instance", "replicate"):
            return "%s(platform=%s%s)" % (step["call"], plat, flags)
        if step["call"] == "query":
            return "get_component_configuration(%r, platform=%s%s)" % (tuple(step["comp"]), plat, flags)
        return "get_component_variables(%r, platform=%s)" % (tuple(step["comp"]), plat)
    k, n, v = step["kind"], step["name"], step["value"]
    if k == "dg":
        return "set_global_variable(%r, %r)" % (n, v)
    if k == "ds":
        if step.get("setter") == "set_stage_variable":
            return "set_stage_variable(%d, %r, %r)" % (step["stage"], n, v)
        return "set_platform_stage_variable(%d, %r, %r, platform='default')" % (step["stage"], n, v)
    if k == "pg":
        return "set_platform_global_variable(%r, %r, platform=%s)" % (n, v, plat)
    if k == "ps":
        return "set_platform_stage_variable(%d, %r, %r, platform=%s)" % (step["stage"], n, v, plat)
    return "set_component_variable(%r, %r, %r)" % (tuple(step["comp"]), n, v)


def apply_to_live(live, step):
    k, n, v = step["kind"], step["name"], step["value"]
    plat = step.get("platform") if step.get("explicit", True) else None
    if k == "dg":
        live.set_global_variable(n, v)
    elif k == "ds":
        if step.get("setter") == "set_stage_variable":
            live.set_stage_variable(step["stage"], n, v)
        else:
            live.set_platform_stage_variable(step["stage"], n, v, platform="default")
    elif k == "pg":
        live.set_platform_global_variable(n, v, plat)
    elif k == "ps":
        live.set_platform_stage_variable(step["stage"], n, v, platform=plat)
    else:
        live.set_component_variable(tuple(step["comp"]), n, v)


def apply_readonly(live, step):
    """Operations that only read the description; whatever they return is dropped."""
    plat = step.get("platform") if step.get("explicit", True) else None
    flags = step.get("flags") or {}
    call = step["call"]
    if call == "raw":
        live.raw()
    elif call == "instance":
        live.instance(platform=plat, **flags)
    elif call == "replicate":
        live.replicate(platform=plat, **flags)
    elif call == "query":
        live.get_component_configuration(tuple(step["comp"]), platform=plat, **flags)
    else:
        live.get_component_variables(tuple(step["comp"]), platform=plat)


def references_in(obj):
    """Names of the variables referenced anywhere inside a (nested) option dictionary."""
    out = set()
    if isinstance(obj, dict):
        for v in obj.values():
            out |= references_in(v)
    elif isinstance(obj, list):
        for v in obj:
            out |= references_in(v)
    elif isinstance(obj, str):
        out |= set(ref.REF.findall(obj))
    return out


def stage_blueprint(doc, platform, stage):
    return (((doc.get("blueprint") or {}).get(platform) or {}).get("stages") or {}).get(stage) or {}


PODSPEC = ("resourceManager", "kubernetes", "podSpec")


def section_relation(step, comp_id, platform):
    """Which section an update wrote to, relative to the (component, platform) pair that is read."""
    if step["op"] == "user":
        return "user"
    if step["op"] == "ro":
        return "readonly"
    if step["kind"] == "comp":
        return "component_own" if tuple(step["comp"]) == tuple(comp_id) else "component_other"
    target = step.get("platform", "default") if step["kind"] in ("pg", "ps") else "default"
    if target == platform:
        return "section_of_read_platform"
    if target == "default":
        return "default_section_read_on_other_platform"
    return "section_of_foreign_platform"


def run_history(hist, w, scratch):
    """One live FlowIRConcrete, queried and updated in turns; every query is judged against the
    reference layering of the description as it stands at that moment (tracked by construction)."""
    from experiment.model.frontends.flowir import FlowIRConcrete
    import experiment.model.errors as errors
    doc, user = fix_keys(hist["doc"], hist.get("user"))
    steps = copy.deepcopy(hist["steps"])
    tracked = copy.deepcopy(doc)
    active = hist["active"]
    live = FlowIRConcrete(copy.deepcopy(doc), active, None)
    user_applied = None
    previous = {}        # pair -> expected outcome at its previous query
    all_ups = []         # every step so far that is not a query
    mark = {}            # pair -> len(all_ups) at its previous query
    queried_comps = []   # components queried so far (any platform), in order
    queried = False
    stages = sorted(set(c["stage"] for c in doc["components"]))
    if any(references_in(stage_blueprint(doc, p, s)) for p in doc["platforms"] for s in stages):
        w.count("update_histories_stage_blueprint_with_variable_reference")
    if any(isinstance(ref.get_path(stage_blueprint(doc, p, s), PODSPEC)[1], dict)
           for p in doc["platforms"] for s in stages):
        w.count("update_histories_dict_valued_stage_blueprint_option")
    first = [st for st in steps if st["op"] != "user"][0]
    if first["op"] == "ro":
        w.count("update_histories_readonly_before_first_query")
    if any(st["op"] == "ro" and st["call"] in ("instance", "replicate") for st in steps):
        w.count("update_histories_with_instance_or_replicate")
    ok = True
    for k, step in enumerate(steps):
        if step["op"] == "user":
            import yaml
            import experiment.model.conf as conf
            path = os.path.join(scratch, "variables-h.yaml")
            with open(path, "w") as f:
                yaml.safe_dump(user, f)
            cfg = conf.FlowIRExperimentConfiguration(
                path=None, platform=active, variable_files=[path], system_vars=None, is_instance=False,
                createInstanceFiles=False, primitive=True, concrete=live, updateInstanceFiles=False,
                variable_substitute=True, manifest=None, validate=False)
            live = cfg.get_flowir_concrete(return_copy=False)
            user_applied = user
            w.count("update_user_file_applied_to_queried_object" if queried else "update_user_file_applied_first")
        elif step["op"] == "set":
            try:
                apply_to_live(live, step)
            except Exception as e:  # the update was refused: the description is unchanged
                w.count("update_ops_raised_" + type(e).__name__)
                continue
            apply_to_document(tracked, step)
            w.count("update_ops_applied")
            w.count("update_ops_" + step["kind"])
        elif step["op"] == "ro":
            try:
                apply_readonly(live, step)
                w.count("update_readonly_" + step["call"])
            except Exception as e:  # not the observation point of this property: only the queries are judged
                w.count("update_readonly_%s_raised_%s" % (step["call"], type(e).__name__))
        if step["op"] != "read":
            all_ups.append(step)
            continue

        for pr in step["pairs"]:
            comp_id, platform = tuple(pr["comp"]), pr["platform"]
            key = (comp_id, platform)
            comp_dict = [c for c in tracked["components"] if (c["stage"], c["name"]) == comp_id][0]
            (status, exp), info = ref.resolve(tracked, comp_id, platform, builtin_defaults(), user_applied)
            try:
                got = live.get_component_configuration(comp_id, raw=False, include_default=True,
                                                       platform=platform if pr.get("explicit", True) else None)
                ostatus, obs = "ok", got
            except errors.FlowIRVariableUnknown as e:
                ostatus, obs = "raised", {"class": type(e).__name__, "message": str(e)[:400], "label": e.label,
                                          "variable": e.variable_route}
            except Exception as e:
                ostatus, obs = "raised", {"class": type(e).__name__, "message": str(e)[:400], "label": None,
                                          "variable": None}
            queried = True
            w.evaluated()
            w.count("update_reads")
            now = json.dumps(vlib.jsonable([status, exp]), sort_keys=True, default=str)
            ups = recent = all_ups[mark.get(key, 0):]
            sets = [u for u in ups if u["op"] != "ro"]
            ros = [u for u in ups if u["op"] == "ro"]
            if ros:
                w.count("update_reads_after_readonly")
                if not sets:
                    w.count("update_reads_after_readonly_only")
                inst = [u for u in ros if u["call"] in ("instance", "replicate")]
                defined_above = set(comp_dict.get("variables") or {}) | set(
                    ((comp_dict.get("override") or {}).get(platform) or {}).get("variables") or {})
                if user_applied:
                    defined_above |= set(user_applied.get("global") or {}) | set(
                        (user_applied.get("stages") or {}).get(comp_id[0]) or {})
                if inst:
                    w.count("update_reads_after_instance")
                    if any(u["platform"] != platform and stage_blueprint(tracked, u["platform"], comp_id[0])
                           for u in inst):
                        w.count("update_reads_after_instance_of_other_platform_with_stage_blueprint")
                    if (references_in(stage_blueprint(tracked, "default", comp_id[0])) |
                            references_in(stage_blueprint(tracked, platform, comp_id[0]))) & defined_above:
                        w.count("update_reads_after_instance_stage_blueprint_reference_redefined_above")
                for u in ros:
                    w.distinct("R:%s:%s:%s:%s:%d" % (
                        u["call"], ",".join("%s=%s" % kv for kv in sorted((u.get("flags") or {}).items())),
                        "same" if u.get("platform") == platform else "other", status, platform == "default"))
            sb_dict = [p for p in ("default", platform)
                       if isinstance(ref.get_path(stage_blueprint(tracked, p, comp_id[0]), PODSPEC)[1], dict)]
            above_dict = isinstance(ref.get_path(comp_dict, PODSPEC)[1], dict) or isinstance(
                ref.get_path((comp_dict.get("override") or {}).get(platform) or {}, PODSPEC)[1], dict)
            if sb_dict:
                w.count("update_reads_dict_option_from_stage_blueprint")
                if above_dict:
                    w.count("update_reads_dict_option_of_stage_blueprint_merged_with_higher_layer")
                if any(c[0] == comp_id[0] and c != comp_id and isinstance(ref.get_path(
                        [d for d in tracked["components"] if (d["stage"], d["name"]) == c][0], PODSPEC)[1], dict)
                       for c in queried_comps):
                    w.count("update_reads_dict_option_of_stage_blueprint_after_sibling_with_own_dict")
            queried_comps.append(comp_id)
            ups = sets
            if key in previous and ups:
                changed = now != previous[key]
                w.count("update_reads_after_update")
                if changed:
                    w.count("update_reads_expected_changed")
                rels = sorted(set(section_relation(u, comp_id, platform) for u in ups))
                if len(rels) == 1:
                    w.count("update_%s_by_%s" % ("changed" if changed else "unchanged", rels[0]))
                for u in ups:
                    w.distinct("U:%s:%s:%d:%s:%d" % (u.get("kind", "user"), section_relation(u, comp_id, platform),
                                                     changed, status, platform == "default"))
            previous[key] = now
            mark[key] = len(all_ups)
            pre = "update slice, first query of the object: "
            if queried_comps[:-1] and not recent:
                pre = "update slice, after only queries of %d other (component, platform) pairs on the same object " \
                      "(query step %d, active platform %r): " % (len(queried_comps) - 1, k, active)
            if recent:
                pre = "update slice, after %s%s (query step %d, active platform %r): " % (
                    "... ; " if len(recent) > 3 else "", " ; ".join(describe_step(u) for u in recent[-3:]), k, active)
            witness = {"history": {"doc": hist["doc"], "user": hist.get("user"), "active": active,
                                   "steps": hist["steps"][:k + 1]},
                       "comp": list(comp_id), "platform": platform, "step": k,
                       "operations_since_previous_query_of_this_pair": [describe_step(u) for u in recent],
                       "expected": {"status": status, "value": exp if status != "ok" else None},
                       "observed": obs if ostatus == "raised" else None}
            if not judge(w, witness, comp_id, platform, comp_dict, status, exp, info, ostatus, obs,
                         pre=pre, cnt="update_"):
                ok = False
        if ok and step.get("routes"):
            w.count("update_route_checkpoints")
            base = {"history": {"doc": hist["doc"], "user": hist.get("user"), "active": active,
                                "steps": hist["steps"][:k + 1]}, "step": k}
            for q, platform in enumerate(doc["platforms"]):
                flags = routes.INSTANCE_FLAG_SETS[(k + q) % len(routes.INSTANCE_FLAG_SETS)]
                products = {r_: produce(r_, live, platform, flags, tracked, user_applied, scratch)
                            for r_ in step["routes"]}
                if not judge_routes(w, tracked, user_applied, platform, products, flags, base, "update_route_",
                                    pre="update slice, query step %d after %d operations on the live object, " % (
                                        k, len(all_ups))):
                    ok = False
        if not ok:
            break               # one witness per history; later queries would repeat it
    w.count("update_histories")
    return ok


# ----------------------------------------------------------------------------- route slice

ROUTES = ("instance", "replicate", "package")


def patched_live(doc, user, platform, scratch):
    """A live FlowIRConcrete of `doc` for `platform` with the user variable file applied."""
    from experiment.model.frontends.flowir import FlowIRConcrete
    live = FlowIRConcrete(copy.deepcopy(doc), platform, None)
    if user is not None:
        import yaml
        import experiment.model.conf as conf
        path = os.path.join(scratch, "variables-r.yaml")
        with open(path, "w") as f:
            yaml.safe_dump(user, f)
        cfg = conf.FlowIRExperimentConfiguration(
            path=None, platform=platform, variable_files=[path], system_vars=None, is_instance=False,
            createInstanceFiles=False, primitive=True, concrete=live, updateInstanceFiles=False,
            variable_substitute=True, manifest=None, validate=False)
        live = cfg.get_flowir_concrete(return_copy=False)
    return live


def produce(route, live, platform, flags, doc, user, scratch):
    """The artefact a route hands to its readers, or the exception it raised."""
    try:
        if route == "instance":
            return routes.produce_instance(live, platform, flags)
        if route == "replicate":
            return routes.produce_replicate(live, platform)
        root = os.path.join(scratch, "pkg")
        import shutil
        shutil.rmtree(root, ignore_errors=True)
        os.makedirs(root)
        pkg, files = routes.write_package(doc, user, root)
        return routes.load_package(pkg, files, platform)
    except Exception as e:
        return e


def read_route(route, product, comp_id, platform):
    import experiment.model.errors as errors
    try:
        if isinstance(product, Exception):
            raise product
        if route == "package":
            if routes.node_name_round_trips(comp_id):
                got = product.configurationForNode(routes.node_name(comp_id))
            else:
                got = product.get_flowir_concrete(return_copy=False).get_component_configuration(
                    tuple(comp_id), raw=False, include_default=True)
        else:
            got = routes.read_from_flowir(product, comp_id, platform)
        return "ok", got
    except errors.FlowIRVariableUnknown as e:
        return "raised", {"class": type(e).__name__, "message": str(e)[:400], "label": e.label,
                          "variable": e.variable_route}
    except Exception as e:
        return "raised", {"class": type(e).__name__, "message": str(e)[:400], "label": None, "variable": None}


def describe_route(route, platform, flags):
    if route == "instance":
        return "component read from instance(platform=%r%s)" % (
            platform, "".join(", %s=%r" % kv for kv in sorted((flags or {}).items())))
    if route == "replicate":
        return "component read from replicate(platform=%r, ignore_errors=True)" % platform
    return "package on disk loaded with configurationForExperiment(platform=%r, variable_files=[user file], " \
           "primitive=False) + configurationForNode" % platform


def judge_routes(w, doc, user, platform, products, flags, witness_base, cnt, pre=""):
    """Every component of `doc` on `platform` through every produced route.  `products` maps
    route -> artefact.  Returns False when a violation was recorded."""
    ok = True
    for comp_dict in doc["components"]:
        comp_id = (comp_dict["stage"], comp_dict["name"])
        (status, exp), info = ref.resolve(doc, comp_id, platform, builtin_defaults(), user)
        stable = status == "undefined" or routes.scope_stable(info)
        chains = routes.chain_inside_component(info) if status == "ok" else []
        for route, product in products.items():
            if not stable:
                w.count(cnt + route + "_not_judged_lower_scope_references_higher_scope")
                continue
            ostatus, obs = read_route(route, product, comp_id, platform)
            w.evaluated()
            w.count(cnt + route + "_evaluated")
            if user is not None:
                w.count(cnt + route + "_with_user_variables")
            if chains:
                w.count(cnt + route + "_chain_inside_component")
                if any(la == "ovr" for _, la, _, _ in chains):
                    w.count(cnt + route + "_chain_starts_in_override")
                for low in sorted(set(l for _, _, _, lows in chains for l in lows)):
                    w.count(cnt + route + "_chain_lower_layer_" + low)
            w.distinct("T:%s:%d:%d:%s:%d" % (route, bool(chains), user is not None, status, platform == "default"))
            witness = dict(witness_base)
            witness.update({"comp": list(comp_id), "platform": platform, "route": route,
                            "flags": flags if route == "instance" else None,
                            "chains_inside_component": [list(c[:3]) for c in chains],
                            "expected": {"status": status, "value": exp if status != "ok" else None},
                            "observed": obs if ostatus == "raised" else None})
            if not judge(w, witness, comp_id, platform, comp_dict, status, exp, info, ostatus, obs,
                         pre="%s%s: " % (pre, describe_route(route, platform, flags)), cnt=cnt + route + "_"):
                ok = False
    return ok


def run_route_case(doc, user, platform, which, flags, w, scratch, witness_base, cnt="route_"):
    live = patched_live(doc, user, platform, scratch)
    products = {r_: produce(r_, live, platform, flags, doc, user, scratch) for r_ in which}
    for r_, p_ in products.items():
        if isinstance(p_, Exception):
            w.count("%s%s_production_raised_%s" % (cnt, r_, type(p_).__name__))
    return judge_routes(w, doc, user, platform, products, flags, witness_base, cnt)


def run_job(job, w):
    scratch = vlib.mkscratch("c04")
    if job["kind"] == "replay":
        if "route_case" in job["case"]:
            rc = job["case"]["route_case"]
            doc, user = fix_keys(rc["doc"], rc.get("user"))
            run_route_case(doc, user, rc["platform"], [job["case"]["route"]], rc.get("flags") or {}, w, scratch,
                           {"route_case": rc})
        elif "history" in job["case"]:
            run_history(job["case"]["history"], w, scratch)
        else:
            evaluate(job["case"], w, scratch)
        return
    if job["kind"] == "routes":
        for index in range(job["start"], job["start"] + job["count"]):
            doc, user, chains = gen_route_doc(index)
            w.count("route_documents")
            w.count("route_chains_generated", chains)
            for q, platform in enumerate(doc["platforms"]):
                flags = routes.INSTANCE_FLAG_SETS[(index + q) % len(routes.INSTANCE_FLAG_SETS)]
                run_route_case(doc, user, platform, ROUTES, flags, w, scratch,
                               {"route_case": {"doc": doc, "user": user, "platform": platform, "flags": flags,
                                               "doc_index": index}})
        return
    if job["kind"] == "updates":
        for index in range(job["start"], job["start"] + job["count"]):
            run_history(gen_history(index), w, scratch)
        return
    if job["kind"] == "lattice":
        cases = lattice_cases()
        for i in job["indices"]:
            lc = cases[i]
            doc, user = lattice_doc(lc)
            case = {"doc": doc, "user": user, "comp": [0, "c"], "platform": lc["platform"], "lattice": lc}
            st = evaluate(case, w, scratch)
            w.count("lattice_configurations")
            w.count("lattice_%s_%s" % (lc["mode"], st))
            w.distinct("L:%s:%s:%s:%s" % (lc["mode"], lc["leaf"], "+".join(lc["present"]), lc["platform"]))
        return
    for index in range(job["start"], job["start"] + job["count"]):
        (doc, user), foreign_unsafe = gen_doc(index)
        comps = [(c["stage"], c["name"]) for c in doc["components"]]
        for comp_id in comps:
            for platform in doc["platforms"]:
                case = {"doc": doc, "user": user, "comp": list(comp_id), "platform": platform, "doc_index": index}
                st = evaluate(case, w, scratch)
                w.count("random_configurations")
                w.count("slice_foreign_override_refs_allowed" if foreign_unsafe else "slice_mechanism_free")
                for k in class_keys(case, st):
                    w.distinct(k)
                if st == "ok":
                    w.sample({"doc_index": index, "comp": list(comp_id), "platform": platform,
                              "user_variables": user, "doc": doc})
        w.count("documents")


if "--worker" in sys.argv:
    vlib.worker_main(run_job)


def main():
    c = vlib.Check(
        PROP, "exploration",
        rule="distinct (palette leaf or variable, bitmask of the layers that define it, selected platform is the "
             "default one) triples reached by the random configurations + one entry per (leaf, presence pattern, "
             "platform) of the exhaustive lattice slice + (update kind, section written relative to the queried "
             "pair, expected outcome changed?, expected status, queried platform is default?) classes of the "
             "update histories + (read-only operation, its flags, same / other platform than the queried one, "
             "expected status, queried platform is default?) classes + (route, chain inside the component?, user "
             "variable file?, expected status, platform is default?) classes of the route slice",
        assumptions=[
            "the built-in defaults layer is taken from FlowIR.default_component_structure() of the tree under test",
            "option values have an unambiguous reading for their declared type (ints/decimal strings for int and "
            "int|float leaves, real booleans for bool leaves except command.resolvePath which also gets "
            "true/false/yes/no words); memory is given in bytes only",
            "a layer 'defines' a leaf when the key is present with a non-None value; dict-valued options "
            "(podSpec), executors, references, interpreter and repeatInterval (derived isRepeat) are not varied",
            "variable reference graphs are acyclic; no array-access syntax ([n]) in values",
            "names defined in the global and in the stage section of the user variable file are disjoint; a "
            "single user variable file",
            "in 3 of 4 documents component override sections only reference variables that the default platform "
            "defines globally, so the known mechanism " + KEY_FOREIGN + " cannot trigger there",
            "any raised exception counts as 'reported as an error' for a reference to an undefined variable",
            "update histories: the description 'at the time of the query' is the initial document plus the "
            "accepted setter calls (tracked by construction; a setter that raises is taken to have changed "
            "nothing); after the user variable file has been applied no setter touches a name that the file "
            "defines (except set_component_variable, which outranks the user layer), because the file is stored "
            "in the platform stage sections; set_stage_variable is only used for stages the default section has",
            "update histories: instance(), replicate(), raw(), get_component_configuration() and "
            "get_component_variables() are taken to leave the description unchanged (the tracked document is not "
            "touched by them); their own results and exceptions are not judged (observe_at is the resolved "
            "configuration query), only the queries that follow",
            "routes instance / replicate / package-on-disk: a (component, platform) pair is judged through them only "
            "when no definition made at global (stage) scope - variable or blueprint option that wins for the pair - "
            "references a variable whose winning definition lies in a higher scope (stage / component): the collapsed "
            "FlowIR stores global- and stage-scope definitions already substituted at their own scope, a live "
            "FlowIRConcrete substitutes after layering, and the statement does not say which reading the collapsed "
            "FlowIR must have (such pairs are counted as *_not_judged_lower_scope_references_higher_scope); references "
            "made by the component's own definitions (variables, options, override) are always judged; no replica "
            "variables, loop placeholders or references between components in these documents; the package route "
            "uses validate=False and the flowir format",
            "the dict-valued option that is varied is resourceManager.kubernetes.podSpec (dictionaries merge key by "
            "key across the layers, string values inside are substituted); its values only reference variables that "
            "default.global defines",
        ])
    c.max_samples = 3
    rp = vlib.load_replay(sys.argv)
    if rp is not None:
        c.sample({"replayed": {k: rp["witness"].get(k) for k in ("comp", "platform")}})
        vlib.fanout("checks.C04", [{"kind": "replay", "case": rp["witness"]}], c, timeout=120)
        sys.exit(c.finish())

    quick = c.tier == "quick"
    n_docs = 400 if quick else 4800
    nproc = vlib.NPROC
    per = max(10, n_docs // (nproc * 2))
    jobs = []
    n_lat = len(lattice_cases())
    for part in vlib.split(n_lat, 8):
        jobs.append({"kind": "lattice", "indices": list(part)})
    for start in range(0, n_docs, per):
        jobs.append({"kind": "random", "start": start, "count": min(per, n_docs - start)})
    n_route = N_ROUTE_QUICK if quick else N_ROUTE_THOROUGH
    for start in range(0, n_route, ROUTE_PER_JOB):
        jobs.append({"kind": "routes", "start": start, "count": min(ROUTE_PER_JOB, n_route - start)})
    n_hist = N_HIST_QUICK if quick else N_HIST_THOROUGH
    for start in range(0, n_hist, HIST_PER_JOB):
        jobs.append({"kind": "updates", "start": start, "count": min(HIST_PER_JOB, n_hist - start)})
    vlib.fanout("checks.C04", jobs, c, timeout=900)
    h0 = gen_history(0)
    c.extra["route_slice"] = {
        "what": "every component of %d documents x 3 platforms read through instance(platform=P, loader flags) -> "
                "FlowIRConcrete(result), replicate(platform=P, ignore_errors=True) -> FlowIRConcrete(result) and a "
                "package on disk loaded with ExperimentConfigurationFactory.configurationForExperiment(platform=P, "
                "variable_files=[user file], primitive=False) + configurationForNode; judged with the same reference "
                "layering; plus instance()/replicate() of the live object at %d checkpoints of the update histories"
                % (c.counters.get("route_documents", 0), c.counters.get("update_route_checkpoints", 0)),
        "instance_flag_sets": routes.INSTANCE_FLAG_SETS,
        "not_judged_lower_scope_references_higher_scope": c.counters.get(
            "route_instance_not_judged_lower_scope_references_higher_scope", 0)}
    c.extra["update_slice"] = {
        "what": "one live FlowIRConcrete per history (active platform may differ from the queried one): query "
                "(component, platform) pairs, change one variable of one layer through the public setters "
                "(set_global_variable, set_stage_variable, set_platform_global_variable, set_platform_stage_variable "
                "for every platform section incl. the default one and platform=None, set_component_variable) or apply "
                "the user variable file to the already queried object, or run operations that only read the "
                "description (instance()/replicate() with the loader's flag combinations and the defaults, raw(), "
                "get_component_configuration() with other flags, get_component_variables()), query again; documents "
                "have stage blueprints with variable references and a dict-valued option (kubernetes.podSpec) in "
                "stage blueprints / global blueprints / components / overrides; every query is judged against "
                "the reference layering of the description as it stands at that moment",
        "histories": c.counters.get("update_histories", 0),
        "example_history_0": {"active": h0["active"], "steps": [
            describe_step(s) if s["op"] != "read" else "query %d (component, platform) pairs" % len(s["pairs"])
            for s in h0["steps"]]}}
    c.exhaustive = c.counters.get("lattice_configurations", 0) == n_lat
    c.extra["exhaustive_slice"] = {"what": "presence lattice of one leaf: 2 option leaves x 2^6 layers + 1 variable "
                                           "x 2^7 layers, x 3 selected platforms", "size": n_lat,
                                   "covered": c.counters.get("lattice_configurations", 0)}
    c.floor("lattice_configurations", n_lat)
    c.floor("random_configurations", 2000 if quick else 30000)
    c.floor("slice_mechanism_free", 1200 if quick else 18000)
    c.floor("configurations_equal_to_reference", 1200 if quick else 15000)
    c.floor("expect_undefined_error", 100 if quick else 1500)
    c.floor("via_user_variable_file", 300 if quick else 4000)
    c.floor("option_winner_is_falsy_value", 200)
    k = 1 if quick else 8
    c.floor("update_histories", n_hist)
    c.floor("update_ops_applied", 400 * k)
    c.floor("update_reads_after_update", 2000 * k)
    c.floor("update_reads_expected_changed", 400 * k)
    c.floor("update_configurations_equal_to_reference", 1500 * k)
    for rel in ("default_section_read_on_other_platform", "section_of_read_platform", "component_own"):
        c.floor("update_changed_by_" + rel, 40 * k)
    c.floor("update_changed_by_user", 12 * k)
    c.floor("update_unchanged_by_section_of_foreign_platform", 40 * k)
    # the routes through which a resolved configuration reaches its users (round 5)
    for r_ in ROUTES:
        c.floor("route_%s_evaluated" % r_, 400 * k)
        c.floor("route_%s_configurations_equal_to_reference" % r_, 250 * k)
        c.floor("route_%s_expect_undefined_error" % r_, 50 * k)
        c.floor("route_%s_chain_inside_component" % r_, 150 * k)
        c.floor("route_%s_chain_starts_in_override" % r_, 60 * k)
        c.floor("route_%s_chain_lower_layer_ds" % r_, 120 * k)
        c.floor("route_%s_chain_lower_layer_ps" % r_, 100 * k)
        c.floor("route_%s_chain_lower_layer_user" % r_, 30 * k)
        c.floor("route_%s_with_user_variables" % r_, 100 * k)
    c.floor("update_route_checkpoints", 200 * k)
    for r_ in ("instance", "replicate"):
        c.floor("update_route_%s_evaluated" % r_, 300 * k)
        c.floor("update_route_%s_chain_inside_component" % r_, 15 * k)
    # read-only operations between the queries (round 4)
    c.floor("update_histories_readonly_before_first_query", 40 * k)
    c.floor("update_histories_with_instance_or_replicate", 100 * k)
    c.floor("update_histories_stage_blueprint_with_variable_reference", 100 * k)
    c.floor("update_histories_dict_valued_stage_blueprint_option", 60 * k)
    c.floor("update_readonly_instance", 100 * k)
    c.floor("update_readonly_replicate", 60 * k)
    c.floor("update_reads_after_readonly", 1500 * k)
    c.floor("update_reads_after_readonly_only", 600 * k)
    c.floor("update_reads_after_instance_of_other_platform_with_stage_blueprint", 500 * k)
    c.floor("update_reads_after_instance_stage_blueprint_reference_redefined_above", 500 * k)
    c.floor("update_reads_dict_option_of_stage_blueprint_merged_with_higher_layer", 500 * k)
    c.floor("update_reads_dict_option_of_stage_blueprint_after_sibling_with_own_dict", 300 * k)
    for lname in ("dg", "ds", "pg", "ps", "comp", "ovr"):
        c.floor("option_winner_" + lname, 100)
    for lname in ("dg", "ds", "pg", "ps", "user", "comp", "ovr"):
        c.floor("variable_winner_" + lname, 100)
    sys.exit(c.finish())


if __name__ == "__main__":
    main()
