"""C05 helper: seeded generator of DoWhile document *shapes* together with the by-construction
ground truth (which instances exist after k iterations, who feeds whom, what outside references
resolve to).  Nothing in here imports the repository: the truth is derived from the property
statement and the user-facing DoWhile semantics only.

A shape is a plain JSON dict so a witness can be replayed exactly.

Domain restrictions (each one avoids a behaviour that belongs to another property or that the
statement of C05 does not settle; they are repeated in the evidence `assumptions`):
 * names are drawn so that no component/binding name is a substring of another one (textual
   substitution of reference spellings is C03/C10's subject);
 * a reference may appear twice in an argument string and same-stage in-loop references may be spelled
   relatively, but only in non-replicated, non-aggregating components (expansion of replicas is C03's subject);
 * loop-carried producers sit in a body stage <= the consumer's body stage; a replicated producer is only
   carried into the replicated head of the same chain (same replica count, replica r <- replica r);
 * replication inside the loop is limited to the classic  replicate -> [follower] -> aggregate chain;
 * `:loopref` / `:loopoutput` are used by consumers outside the loop and (round 5) by ONE extra looped component,
   a pure sink (nobody reads it), which aggregates non-replicated sibling looped components of the same loop;
 * at most two DoWhile documents per package (the second one is a fixed two-component loop).
"""
from __future__ import annotations

import re
from typing import Any, Dict, List, Optional, Tuple

BODY_NAMES = ["add", "gen", "echo", "pick", "x10y", "s9t", "it", "nine", "calc-v", "m_n", "Tenth", "zz",
              "one1x", "b2b", "loopy", "ten10n", "w"]
COND_NAMES = ["stop", "cond", "chk", "decide", "q9q"]
BIND_NAMES = ["number", "other", "dep", "feed", "inp", "carry", "k9k", "val-u"]
OUTER_SRC = ["srca", "srcb", "srcc"]
TWIN_WORK = "secondjob"
CONS_NAMES = ["report", "collect", "tail", "view", "last1x", "agg-all", "obs"]
PATH_METHODS = ["ref", "copy", "link"]
SINK_NAMES = ["hist", "accum", "sum2all"]      # the in-loop reader of aggregate references (round 5)


def _substring_free(names: List[str]) -> bool:
    for i, a in enumerate(names):
        for j, b in enumerate(names):
            if i != j and a in b:
                return False
    return True


def ref_str(stage: Optional[int], name: str, file: Optional[str], method: str) -> str:
    s = name if stage is None else "stage%d.%s" % (stage, name)
    if file:
        s += "/" + file
    return s + ":" + method


_REF = re.compile(r"^(?:stage(\d+)\.)?([^/:]+)(?:/([^:]+))?:([a-z]+)$")


def parse_ref(s: str, default_stage: Optional[int] = None) -> Tuple[Optional[int], str, Optional[str], str]:
    """(stage, producer, file, method) of a reference spelling (own parser, not the repository's)."""
    m = _REF.match(s.strip())
    if not m:
        return (None, s, None, "?")
    st = int(m.group(1)) if m.group(1) is not None else default_stage
    return (st, m.group(2), m.group(3), m.group(4))


def draw_shape(r, idx: int, K: int, allow_repl_carried: bool = True, allow_extras: bool = True) -> Dict[str, Any]:
    """Draw one DoWhile package shape.  `idx` steers a few boundary choices so that a small number
    of shapes already covers import stages 0..2, body offsets, replication and every reference method."""
    while True:
        S = idx % 3 if idx < 9 else r.randint(0, 2)
        with_repl = (idx % 4 == 1) or (idx >= 12 and r.random() < 0.3)
        n_plain = r.randint(1, 3) if not with_repl else r.randint(0, 2)
        names = r.sample(BODY_NAMES, n_plain + (3 if with_repl else 0))
        cond_name = r.choice(COND_NAMES)
        nb = r.randint(1, 3)
        bnames = r.sample(BIND_NAMES, nb)
        n_cons = r.randint(2, 4)
        cnames = r.sample(CONS_NAMES, n_cons)
        if _substring_free(names + [cond_name] + bnames + cnames + OUTER_SRC + ["filler", TWIN_WORK]):
            break
    # round-3 extras (not used by C07, whose random stream must stay as it was):
    #  combo  - one argument string names a loop-carried binding AND, in relative spelling, the in-loop producer the
    #           binding is carried from (`number:output fake_add:output` with loopBindings number: fake_add:output)
    #  twin   - a second DoWhile document in the package whose condition component has the SAME name as this
    #           loop's condition component, in a different stage; it iterates half as often
    #  rel/dup - relative spellings of same-stage in-loop references; one reference repeated in an argument string
    combo = allow_extras and idx % 8 == 3
    twin_wanted = allow_extras and idx % 8 == 7

    body: List[Dict[str, Any]] = []
    # -- replication chain  A(replicate N) -> [M follower] -> G(aggregate)
    repl_via_var = False
    if with_repl:
        a, m, g = names[0], names[1], names[2]
        nrep = r.randint(1, 3)
        repl_via_var = r.random() < 0.5
        off_a = r.randint(0, 1)
        body.append({"name": a, "off": off_a, "replicate": nrep, "aggregate": False, "intra": []})
        chain_src = a
        if r.random() < 0.5:
            body.append({"name": m, "off": off_a, "replicate": None, "aggregate": False, "follows": a,
                         "intra": [{"to": a, "method": r.choice(PATH_METHODS + ["output"]), "file": None}]})
            chain_src = m
        else:
            names = [n for n in names if n != m]
        off_g = r.randint(off_a, 1)
        body.append({"name": g, "off": off_g, "replicate": None, "aggregate": True,
                     "intra": [{"to": chain_src, "method": r.choice(["ref", "output"]), "file": None}]})
        plain_names = [n for n in names if n not in (a, m, g)]
    else:
        plain_names = list(names)

    for n in plain_names:
        body.append({"name": n, "off": r.randint(0, 1), "replicate": None, "aggregate": False, "intra": []})
    # the condition producer is an ordinary, non replicated body component
    body.append({"name": cond_name, "off": r.randint(0, 1), "replicate": None, "aggregate": False, "intra": []})
    if combo:
        same_off = r.randint(0, 1)
        for c in body:
            if c.get("replicate") is None and c.get("follows") is None and not c["aggregate"]:
                c["off"] = same_off

    def replicated(c):
        return c.get("replicate") is not None or c.get("follows") is not None

    # -- intra-iteration references between non-replicated components (a DAG in list order)
    plain = [c for c in body if not replicated(c)]
    for i, c in enumerate(plain):
        if c.get("aggregate"):
            continue
        for p in plain[:i]:
            if p["off"] <= c["off"] and r.random() < 0.35:
                f = r.choice([None, None, "data.txt"])
                c["intra"].append({"to": p["name"], "method": r.choice(PATH_METHODS + ["output"]), "file": f})
                if allow_extras and p["off"] == c["off"] and r.random() < 0.4:
                    c["intra"][-1]["spelling"] = "rel"

    # -- bindings: invariant or loop-carried
    repl_carried = allow_repl_carried and with_repl and idx % 8 == 5
    stages_outer = list(range(0, S + 1))
    bindings: Dict[str, Dict[str, Any]] = {}
    uses: List[Tuple[str, str]] = []
    for bi, b in enumerate(bnames):
        method = r.choice(PATH_METHODS + ["output", "output"])
        src_stage = r.choice(stages_outer)
        src = OUTER_SRC[src_stage]
        init_file = r.choice([None, None, "seed.dat"])
        carried = (bi == 0) or r.random() < 0.5
        # consumers of the binding: any body component that is not a follower/aggregate of the chain
        cands = [c for c in body if c.get("follows") is None and not c.get("aggregate")]
        users = r.sample(cands, r.randint(1, min(2, len(cands))))
        loop = None
        if repl_carried and bi == 0:
            # loop-carried input of the replicated head of the chain, produced by a REPLICATED looped
            # component (the head itself or its follower): replica r of iteration i reads replica r of i-1
            users = [body[0]]
            p = r.choice([c for c in body if replicated(c)])
            loop = {"comp": p["name"], "off": p["off"], "file": r.choice([None, None, "loop.out"]), "replicated": True}
        elif combo and bi == 0 and len([c for c in body if not replicated(c) and not c["aggregate"]]) >= 2:
            elig = [c for c in body if not replicated(c) and not c["aggregate"]]
            ui = r.randint(1, len(elig) - 1)
            u, p = elig[ui], r.choice(elig[:ui])
            users = [u]
            init_file = None
            loop = {"comp": p["name"], "off": p["off"], "file": None, "combo": True}
            u["intra"] = [x for x in u["intra"] if x["to"] != p["name"]]
            u["intra"].insert(0, {"to": p["name"], "method": method, "file": None, "spelling": "rel"})
        elif carried:
            max_off = min(u["off"] for u in users)
            prods = [c for c in body if not replicated(c) and c["off"] <= max_off]
            if prods:
                p = r.choice(prods)
                # a binding that carries a filename may only be used without one or with the same one
                loop = {"comp": p["name"], "off": p["off"], "file": r.choice([None, None, "loop.out"])}
        bindings[b] = {"type": method, "init": {"stage": src_stage, "name": src, "file": init_file}, "loop": loop}
        for u in users:
            use_file = None
            if loop is not None and loop.get("combo"):
                pass
            elif init_file is None and (loop is None or loop["file"] is None) and r.random() < 0.3:
                use_file = "part.bin"
            u.setdefault("binds", []).append({"binding": b, "file": use_file})
    for c in body:
        c.setdefault("binds", [])
    if allow_extras:
        for c in body:
            n_tok = len(c["binds"]) + len(c["intra"])
            if not replicated(c) and not c["aggregate"] and n_tok and r.random() < 0.15:
                c["dup"] = r.randrange(n_tok)       # this reference token appears twice in the argument string

    cond = {"comp": cond_name, "file": r.choice([None, None, "iteration.next"]),
            "spelling": r.choice(["abs", "rel"])}

    # -- consumers outside the loop
    consumers = []
    methods_cycle = ["ref", "loopref", "output", "loopoutput", "copy", "link"]
    targets = [c for c in body]
    for ci, cn in enumerate(cnames):
        t = r.choice(targets)
        method = methods_cycle[(idx + ci) % len(methods_cycle)] if ci < 2 else r.choice(methods_cycle)
        trepl = replicated(t)
        aggregate = False
        if trepl:
            # a reader of a replicated looped component is either an aggregator or inherits replication
            aggregate = r.random() < 0.5
        file = r.choice([None, None, "res.txt"])
        stage = S + t["off"] + r.randint(0, 1)
        consumers.append({"name": cn, "stage": stage, "target": t["name"], "method": method, "file": file,
                          "aggregate": aggregate})

    max_stage = max([S + c["off"] for c in body] + [c["stage"] for c in consumers])
    twin = None
    if twin_wanted:
        cond_stage = S + [c for c in body if c["name"] == cond_name][0]["off"]
        choices = [t for t in range(0, max_stage + 1) if t != cond_stage] or [max_stage + 1]
        twin = {"stage": r.choice(choices), "cond": cond_name, "work": TWIN_WORK, "name": "lp2"}
        max_stage = max(max_stage, twin["stage"])
    shape = {"twin": twin, "combo": combo, "idx": idx, "S": S, "K": K, "body": body, "bindings": bindings, "cond": cond,
             "consumers": consumers, "max_stage": max_stage, "dw_name": r.choice(["loop-it", "dw", "imp-one"]),
             "repl_via_var": repl_via_var, "repl_carried": repl_carried}
    if allow_extras:
        # drawn LAST so that everything above stays what it was before this family existed (and C07's stream is untouched)
        _add_inloop_aggregator(r, shape, bnames + cnames)
    return shape


def _add_inloop_aggregator(r, shape: Dict[str, Any], other_names: List[str]) -> None:
    """round-5 family: a looped component INSIDE the loop reads sibling looped components of the same loop through
    the aggregate methods (`add:loopoutput`, `stage0.add/res.txt:loopref`), possibly next to an ordinary
    same-iteration reference to the same sibling.  The reader is a pure sink (no loop binding, no outside consumer,
    not the condition) so that "all instances" can never close a cycle; targets are non-replicated."""
    idx, body = shape["idx"], shape["body"]
    if not (idx % 2 == 0 or r.random() < 0.3):
        return
    taken = [c["name"] for c in body] + other_names + OUTER_SRC + ["filler", TWIN_WORK, "lp2", "loop-it", "dw", "imp-one"]
    free = [n for n in SINK_NAMES if all(n not in t and t not in n for t in taken)]
    elig = [c for c in body if c.get("replicate") is None and c.get("follows") is None]
    if not free or not elig:
        return
    main_t = r.choice(elig)
    off = r.randint(main_t["off"], 1)
    reach = [c for c in elig if c["off"] <= off]
    methods = r.choice([["loopoutput"], ["loopref"], ["loopoutput", "loopref"], ["loopref", "loopoutput"]])
    agg = []
    for m in methods:
        t = main_t if r.random() < 0.7 else r.choice(reach)
        a = {"to": t["name"], "method": m, "file": r.choice([None, None, "res.txt"])}
        if t["off"] == off and r.random() < 0.5:
            a["spelling"] = "rel"
        agg.append(a)
    intra = []
    if r.random() < 0.5:
        p = main_t if r.random() < 0.5 else r.choice(reach)
        it = {"to": p["name"], "method": r.choice(PATH_METHODS + ["output"]), "file": None}
        if p["off"] == off and r.random() < 0.4:
            it["spelling"] = "rel"
        intra.append(it)
    body.append({"name": r.choice(free), "off": off, "replicate": None, "aggregate": False, "intra": intra,
                 "binds": [], "agg": agg})
    shape["inagg"] = True
    shape["max_stage"] = max(shape["max_stage"], shape["S"] + off)


# ----------------------------------------------------------------------------- documents

def _yaml_quote(s: str) -> str:
    return '"' + s.replace('"', '\\"') + '"'


def spelled_intra(by_name, it) -> str:
    """how an in-loop reference is written in the document (absolute within the loop, or relative)"""
    if it.get("spelling") == "rel":
        return ref_str(None, it["to"], it["file"], it["method"])
    return ref_str(by_name[it["to"]]["off"], it["to"], it["file"], it["method"])


def render_twin(shape: Dict[str, Any]) -> Optional[str]:
    """twin.yaml: the second DoWhile document (its condition component is a namesake of the main loop's)"""
    tw = shape.get("twin")
    if not tw:
        return None
    return "\n".join([
        "type: DoWhile", "inputBindings: {}", "condition: %s" % _yaml_quote(ref_str(None, tw["cond"], None, "output")),
        "components:",
        "- name: %s" % tw["cond"], "  command:", "    executable: echo", "    arguments: twin-%(loopIteration)s",
        "- name: %s" % tw["work"], "  command:", "    executable: echo",
        "    arguments: %s" % _yaml_quote(ref_str(None, tw["cond"], None, "ref")),
        "  references: [%s]" % _yaml_quote(ref_str(None, tw["cond"], None, "ref"))]) + "\n"


def render(shape: Dict[str, Any]) -> Tuple[str, str]:
    """(flowir_package.yaml, dowhile.yaml) texts of a shape."""
    S = shape["S"]
    body = shape["body"]
    by_name = {c["name"]: c for c in body}
    dw: List[str] = ["type: DoWhile", "inputBindings:"]
    for b, d in shape["bindings"].items():
        dw += ["  %s:" % b, "    type: %s" % d["type"]]
    loops = {b: d for b, d in shape["bindings"].items() if d["loop"]}
    if loops:
        dw.append("loopBindings:")
        for b, d in loops.items():
            lp = d["loop"]
            dw.append("  %s: %s" % (b, _yaml_quote(ref_str(lp["off"], lp["comp"], lp["file"], d["type"]))))
    c = shape["cond"]
    coff = by_name[c["comp"]]["off"]
    if c["spelling"] == "abs" or coff != 0:
        dw.append("condition: %s" % _yaml_quote(ref_str(coff, c["comp"], c["file"], "output")))
    else:
        dw.append("condition: %s" % _yaml_quote(ref_str(None, c["comp"], c["file"], "output")))
    dw.append("components:")
    for comp in body:
        refs = []
        for bd in comp["binds"]:
            refs.append(ref_str(None, bd["binding"], bd["file"], shape["bindings"][bd["binding"]]["type"]))
        for it in comp["intra"]:
            refs.append(spelled_intra(by_name, it))
        for it in comp.get("agg", []):
            refs.append(spelled_intra(by_name, it))
        arg_refs = refs + ([refs[comp["dup"]]] if comp.get("dup") is not None else [])
        args = " ".join(["-v"] + arg_refs + ["--tag=%(loopIteration)s"])
        dw += ["- name: %s" % comp["name"], "  stage: %d" % comp["off"], "  command:", "    executable: echo",
               "    arguments: %s" % _yaml_quote(args)]
        if comp["aggregate"]:
            dw.append("    expandArguments: none")
        dw.append("  references: [%s]" % ", ".join(_yaml_quote(x) for x in refs))
        wa = []
        if comp.get("replicate") is not None:
            wa.append("    replicate: %s" % ('"%(nrep)s"' if shape.get("repl_via_var") else str(comp["replicate"])))
        if comp["aggregate"]:
            wa.append("    aggregate: true")
        if wa:
            dw += ["  workflowAttributes:"] + wa

    main: List[str] = []
    if shape.get("repl_via_var"):
        nrep = [c["replicate"] for c in body if c.get("replicate") is not None][0]
        main += ["variables:", "  default:", "    global:", "      nrep: %d" % nrep]
    main.append("components:")
    for st in range(0, shape["max_stage"] + 1):
        nm = OUTER_SRC[st] if st < len(OUTER_SRC) else "filler"
        if st > S:
            nm = "filler"
        main += ["- name: %s" % nm, "  stage: %d" % st, "  command:", "    executable: echo",
                 "    arguments: %s" % nm]
    main += ["- name: %s" % shape["dw_name"], "  stage: %d" % S, "  $import: dowhile.yaml", "  bindings:"]
    if not shape["bindings"]:
        main[-1] = "  bindings: {}"
    for b, d in shape["bindings"].items():
        i = d["init"]
        main.append("    %s: %s" % (b, _yaml_quote(ref_str(i["stage"], i["name"], i["file"], d["type"]))))
    if shape.get("twin"):
        main += ["- name: %s" % shape["twin"]["name"], "  stage: %d" % shape["twin"]["stage"],
                 "  $import: twin.yaml", "  bindings: {}"]
    for cons in shape["consumers"]:
        t = by_name[cons["target"]]
        rs = ref_str(S + t["off"], cons["target"], cons["file"], cons["method"])
        main += ["- name: %s" % cons["name"], "  stage: %d" % cons["stage"], "  command:", "    executable: echo",
                 "    arguments: %s" % _yaml_quote(rs), "  references: [%s]" % _yaml_quote(rs)]
        if cons["aggregate"]:
            main += ["  workflowAttributes:", "    aggregate: true"]
    return "\n".join(main) + "\n", "\n".join(dw) + "\n"


# ----------------------------------------------------------------------------- ground truth

class Truth:
    """What the statement of C05 demands for a shape after k further iterations."""

    def __init__(self, shape: Dict[str, Any]):
        self.shape = shape
        self.S = shape["S"]
        self.body = shape["body"]
        self.by_name = {c["name"]: c for c in self.body}
        self.nrep = None
        for c in self.body:
            if c.get("replicate") is not None:
                self.nrep = c["replicate"]

    def is_repl(self, name: str) -> bool:
        c = self.by_name[name]
        return c.get("replicate") is not None or c.get("follows") is not None

    def stage(self, name: str) -> int:
        return self.S + self.by_name[name]["off"]

    def suffixes(self, name: str) -> List[str]:
        return [str(i) for i in range(self.nrep)] if self.is_repl(name) else [""]

    def placeholder_ids(self) -> List[Tuple[str, str, str]]:
        """[(placeholder node id, body name, replica suffix)]"""
        out = []
        for c in self.body:
            for sfx in self.suffixes(c["name"]):
                out.append(("stage%d.%s%s" % (self.stage(c["name"]), c["name"], sfx), c["name"], sfx))
        return out

    def instance_id(self, name: str, it: int, sfx: str = "") -> str:
        return "stage%d.%d#%s%s" % (self.stage(name), it, name, sfx)

    def outer_nodes(self) -> List[str]:
        sh = self.shape
        out = []
        for st in range(0, sh["max_stage"] + 1):
            nm = OUTER_SRC[st] if (st < len(OUTER_SRC) and st <= self.S) else "filler"
            out.append("stage%d.%s" % (st, nm))
        for cons in sh["consumers"]:
            if self.is_repl(cons["target"]) and not cons["aggregate"]:
                out += ["stage%d.%s%d" % (cons["stage"], cons["name"], r) for r in range(self.nrep)]
            else:
                out.append("stage%d.%s" % (cons["stage"], cons["name"]))
        return out

    # -- second loop (namesake condition component in another stage); it gets an iteration after every even k >= 2
    def twin_iters(self, k: int) -> int:
        return k // 2

    def twin_nodes(self, k: int) -> List[str]:
        tw = self.shape.get("twin")
        if not tw:
            return []
        return ["stage%d.%d#%s" % (tw["stage"], i, n) for i in range(self.twin_iters(k) + 1) for n in (tw["cond"], tw["work"])]

    def arg_plan(self, name: str, it: int) -> List[Tuple[str, str]]:
        """For a non-replicated, non-aggregating component: [(reference as spelled in the document's argument
        string, the reference it must have become in instance `it`)] in textual order (a repeated token last)."""
        c = self.by_name[name]
        spelled = [ref_str(None, bd["binding"], bd["file"], self.shape["bindings"][bd["binding"]]["type"]) for bd in c["binds"]]
        spelled += [spelled_intra(self.by_name, x) for x in c["intra"]]
        spelled += [spelled_intra(self.by_name, x) for x in c.get("agg", [])]
        expect = [ref_str(*x) for x in self.instance_inputs(name, it, "")]
        plan = list(zip(spelled, expect))
        if c.get("dup") is not None:
            plan.append(plan[c["dup"]])
        return plan

    def nodes(self, k: int) -> List[str]:
        out = list(self.outer_nodes()) + self.twin_nodes(k)
        for c in self.body:
            for it in range(0, k + 1):
                for sfx in self.suffixes(c["name"]):
                    out.append(self.instance_id(c["name"], it, sfx))
        return out

    def instance_inputs(self, name: str, it: int, sfx: str, with_agg: bool = True) -> List[Tuple[int, str, Optional[str], str]]:
        """Expected references (stage, producer node name, file, method) of instance `it` of `name`
        (replica `sfx`), at the replicated level.  An aggregate reference from inside the loop keeps naming the
        looped component as such (= all its instances) in every instance; `with_agg=False` leaves those out."""
        c = self.by_name[name]
        out = []
        for bd in c["binds"]:
            b = self.shape["bindings"][bd["binding"]]
            if it > 0 and b["loop"]:
                lp = b["loop"]
                file = bd["file"] or lp["file"]
                psfx = sfx if self.is_repl(lp["comp"]) else ""      # same replica of the previous iteration
                out.append((self.S + lp["off"], "%d#%s%s" % (it - 1, lp["comp"], psfx), file, b["type"]))
            else:
                i = b["init"]
                file = bd["file"] or i["file"]
                out.append((i["stage"], i["name"], file, b["type"]))
        for itr in c["intra"]:
            t = itr["to"]
            if self.is_repl(t):
                if c["aggregate"]:
                    for r in range(self.nrep):
                        out.append((self.stage(t), "%d#%s%d" % (it, t, r), itr["file"], itr["method"]))
                else:
                    out.append((self.stage(t), "%d#%s%s" % (it, t, sfx), itr["file"], itr["method"]))
            else:
                out.append((self.stage(t), "%d#%s" % (it, t), itr["file"], itr["method"]))
        if with_agg:
            for a in c.get("agg", []):
                out.append((self.stage(a["to"]), a["to"], a["file"], a["method"]))
        return out

    def condition(self, k: int) -> Tuple[int, str, Optional[str], str]:
        c = self.shape["cond"]
        return (self.stage(c["comp"]), "%d#%s" % (k, c["comp"]), c["file"], "output")
