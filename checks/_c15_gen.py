"""C15 – seeded generator of packages (FlowIR, DSL 2.0, DOSINI) + option sets.

A *case* is a JSON-able dict:
  kind        'flowir' | 'dsl' | 'dosini'
  doc         the main document (python dict for flowir/dsl; for dosini {relpath: [[section, [[k,v]..]]..]})
  files       {relative path in package: text}   (data files, extra top-level folders)
  varfiles    [ {global:{..}, stages:{i:{..}}} ... ]  the DISTINCT user variable files
  var_order   [index into varfiles ...]   the order in which they are GIVEN (may repeat an index)
  platform    None | name
  klass       structural class key (for distinct counting)
  streams     {component id: [first index, count]}  repeating components (workflowAttributes.repeatInterval) whose
              working directory holds the archived stdout/stderr streams <first>..<first+count-1> (what the
              RepeatingEngine leaves behind: at most 5, contiguous, the oldest pruned) when references are resolved
  stream_refs [[consumer id, reference string, repeating producer id], ...]  `:output` references WITHOUT a file name
              to such components, by construction
  shadow      None | {stages: T, vars: {X: {global, alt_global, overrides: {stage: token}, alt_overrides: {..}}},
              derived: [[stage B, D, X]], replicate: None | {...}}   cross-stage variable shadowing (see
              add_shadow_family_flowir): X is global and overridden in SOME stages; OTHER stages define a stage
              variable D = %(X)s without defining X.  Values are unique tokens so that the scope a value came from
              can be read off any resolved text.
Ground truth known by construction: `expected_user_variables(case)` = fold in the given order, last wins.
Nothing here looks at the repository code.
"""
from __future__ import annotations

import copy
import random
from typing import Any, Dict, List

# collision-prone names: substrings of each other, differing in case/punctuation only.
DIGIT_NAMES = ["gen2", "a1", "step10", "b-a3", "A7", "x_9"]
COMP_NAMES = ["a", "aa", "ab", "a-b", "a_b", "A", "gen", "gen-x", "genx", "Gen", "b", "ba", "b-a", "cat", "c",
              "work", "worker", "w", "x-y-z", "xy"]
ENV_NAMES = ["env", "env-a", "envA", "e", "my-env", "MY_ENV", "zz", "aenv"]
ENV_VARS = ["FOO", "BAR", "FOO_BAR", "A", "B", "Z", "PATHX", "LD_X", "OMP_NUM_THREADS", "X1", "X2", "AA"]
EXES = ["echo", "cat", "ls", "true", "sh"]
LITS = ["hello", "-n", "--flag", "x", "1", "0.5", "a:b", "v=1", "-c", "world"]
METHODS_ARG = ["ref", "output"]
METHODS_NOARG = ["copy", "link"]


def _pick_names(r: random.Random, pool: List[str], n: int) -> List[str]:
    return r.sample(pool, n)


def gen_varfiles(r: random.Random, n_stages: int, var_names: List[str], stage_var_names: List[str], dsl: bool = False):
    """0..4 distinct files; conflicts are likely by design.  Every variable name lives in ONE scope only
    (global xor a given stage) so that 'the last file defining it wins' has a single reading."""
    nfiles = r.choice([0, 1, 2, 2, 2, 3, 3, 4])
    files = []
    for fi in range(nfiles):
        d: Dict[str, Any] = {}
        g = {}
        for v in var_names:
            if r.random() < 0.6:
                g[v] = "f%d-%s" % (fi, v) if r.random() < 0.8 else r.choice([fi, "x", "%d.5" % fi])
        if g:
            d["global"] = g
        if not dsl:
            st = {}
            for s in range(n_stages):
                sv = {}
                for v in stage_var_names:
                    if r.random() < 0.4:
                        sv["%s" % v] = "f%d-s%d-%s" % (fi, s, v)
                if sv:
                    st[s] = sv
            if st:
                d["stages"] = st
        if not d:
            d["global"] = {var_names[0]: "f%d-only" % fi}
        files.append(d)
    order = list(range(nfiles))
    r.shuffle(order)  # given order != creation order (names are v<i>.yaml: lexical order is no help)
    if nfiles >= 2 and r.random() < 0.15:
        order.insert(r.randrange(len(order) + 1), r.choice(order))  # a path given twice
    return files, order


def expected_user_variables(case: Dict[str, Any]) -> Dict[str, Any]:
    """Independent fold: files layered in the order given, the last one defining a variable wins."""
    out: Dict[str, Any] = {}
    for i in case["var_order"]:
        f = case["varfiles"][i]
        for name, val in (f.get("global") or {}).items():
            out.setdefault("global", {})[name] = val
        for s, vs in (f.get("stages") or {}).items():
            for name, val in vs.items():
                out.setdefault("stages", {}).setdefault(int(s), {})[name] = val
    return out


def conflicting_variables(case: Dict[str, Any]):
    """(scope, name) defined with different values by >=2 of the given files."""
    seen: Dict[Any, set] = {}
    for i in set(case["var_order"]):
        f = case["varfiles"][i]
        for name, val in (f.get("global") or {}).items():
            seen.setdefault(("global", name), set()).add(repr(val))
        for s, vs in (f.get("stages") or {}).items():
            for name, val in vs.items():
                seen.setdefault((int(s), name), set()).add(repr(val))
    return sorted((k for k, v in seen.items() if len(v) > 1), key=repr)



# ----------------------------------------------------------------------------- repeating components + archived streams

OBS_NAMES = ["obs", "observer", "mon3", "watch-a", "Obs", "o"]
USE_NAMES = ["use-obs", "reader", "tail7", "useobs", "u"]
DOWN_NAMES = ["down", "after-u", "d2"]


def draw_streams(r: random.Random) -> List[int]:
    """[first index, count]: what archive_stream(max_files=5) leaves after `first + count` repetitions – contiguous
    indices, at most 5 files; later windows include two/three digit indices (8..12, 97..101)."""
    first = r.choice([0, 0, 0, 3, 8, 9, 97])
    count = r.choice([2, 3, 4, 5, 5]) if first == 0 else 5
    return [first, count]


def add_repeat_family_flowir(r: random.Random, doc: Dict[str, Any], n_stages: int, data_files: List[str]):
    """Append a repeating observer, 1-2 consumers of `<observer>:output` (no file name) and possibly a component
    downstream of a consumer.  Returns (streams, stream_refs)."""
    comps = doc["components"]
    by_stage: Dict[int, List[str]] = {}
    for c in comps:
        by_stage.setdefault(c["stage"], []).append(c["name"])
    # the whole replicate -> worker -> aggregate chain is left alone (an observer of a replica would replicate itself)
    replicated = {(c["stage"], c["name"]) for c in comps if c["name"] in ("rsrc", "rwork", "ragg", "r-src", "r-work")}
    streams: Dict[str, List[int]] = {}
    stream_refs: List[List[str]] = []

    def fresh(pool, stage):
        name = r.choice([n for n in pool if n not in by_stage.get(stage, [])])
        by_stage.setdefault(stage, []).append(name)
        return name

    for _ in range(r.choice([1, 1, 2])):
        s_obs = r.randrange(n_stages)
        obs = fresh(OBS_NAMES, s_obs)
        oid = "stage%d.%s" % (s_obs, obs)
        oc: Dict[str, Any] = {"name": obs, "stage": s_obs,
                              "workflowAttributes": {"repeatInterval": r.choice([1, 2.5, 10])}}
        oargs, orefs = ["-n"], []
        # subject of the observer: a plain (not replicating) component of the same stage, an earlier one, or a data file
        subjects = [c for c in comps if c["stage"] <= s_obs and (c["stage"], c["name"]) not in replicated
                    and c["name"] != obs and "repeatInterval" not in (c.get("workflowAttributes") or {})
                    and "aggregate" not in (c.get("workflowAttributes") or {})]
        if subjects and r.random() < 0.8:
            sub = r.choice(subjects)
            ref = "stage%d.%s:ref" % (sub["stage"], sub["name"])
            orefs.append(ref)
            oargs.append(ref)
        elif data_files:
            ref = "%s:ref" % r.choice(data_files)
            orefs.append(ref)
            oargs.append(ref)
        oc["command"] = {"executable": r.choice(EXES), "arguments": " ".join(oargs)}
        if orefs:
            oc["references"] = orefs
        comps.append(oc)
        streams[oid] = draw_streams(r)
        users = []
        for _u in range(r.choice([1, 1, 2])):
            s_use = r.choice([s for s in range(s_obs, n_stages)] + [n_stages - 1])
            use = fresh(USE_NAMES, s_use)
            ref = "%s:output" % oid
            if s_use == s_obs and r.random() < 0.4:
                ref = "%s:output" % obs  # relative spelling
            args = [r.choice(LITS), ref]
            r.shuffle(args)
            comps.append({"name": use, "stage": s_use, "references": [ref],
                          "command": {"executable": r.choice(EXES), "arguments": " ".join(args)}})
            stream_refs.append(["stage%d.%s" % (s_use, use), "%s:output" % oid, oid])
            users.append((s_use, use))
        if r.random() < 0.6:
            s_use, use = r.choice(users)
            s_down = r.choice([s for s in range(s_use, n_stages)])
            down = fresh(DOWN_NAMES, s_down)
            ref = "stage%d.%s:ref" % (s_use, use)
            comps.append({"name": down, "stage": s_down, "references": [ref],
                          "command": {"executable": "ls", "arguments": ref}})
    return streams, stream_refs



# ----------------------------------------------------------------------------- cross-stage variable shadowing

SHADOW_NAMES = ["sh", "sh-a", "shb", "sh3", "S-h", "zsh", "ash", "sh_x", "msh", "sh10"]


def shadow_token_stage(tok: str):
    """'o<stage>-xv<k>' / 'oa<stage>-xv<k>' -> stage whose variables (default / platform section) hold that token;
    None for global tokens ('g-xv<k>', 'ga-xv<k>')."""
    import re
    m = re.fullmatch(r"oa?(\d+)-xv\d+", tok)
    return int(m.group(1)) if m else None


def add_shadow_family_flowir(r: random.Random, doc: Dict[str, Any], n_stages: int, use_alt: bool,
                             files: Dict[str, str]) -> Dict[str, Any]:
    """Variables xv<k> defined at GLOBAL level and overridden in the stage variables of SOME stages (default and/or
    platform section); OTHER stages define stage variables dv<k>_<B> = %(xv<k>)s without defining xv<k>.  These feed
    arguments, a data-file reference, an environment value and a replicate count.  At least 3 stages (stages are
    appended when the package has fewer) and, by construction, two variables whose (overriding stage, deriving stage)
    pairs point in OPPOSITE directions, so that whatever order the stages are visited in, one deriving stage is
    visited after a stage that overrides its source."""
    comps = doc["components"]
    T = max(3, n_stages) + (1 if r.random() < 0.25 else 0)
    used: Dict[int, List[str]] = {}
    for c in comps:
        used.setdefault(c["stage"], []).append(c["name"])
    v = doc["variables"]
    dglob = v["default"]["global"]
    dst = v["default"].setdefault("stages", {})
    if use_alt:
        v.setdefault("alt", {})
    envs = sorted(doc["environments"]["default"])

    def fresh(stage):
        name = r.choice([n for n in SHADOW_NAMES if n not in used.get(stage, [])])
        used.setdefault(stage, []).append(name)
        return name

    nvars = r.choice([2, 3, 4])
    info: Dict[str, Any] = {"stages": T, "vars": {}, "derived": [], "replicate": None}
    stages = list(range(T))
    s1, s2 = r.sample(stages, 2)
    for k in range(nvars):
        x = "xv%d" % k
        if k == 0:
            over, derive = [s1], [s2]
        elif k == 1:
            over, derive = [s2], [s1]      # the opposite direction
        else:
            over = r.sample(stages, r.choice([1, 1, 2]))
            rest = [s for s in stages if s not in over]
            derive = r.sample(rest, min(len(rest), r.choice([1, 2])))
        # a third stage neither overrides nor derives ... or derives as well
        others = [s for s in stages if s not in over and s not in derive]
        if others and r.random() < 0.5:
            derive.append(r.choice(others))
        xi = {"global": "g-%s" % x, "alt_global": None, "overrides": {}, "alt_overrides": {}}
        dglob[x] = xi["global"]
        if use_alt and r.random() < 0.4:
            xi["alt_global"] = "ga-%s" % x
            v["alt"].setdefault("global", {})[x] = xi["alt_global"]
        for a in over:
            where = r.choice(["default", "alt", "both"]) if use_alt else "default"
            if where in ("default", "both"):
                xi["overrides"][a] = "o%d-%s" % (a, x)
                dst.setdefault(a, {})[x] = xi["overrides"][a]
            if where in ("alt", "both"):
                xi["alt_overrides"][a] = "oa%d-%s" % (a, x)
                v["alt"].setdefault("stages", {}).setdefault(a, {})[x] = xi["alt_overrides"][a]
            # a component of the overriding stage that uses X (it may see the override)
            comps.append({"name": fresh(a), "stage": a,
                          "command": {"executable": r.choice(EXES), "arguments": "over %%(%s)s" % x}})
        info["vars"][x] = xi
        # every possible value names a data file so that a variable-spelled reference always points to a file
        for tok in [xi["global"], xi["alt_global"]] + list(xi["overrides"].values()) + list(xi["alt_overrides"].values()):
            if tok:
                files["data/%s.txt" % tok] = "data for %s\n" % tok
        for b in derive:
            d = "dv%d_%d" % (k, b)
            section = "alt" if (use_alt and r.random() < 0.25) else "default"
            if section == "alt":
                v["alt"].setdefault("stages", {}).setdefault(b, {})[d] = "%%(%s)s" % x
                # the variable must exist on the default platform too (the package is loaded with either)
                dst.setdefault(b, {})[d] = "%%(%s)s" % x
            else:
                dst.setdefault(b, {})[d] = "%%(%s)s" % x
            info["derived"].append([b, d, x])
            args = [r.choice(LITS), "%%(%s)s" % d]
            if r.random() < 0.5:
                args.append("%%(%s)s" % x)          # X itself, seen from a stage that does not define it
            c: Dict[str, Any] = {"name": fresh(b), "stage": b}
            if r.random() < 0.4:
                ref = "data/%%(%s)s.txt:ref" % d     # a reference spelled through the derived variable
                c["references"] = [ref]
                args.append(ref)
            if r.random() < 0.3:
                c["variables"] = {"cvd": "c-%%(%s)s" % d}   # component variable built from it
                args.append("%(cvd)s")
            r.shuffle(args)
            c["command"] = {"executable": r.choice(EXES), "arguments": " ".join(args)}
            if envs and r.random() < 0.5:
                c["command"]["environment"] = r.choice(envs)
            comps.append(c)
    # an environment value spelled through a shadowed global
    if envs and r.random() < 0.7:
        doc["environments"]["default"][r.choice(envs)]["XV_ENV"] = "%(xv0)s"
    # a replicate count that comes from a derived stage variable (names and edges depend on it)
    if r.random() < 0.6:
        a, b = r.sample(stages, 2)
        gval, oval = r.choice([(2, 3), (1, 2), (3, 1)])
        dglob["xvr"] = gval
        dst.setdefault(a, {})["xvr"] = oval
        dst.setdefault(b, {})["dvr"] = "%(xvr)s"
        alt_g = None
        if use_alt and r.random() < 0.3:
            alt_g = 4
            v["alt"].setdefault("global", {})["xvr"] = alt_g
        src, wrk, agg = "psrc-x", "pwork-x", "pagg-x"
        comps.append({"name": fresh(a), "stage": a, "command": {"executable": "echo", "arguments": "n %(xvr)s"}})
        comps.append({"name": src, "stage": b, "command": {"executable": "echo", "arguments": "r %(replica)s of %(dvr)s"},
                      "workflowAttributes": {"replicate": "%(dvr)s"}})
        comps.append({"name": wrk, "stage": b, "references": ["%s:output" % src],
                      "command": {"executable": "echo", "arguments": "%s:output" % src}})
        comps.append({"name": agg, "stage": b, "references": ["%s:ref" % wrk],
                      "command": {"executable": "ls", "arguments": "%s:ref" % wrk},
                      "workflowAttributes": {"aggregate": True}})
        info["replicate"] = {"over_stage": a, "stage": b, "source": src, "worker": wrk, "global": gval,
                             "alt_global": alt_g, "override": oval}
    # every stage has at least one component
    for s_ in stages:
        if not any(c["stage"] == s_ for c in comps):
            comps.append({"name": fresh(s_), "stage": s_, "command": {"executable": "true", "arguments": "-n"}})
    return info


# ----------------------------------------------------------------------------- FlowIR

def gen_flowir(r: random.Random, force_repeat: bool = False, force_shadow: bool = False) -> Dict[str, Any]:
    n_stages = r.choice([1, 2, 2, 3])
    gvars = ["uv%d" % i for i in range(r.choice([2, 3, 4]))]
    svars = ["sv%d" % i for i in range(r.choice([1, 2]))]
    envs = _pick_names(r, ENV_NAMES, r.choice([1, 2, 3]))
    data_files = ["data/%s.txt" % n for n in _pick_names(r, ["in", "in2", "cfg", "a", "ab"], r.choice([1, 2, 3]))]
    use_alt = r.random() < 0.5

    doc: Dict[str, Any] = {}
    doc["variables"] = {"default": {"global": {v: "pkg-%s" % v for v in gvars}}}
    doc["variables"]["default"]["global"]["lit"] = "L"
    st = {}
    for s in range(n_stages):
        st[s] = {v: "pkg-s%d-%s" % (s, v) for v in svars}
    doc["variables"]["default"]["stages"] = st
    if use_alt:
        doc["platforms"] = ["default", "alt"]
        doc["variables"]["alt"] = {"global": {gvars[0]: "alt-%s" % gvars[0], "lit": "ALT"}}
        if r.random() < 0.5:
            doc["variables"]["alt"]["stages"] = {0: {svars[0]: "alt-s0"}}
    doc["environments"] = {"default": {}}
    for e in envs:
        doc["environments"]["default"][e] = {k: "val-%s-%s" % (e, k) for k in r.sample(ENV_VARS, r.choice([2, 3, 5]))}
        if r.random() < 0.4:
            doc["environments"]["default"][e]["DEFAULTS"] = "PATH:LD_LIBRARY_PATH"
    if use_alt and r.random() < 0.6:
        e = envs[0]
        doc["environments"]["alt"] = {e: {k: "alt-%s" % k for k in r.sample(ENV_VARS, 3)}}

    comps: List[Dict[str, Any]] = []
    prior: List[Dict[str, Any]] = []
    names_by_stage: Dict[int, List[str]] = {}
    for s in range(n_stages):
        ncomp = r.choice([1, 2, 2, 3])
        names = _pick_names(r, COMP_NAMES, ncomp)
        if s < n_stages - 1 or n_stages == 1:
            # a non-replicated component whose NAME ENDS IN A DIGIT, placed first so that later ones reference it
            if r.random() < 0.7:
                names[0] = r.choice(DIGIT_NAMES)
        names_by_stage[s] = names
        for name in names:
            c: Dict[str, Any] = {"name": name, "stage": s}
            refs: List[str] = []
            args: List[str] = [r.choice(LITS)]
            # producers: up to 3 earlier components
            chosen = r.sample(prior, min(len(prior), r.choice([0, 1, 2, 3])))
            for dp in prior:
                if dp["name"][-1].isdigit() and dp not in chosen and r.random() < 0.7:
                    chosen.append(dp)
            for p in chosen:
                pid = "stage%d.%s" % (p["stage"], p["name"])
                if p["stage"] == s and r.random() < 0.3:
                    pid = p["name"]
                if r.random() < 0.7:
                    m = r.choice(METHODS_ARG)
                    ref = "%s/out.txt:%s" % (pid, m) if (m == "output" or r.random() < 0.5) else "%s:%s" % (pid, m)
                    if m == "output" and r.random() < 0.4:
                        ref = "%s:output" % pid
                    args.append(ref)
                else:
                    ref = "%s/out.txt:%s" % (pid, r.choice(METHODS_NOARG))
                if ref not in refs:
                    refs.append(ref)
            for df in r.sample(data_files, r.choice([0, 1, 1, 2]) if len(data_files) > 1 else r.choice([0, 1])):
                m = r.choice(["ref", "copy", "ref"])
                ref = "%s:%s" % (df, m)
                if m == "ref":
                    args.append(ref)
                if ref not in refs:
                    refs.append(ref)
            for v in r.sample(gvars, r.choice([1, 2])):
                args.append("%%(%s)s" % v)
            if r.random() < 0.6:
                args.append("%%(%s)s" % r.choice(svars))
            if r.random() < 0.4:
                args.append("%(lit)s")
            if r.random() < 0.3:
                c["variables"] = {"cv": "comp-%s" % name}
                args.append("%(cv)s")
            r.shuffle(args)
            c["command"] = {"executable": r.choice(EXES), "arguments": " ".join(args)}
            if r.random() < 0.7:
                c["command"]["environment"] = r.choice(envs)
            elif r.random() < 0.3:
                c["command"]["environment"] = "none"
            if refs:
                c["references"] = refs
            if r.random() < 0.2:
                c["resourceManager"] = {"config": {"backend": "local", "walltime": r.choice([10, 30.5])}}
            if r.random() < 0.15:
                c["workflowAttributes"] = {"shutdownOn": ["KnownIssue"], "restartHookOn": ["UnknownIssue"]}
            comps.append(c)
            prior.append(c)
    # optional replicate chain in the last stage
    if r.random() < 0.45:
        s = n_stages - 1
        free = [n for n in ["rsrc", "rwork", "ragg", "r-src", "r-work"] if n not in names_by_stage[s]]
        src, wrk, agg = free[0], free[1], free[2]
        nrep = r.choice([2, 3])
        comps.append({"name": src, "stage": s, "command": {"executable": "echo", "arguments": "r %(replica)s"},
                      "workflowAttributes": {"replicate": nrep}})
        comps.append({"name": wrk, "stage": s, "references": ["%s:output" % src],
                      "command": {"executable": "echo", "arguments": "%s:output %%(%s)s" % (src, gvars[0])}})
        comps.append({"name": agg, "stage": s, "references": ["%s:ref" % wrk],
                      "command": {"executable": "ls", "arguments": "%s:ref" % wrk},
                      "workflowAttributes": {"aggregate": True}})
    doc["components"] = comps

    files = {df: "content of %s\n" % df for df in data_files}
    for extra in r.sample(["bin/tool.sh", "hooks/__init__.py", "misc/readme.txt", "aux/x.dat", "zdir/z", "Adir/a"],
                          r.choice([1, 2, 4])):
        files[extra] = "# %s\n" % extra
    varfiles, order = gen_varfiles(r, n_stages, gvars, svars)
    case = {"kind": "flowir", "doc": doc, "files": files, "varfiles": varfiles, "var_order": order,
            "platform": "alt" if (use_alt and r.random() < 0.5) else None}
    # repeating components with archived streams: drawn LAST so that everything above stays as it was
    r2 = random.Random(r.getrandbits(64))
    case["streams"], case["stream_refs"] = {}, []
    if force_repeat or r2.random() < 0.4:
        case["streams"], case["stream_refs"] = add_repeat_family_flowir(r2, doc, n_stages, data_files)
    # cross-stage variable shadowing: drawn after everything else (again under its own sub-rng)
    r3 = random.Random(r.getrandbits(64))
    case["shadow"] = None
    if force_shadow or r3.random() < 0.3:
        case["shadow"] = add_shadow_family_flowir(r3, doc, n_stages, use_alt, files)
    sh = case["shadow"]
    case["klass"] = "flowir:st%d:rep%d:alt%d:vf%d:dupvf%d:obs%d:shadow%s" % (
        n_stages, int(any("workflowAttributes" in c and "replicate" in c["workflowAttributes"] for c in comps)),
        int(case["platform"] is not None), len(varfiles), int(len(order) != len(set(order))), len(case["streams"]),
        "-" if not sh else "%d.%d.%d" % (sh["stages"], len(sh["vars"]), int(sh["replicate"] is not None)))
    return case


# ----------------------------------------------------------------------------- DSL 2.0

def gen_dsl(r: random.Random) -> Dict[str, Any]:
    """main workflow -> component steps + 1..3 instances of nested workflow templates that all contain steps with
    the SAME names (=> duplicated step names, roman-numeral suffixes) ; component templates take an `environment`
    parameter: equal dictionaries written with different key orders must map to one environment name."""
    params = ["p%d" % i for i in range(r.choice([2, 3]))]
    inner_names = _pick_names(r, ["inner", "work", "a", "a-b", "step"], r.choice([1, 2]))
    env_pool = []
    for i in range(r.choice([1, 2, 3])):
        env_pool.append({k: "v%d-%s" % (i, k) for k in r.sample(ENV_VARS, r.choice([2, 3, 4]))})
    if r.random() < 0.5:
        e = dict(env_pool[0])
        e["DEFAULTS"] = "PATH:LD_LIBRARY_PATH"
        env_pool.append(e)

    def env_copy():
        # the SAME mapping as some pool entry (key order is shuffled again when the YAML is written)
        return copy.deepcopy(r.choice(env_pool))

    comp_templates = []
    ncomp_t = r.choice([1, 2, 3])
    for ci in range(ncomp_t):
        t = {"signature": {"name": "tmpl-%s" % "abc"[ci],
                           "parameters": [{"name": "message"}, {"name": "other", "default": "dflt-%d" % ci},
                                          {"name": "environment", "default": env_copy()}]},
             "command": {"executable": r.choice(EXES), "arguments": "%(message)s %(other)s",
                         "environment": "%(environment)s"}}
        if r.random() < 0.3:
            t["variables"] = {"tv": "tval-%d" % ci}
            t["command"]["arguments"] += " %(tv)s"
        comp_templates.append(t)
    # one template without environment at all, one with explicitly empty env
    comp_templates.append({"signature": {"name": "noenv", "parameters": [{"name": "message", "default": "m"}]},
                           "command": {"executable": "echo", "arguments": "%(message)s"}})

    def tname():
        return r.choice(comp_templates)["signature"]["name"]

    def has_env(name):
        return name != "noenv"

    # nested workflow templates: each has the same inner step names
    sub_templates = []
    for wi in range(r.choice([1, 2])):
        steps = {}
        execute = []
        prev = None
        for nm in inner_names:
            tn = tname()
            steps[nm] = tn
            args: Dict[str, Any] = {"message": "%(x)s"}
            if prev is not None and r.random() < 0.8:
                args["message"] = "<%s>:output %%(x)s" % prev
            if has_env(tn):
                if r.random() < 0.5:
                    args["other"] = "sub%d" % wi
                if r.random() < 0.6:
                    args["environment"] = env_copy()
            execute.append({"target": "<%s>" % nm, "args": args})
            prev = nm
        sub_templates.append({"signature": {"name": "sub-%s" % "xy"[wi], "parameters": [{"name": "x", "default": "xd"}]},
                              "steps": steps, "execute": execute})

    main_steps = {}
    main_exec = []
    producers: List[str] = []   # OutputReference strings usable by later steps
    n_sub_inst = r.choice([2, 2, 3])
    n_direct = r.choice([1, 2, 3])
    plan = ["sub"] * n_sub_inst + ["comp"] * n_direct
    r.shuffle(plan)
    direct_names = _pick_names(r, inner_names + ["top", "z-step", "B"], n_direct)  # may equal an inner step name
    di = 0
    for k, what in enumerate(plan):
        if what == "sub":
            st = r.choice(sub_templates)
            sname = "wf-%s" % "abcdefgh"[k]
            main_steps[sname] = st["signature"]["name"]
            main_exec.append({"target": "<%s>" % sname, "args": {"x": "%%(%s)s" % r.choice(params)}})
            for nm in st["steps"]:
                producers.append("<%s/%s>" % (sname, nm))
        else:
            sname = direct_names[di]
            di += 1
            if sname in main_steps:
                sname = sname + "-t"
            tn = tname()
            main_steps[sname] = tn
            msg = ["%%(%s)s" % r.choice(params)]
            for p in r.sample(producers, min(len(producers), r.choice([0, 1, 2, 3]))):
                msg.append(p + r.choice([":output", ":ref", "/out.txt:ref", "/out.txt:output"]))
            r.shuffle(msg)
            args = {"message": " ".join(msg)}
            if has_env(tn) and r.random() < 0.6:
                args["environment"] = env_copy()
            main_exec.append({"target": "<%s>" % sname, "args": args})
            producers.append("<%s>" % sname)
    main = {"signature": {"name": "main", "parameters": [{"name": p, "default": "d-%s" % p} for p in params]},
            "steps": main_steps, "execute": main_exec}
    entry_args = {p: "e-%s" % p for p in params if r.random() < 0.6}
    doc = {"entrypoint": {"entry-instance": "main", "execute": [{"target": "<entry-instance>", "args": entry_args}]},
           "workflows": [main] + sub_templates, "components": comp_templates}
    varfiles, order = gen_varfiles(r, 1, params, [], dsl=True)
    case = {"kind": "dsl", "doc": doc, "files": {"misc/readme.txt": "x\n"} if r.random() < 0.5 else {},
            "varfiles": varfiles, "var_order": order, "platform": None}
    case["klass"] = "dsl:sub%d:inst%d:inner%d:vf%d:dupvf%d" % (
        len(sub_templates), n_sub_inst, len(inner_names), len(varfiles), int(len(order) != len(set(order))))
    return case


# ----------------------------------------------------------------------------- DOSINI

def gen_dosini(r: random.Random, force_repeat: bool = False) -> Dict[str, Any]:
    """conf/experiment.conf (+ experiment.<plat>.conf), conf/variables.conf (+ variables.d/<plat>.conf),
    conf/stages.d/stage<N>.conf – discovered by the loader through glob: listing order is the workload."""
    n_stages = r.choice([1, 2, 3])
    gvars = ["uv%d" % i for i in range(r.choice([2, 3]))]
    plats = r.sample(["alt", "zeta", "Beta"], r.choice([0, 1, 2]))
    envs = _pick_names(r, ["ONE", "TWO", "MPI", "A-B"], r.choice([1, 2]))
    ini: Dict[str, Any] = {}
    exp = [["DEFAULT", [["name", "Gen"], ["version", "1.0"]]]]
    for e in envs:
        exp.append(["ENV-%s" % e, [[k, "val-%s-%s" % (e, k)] for k in r.sample(ENV_VARS, r.choice([2, 3]))]])
    ini["conf/experiment.conf"] = exp
    for p in plats:
        e = envs[0]
        ini["conf/experiment.%s.conf" % p] = [["ENV-%s" % e, [[k, "%s-%s" % (p, k)] for k in r.sample(ENV_VARS, 2)]]]
    ini["conf/variables.conf"] = [["GLOBAL", [[v, "pkg-%s" % v] for v in gvars]]] + [
        ["STAGE%d" % s, [["sv", "pkg-s%d" % s]]] for s in range(n_stages) if r.random() < 0.7]
    for p in plats:
        ini["conf/variables.d/%s.conf" % p] = [["GLOBAL", [[gvars[0], "%s-%s" % (p, gvars[0])]]]]
    prior = []
    for s in range(n_stages):
        secs = [["META", [["stage-name", "S%d" % s]]]]
        for name in _pick_names(r, ["Alpha", "Beta", "Ab", "A", "Gen", "GenX", "Work", "Gen2", "A1", "Step10"],
                                r.choice([1, 2, 3])):
            opts = [["executable", r.choice(EXES)]]
            refs = []
            args = [r.choice(LITS), "%%(%s)s" % r.choice(gvars)]
            chosen = r.sample(prior, min(len(prior), r.choice([0, 1, 2])))
            chosen += [dp for dp in prior if dp[-1].isdigit() and dp not in chosen and r.random() < 0.7]
            for p in chosen:
                ref = "%s:ref" % p
                refs.append(ref)
                args.append(ref)
            if r.random() < 0.5:
                refs.append("data/in.txt:ref")
                args.append("data/in.txt:ref")
            opts.append(["arguments", " ".join(args)])
            if refs:
                opts.append(["references", " ".join(refs)])
            if r.random() < 0.6:
                opts.append(["environment", r.choice(envs)])
            secs.append([name, opts])
            prior.append("stage%d.%s" % (s, name))
        ini["conf/stages.d/stage%d.conf" % s] = secs
    files = {"data/in.txt": "dosini data\n"}
    for extra in r.sample(["hooks/__init__.py", "misc/readme.txt", "aux/x.dat"], r.choice([0, 1, 2])):
        files[extra] = "# %s\n" % extra
    varfiles, order = gen_varfiles(r, n_stages, gvars, ["sv"])
    case = {"kind": "dosini", "doc": ini, "files": files, "varfiles": varfiles, "var_order": order,
            "platform": r.choice(plats) if (plats and r.random() < 0.6) else None}
    # a repeating component (repeat-interval) + a consumer of its stdout, drawn LAST
    r2 = random.Random(r.getrandbits(64))
    case["streams"], case["stream_refs"] = {}, []
    if force_repeat or r2.random() < 0.4:
        s_obs = r2.randrange(n_stages)
        s_use = r2.choice(list(range(s_obs, n_stages)))
        obs, use = r2.choice(["Obs", "Mon3", "Watch"]), r2.choice(["Reader", "UseObs", "Tail7"])
        oopts = [["executable", "echo"], ["repeat-interval", str(r2.choice([1, 2.5, 10]))]]
        same = [p.split(".", 1)[1] for p in prior if p.startswith("stage%d." % s_obs)]
        if same and r2.random() < 0.7:
            sub = r2.choice(same)
            oopts += [["arguments", "-n %s:ref" % sub], ["references", "%s:ref" % sub]]
        else:
            oopts += [["arguments", "-n data/in.txt:ref"], ["references", "data/in.txt:ref"]]
        ini["conf/stages.d/stage%d.conf" % s_obs].append([obs, oopts])
        ref = "stage%d.%s:output" % (s_obs, obs)
        ini["conf/stages.d/stage%d.conf" % s_use].append(
            [use, [["executable", "echo"], ["arguments", "x %s" % ref], ["references", ref]]])
        case["streams"]["stage%d.%s" % (s_obs, obs)] = draw_streams(r2)
        case["stream_refs"].append(["stage%d.%s" % (s_use, use), ref, "stage%d.%s" % (s_obs, obs)])
    case["klass"] = "dosini:st%d:plats%d:vf%d:dupvf%d:plat%d:obs%d" % (
        n_stages, len(plats), len(varfiles), int(len(order) != len(set(order))), int(case["platform"] is not None),
        len(case["streams"]))
    return case


def gen_case(r: random.Random, index: int) -> Dict[str, Any]:
    kind = ["flowir", "dsl", "flowir", "dsl", "dosini"][index % 5]
    if kind == "dsl":
        case = gen_dsl(r)
    else:
        # every other FlowIR / DOSINI package is guaranteed to carry a repeating component with archived streams
        # (and 7 of 10 FlowIR packages cross-stage variable shadowing over >= 3 stages)
        if kind == "flowir":
            case = gen_flowir(r, force_repeat=(index % 10 < 5), force_shadow=(index % 10 in (0, 5, 7)))
        else:
            case = gen_dosini(r, force_repeat=(index % 10 < 5))
    case["index"] = index
    return case


# ----------------------------------------------------------------------------- key-order shuffling (per child)

def shuffled(obj: Any, r: random.Random) -> Any:
    """Same document, mapping keys in a different order (lists keep their order: list order is content)."""
    if isinstance(obj, dict):
        keys = list(obj.keys())
        r.shuffle(keys)
        return {k: shuffled(obj[k], r) for k in keys}
    if isinstance(obj, list):
        return [shuffled(x, r) for x in obj]
    return obj


def ini_text(sections: List[Any], r: random.Random, keep_section_order: bool) -> str:
    secs = list(sections)
    if not keep_section_order:
        r.shuffle(secs)
    out = []
    for name, opts in secs:
        opts = list(opts)
        r.shuffle(opts)
        out.append("[%s]" % name)
        for k, v in opts:
            out.append("%s=%s" % (k, v))
        out.append("")
    return "\n".join(out) + "\n"
